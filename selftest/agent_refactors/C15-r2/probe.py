# -*- coding: utf-8 -*-
"""
Probe for C15 refactoring 2 (guard clauses in LEFT/RIGHT/MID, explicit loops in CONCATENATE,
TEXTJOIN and SUBSTITUTE).

Prints a deterministic transcript: one line per evaluation, with the input, repr() of the
outcome and the callFunction events seen. Emphasis on LEFT, RIGHT, MID, TEXTJOIN, SUBSTITUTE
and CONCATENATE, but every text function the property names is exercised.
"""
from __future__ import print_function
import os
import sys
import random

sys.path.insert(0, os.path.dirname(os.path.dirname(os.path.abspath(__file__))))

import hotxlfp  # noqa: E402
from hotxlfp.formulas import error  # noqa: E402
from hotxlfp.formulas import text as T  # noqa: E402
from hotxlfp.formulas.utils import DEFAULT  # noqa: E402

COUNT = [0]


class Odd(object):
    """ a value that is neither text, number, logical, blank nor error """

    def __init__(self, tag):
        self.tag = tag

    def __repr__(self):
        return 'Odd(%r)' % (self.tag,)

    def __str__(self):
        return 'odd:%s' % (self.tag,)


class BadStr(object):
    """ a value whose str() fails """

    def __repr__(self):
        return 'BadStr()'

    def __str__(self):
        raise ValueError('no text for this one')


class ErrStr(object):
    """ a value whose str() raises an error value """

    def __repr__(self):
        return 'ErrStr()'

    def __str__(self):
        raise error.NUM


class Shout(str):
    """ a str subclass """

    def __repr__(self):
        return 'Shout(%s)' % str.__repr__(self)


def safe_repr(value):
    if value is DEFAULT:
        return '<DEFAULT>'
    if isinstance(value, list):
        return '[' + ', '.join(safe_repr(v) for v in value) + ']'
    if isinstance(value, tuple):
        return '(' + ', '.join(safe_repr(v) for v in value) + (',)' if len(value) == 1 else ')')
    return repr(value)


CELLS = {
    'A1': 'alpha', 'A2': None, 'A3': 12, 'A4': 3.5, 'A5': True, 'A6': '', 'A7': ' two  spaces ',
    'A8': error.NOT_AVAILABLE, 'A9': 'a\tb\nc', 'B1': 'banana', 'B2': 'an', 'B3': 'AN', 'B4': 2,
}


def make_parser():
    p = hotxlfp.Parser()
    p.set_variable('BLANK', None)
    p.set_variable('EMPTY', '')
    p.set_variable('ERRV', error.VALUE)
    p.set_variable('ERRN', error.NUM)
    p.set_variable('ERRD', error.DIV_ZERO)
    p.set_variable('ARR', [['a', None], [1, True]])
    p.set_variable('ARRE', ['x', [error.REF, error.NUM], 'y'])
    p.set_variable('ARRS', ['ab', 'cd', ['ef', ['gh']]])
    p.set_variable('NOARR', [])
    p.set_variable('TUP', ('t1', ('t2', None), 3))
    p.set_variable('TWOF', 2.0)
    p.set_variable('HALF', 1.5)
    p.set_variable('NEG', -1)
    p.set_variable('NEGF', -0.5)
    p.set_variable('ZEROF', 0.0)
    p.set_variable('INF', float('inf'))
    p.set_variable('NANV', float('nan'))
    p.set_variable('CPLX', 1 + 2j)
    p.set_variable('BIG', 10 ** 30)
    p.set_variable('ODD', Odd('v'))
    p.set_variable('BADSTR', BadStr())
    p.set_variable('ERRSTR', ErrStr())
    p.set_variable('SHOUT', Shout('Loud and CLEAR'))
    p.set_variable('CTRL', 'a\x00b\x01c\x1fd\x20e\x7ff\tg\nh')
    p.set_variable('UNI', u'\xe9cole \xdcBER stra\xdfe ǅ İi')
    p.set_variable('MIX', "it's o'neil's 2nd-hand ITEM_no3 x9y")
    p.set_variable('SPACES', '   lead  mid   trail    ')
    p.set_variable('TABS', ' \t a \n  b \xa0 ')
    p.set_variable('NUMTXT', '42')
    p.set_variable('FLTTXT', '2.0')
    p.set_variable('EXPTXT', '1e400')
    p.set_variable('WORD', 'abracadabra')
    p.set_variable('AAAA', 'aaaa')

    def on_cell(cell, setter):
        setter(CELLS.get(cell.label))

    def on_range(start, end, setter):
        rows = []
        for r in range(start.row.index, end.row.index + 1):
            row = []
            for c in range(start.col.index, end.col.index + 1):
                row.append(CELLS.get('ABCDEFGH'[c] + str(r + 1)))
            rows.append(row)
        setter(rows)

    p.on('callCellValue', on_cell)
    p.on('callRangeValue', on_range)
    return p


def ev(p, formula):
    events = []

    def on_call(name, args, setter):
        events.append('%s%s' % (name, safe_repr(list(args))))

    p.on('callFunction', on_call)
    try:
        try:
            outcome = repr(p.parse(formula))
        except BaseException as e:  # parse() is not supposed to raise
            outcome = 'RAISED %s: %s' % (type(e).__name__, e)
    finally:
        p.off('callFunction', on_call)
    COUNT[0] += 1
    print('F %s -> %s | events: %s' % (formula, outcome, '; '.join(events)))


def call(fn, *args):
    label = '%s(%s)' % (fn.__name__, ', '.join(safe_repr(a) for a in args))
    try:
        outcome = safe_repr(fn(*args))
    except BaseException as e:
        outcome = 'RAISED %s: %s' % (type(e).__name__, e)
    COUNT[0] += 1
    print('D %s -> %s' % (label, outcome))


def main():
    p = make_parser()

    # ---- LEFT / RIGHT / MID over texts x counts (every guard, in every order of failure)
    texts = ['"hello"', '""', '"a"', 'UNI', 'MIX', 'SHOUT', 'CTRL', '12345', '1.5', 'TRUE', 'BLANK', 'EMPTY',
             'ERRV', '#N/A', 'ARRS', 'NOARR', 'ODD', 'A1', 'A2', 'A3', 'A8', 'A1:A3', '{"x","y"}', '"x"&1']
    counts = ['0', '1', '2', '5', '6', '99', '-1', '-0', '1-1', 'HALF', 'TWOF', 'ZEROF', 'NEGF', 'TRUE', 'FALSE',
              'BLANK', '"2"', '"x"', 'EMPTY', 'ERRN', 'INF', 'NANV', 'CPLX', 'BIG', 'ARR', 'NOARR', 'ODD', 'B4',
              '1/0', '10%']
    for text in texts:
        for n in counts:
            ev(p, 'LEFT(%s,%s)' % (text, n))
            ev(p, 'RIGHT(%s,%s)' % (text, n))
        ev(p, 'LEFT(%s)' % text)
        ev(p, 'RIGHT(%s)' % text)
        ev(p, 'LEFTB(%s,2)' % text)
        ev(p, 'RIGHTB(%s,2)' % text)
    starts = ['1', '2', '5', '6', '7', '0', '-1', 'HALF', 'TWOF', 'TRUE', 'FALSE', 'BLANK', '"2"', '"x"', 'ERRD',
              'INF', 'NANV', 'CPLX', 'BIG', 'ARR', 'ODD']
    for text in texts[:12] + texts[12:16]:
        for st in starts:
            for n in ['0', '1', '3', '99', '-1', 'HALF', 'TWOF', 'BLANK', '"1"', 'ERRN', 'NANV', 'BIG']:
                ev(p, 'MID(%s,%s,%s)' % (text, st, n))
            ev(p, 'MID(%s,%s)' % (text, st))
        ev(p, 'MIDB(%s,2,2)' % text)
    for fname in ['LEFT', 'RIGHT', 'MID']:
        ev(p, '%s()' % fname)
        ev(p, '%s(,)' % fname)
        ev(p, '%s("abc",,)' % fname)
        ev(p, '%s("abc",1,1,1)' % fname)
        ev(p, '%s("abc",1,1,1,1)' % fname)
    for s in ['"hello"', 'UNI', '""', 'MIX', 'SHOUT', '"x"']:
        for n in [0, 1, 2, 5, 40]:
            ev(p, 'LEFT(%s,%d)&RIGHT(%s,LEN(%s)-%d)=%s' % (s, n, s, s, n, s))
            ev(p, 'MID(%s,1,%d)=LEFT(%s,%d)' % (s, n, s, n))
            ev(p, 'MID(%s,LEN(%s)-%d+1,%d)=RIGHT(%s,%d)' % (s, s, n, n, s, n))

    # ---- TEXTJOIN
    delims = ['","', '""', '", "', '"--"', '1', 'BLANK', 'TRUE', 'ERRV', 'ARRS', 'SHOUT', 'A1', 'A2']
    flags = ['TRUE', 'FALSE', '1', '0', '2.5', '"yes"', '""', 'BLANK', 'ERRV', 'ARR', 'NOARR', 'NANV', 'ODD', 'A2',
             'A5']
    items = ['"a","b"', '"a",BLANK,"b"', 'BLANK', 'BLANK,BLANK', '"a",,"b"', ',', '"a",""', 'EMPTY,BLANK,EMPTY',
             'ARRS', 'ARR', 'TUP', 'NOARR', 'NOARR,BLANK', '"a",1', '"a",TRUE', '"a",ERRV', 'ERRN,BLANK', 'ARRE',
             'A1:B3', 'A1:A2', 'A2', '{"p","q";"r","s"}', '{"p",;"q"}', 'SHOUT,UNI', 'ODD', '"a",LEFT("xyz",2)']
    for d in delims[:4]:
        for f in flags:
            for it in items:
                ev(p, 'TEXTJOIN(%s,%s,%s)' % (d, f, it))
    for d in delims[4:]:
        for f in flags[:2] + flags[8:10]:
            for it in items[:6]:
                ev(p, 'TEXTJOIN(%s,%s,%s)' % (d, f, it))
    ev(p, 'TEXTJOIN()')
    ev(p, 'TEXTJOIN(",")')
    ev(p, 'TEXTJOIN(",",TRUE)')
    ev(p, 'TEXTJOIN(",",FALSE)')
    ev(p, 'TEXTJOIN(1)')
    ev(p, 'TEXTJOIN(,,)')
    ev(p, 'LEN(TEXTJOIN("",TRUE,"ab",BLANK,"cde"))=LEN("ab")+LEN("cde")')

    # ---- CONCATENATE / CONCAT
    cats = ['"a","b","c"', '"a"', '', '1,2,3', '"a",1,TRUE,2.5', 'BLANK,"x",BLANK', '"x",,"y"', ',', 'ARR',
            'ARR,ARRS,"z"', 'ARRE', '"a",ERRV,ERRN', 'ERRN,ERRV', '"a",1/0', 'TUP', 'NOARR', 'NOARR,"x"',
            'ODD,"x"', 'BADSTR,"x"', '"x",BADSTR', 'ERRV,BADSTR', 'BADSTR,ERRV', 'ERRSTR,"x"', '"x",ERRSTR,ERRV',
            'ERRV,ERRSTR', 'SHOUT,UNI', 'A1:B3', 'A1:A9', 'A1,A2,A3', '{1,2;3,4}', '{"p","q"},"r"',
            'HALF,INF,NANV,CPLX,BIG', 'NOSUCH,"x"', '"x",#N/A', 'CONCAT("a","b"),CONCATENATE("c")',
            'LEFT("abc",2),RIGHT("abc",1)', 'LEFT("abc",-1),"x"', '"x",MID("abc",0,1)']
    for args in cats:
        ev(p, 'CONCATENATE(%s)' % args)
        ev(p, 'CONCAT(%s)' % args)
        ev(p, 'LEN(CONCAT(%s))' % args)

    # ---- SUBSTITUTE
    subs = [
        ('"banana"', '"an"', '"AN"'), ('"banana"', '"an"', '""'), ('"banana"', '"x"', '"y"'),
        ('"banana"', '""', '"y"'), ('""', '"a"', '"y"'), ('"aaaa"', '"aa"', '"b"'), ('"aaaa"', '"a"', '"aa"'),
        ('"banana"', '"banana"', '"x"'), ('"banana"', '"bananas"', '"x"'), ('"a.b.c"', '"."', '"-"'),
        ('WORD', '"abra"', '"X"'), ('WORD', '"a"', 'BLANK'), ('BLANK', '"a"', '"b"'), ('"abc"', 'BLANK', '"b"'),
        ('123123', '"2"', '"x"'), ('"123123"', '2', '"x"'), ('"123123"', '"2"', '7'), ('0', '"0"', '"x"'),
        ('ERRV', '"a"', '"b"'), ('"abc"', 'ERRN', '"b"'), ('"abc"', '"b"', 'ERRD'), ('ARRS', '"cd"', '"x"'),
        ('ARRS', 'ARRS', 'ARRS'), ('"abc"', 'ARRS', '"x"'), ('"abab"', '"ab"', 'ARRS'), ('SHOUT', '"and"', '"&"'),
        ('AAAA', '"aa"', '"-"'), ('AAAA', 'AAAA', '"-"'), ('B1', 'B2', 'B3'), ('A2', '"a"', '"b"'),
    ]
    insts = [None, '1', '2', '3', '4', '5', '0', '-1', '1.5', 'TWOF', '"2"', 'FLTTXT', '"x"', 'TRUE', 'FALSE',
             'BLANK', 'ERRN', 'INF', 'NANV', 'CPLX', 'EXPTXT', 'ARR', 'BIG', '1/0', 'B4']
    for text, old, new in subs:
        for inst in insts:
            if inst is None:
                ev(p, 'SUBSTITUTE(%s,%s,%s)' % (text, old, new))
            else:
                ev(p, 'SUBSTITUTE(%s,%s,%s,%s)' % (text, old, new, inst))
    ev(p, 'SUBSTITUTE("a")')
    ev(p, 'SUBSTITUTE("a","b")')
    ev(p, 'SUBSTITUTE("a","b","c",1,2)')
    ev(p, 'SUBSTITUTE("aXbXc","X",)')
    ev(p, 'SUBSTITUTE("aXbXc","X",,2)')

    # ---- the other functions of the property, briefly
    for fname in ['CLEAN', 'LEN', 'LOWER', 'UPPER', 'PROPER', 'TRIM', 'CODE', 'CHAR']:
        for arg in ['"Hello World"', '""', '12', 'BLANK', 'ERRV', 'ARR', 'CTRL', 'UNI', 'SPACES', '65', 'A1:A3']:
            ev(p, '%s(%s)' % (fname, arg))

    # ---- direct calls with python values the grammar cannot produce
    rnd = random.Random(2015)
    dtexts = ['', 'a', 'hello', u'\xdfİx', Shout('Sub Class'), None, 5, 0, True, error.NUM, ['a', 'b', 'c'],
              ('a', 'b'), b'bytes', Odd('t')]
    dnums = [0, 1, 2, 5, 6, 10 ** 20, -1, -10 ** 20, 0.0, -0.0, 1.0, 2.5, -0.5, True, False, None, '2', '',
             float('inf'), float('-inf'), float('nan'), 1 + 0j, error.DIV_ZERO, [1], [], (), Odd('n')]
    for text in dtexts:
        for n in dnums:
            call(T.LEFT, text, n)
            call(T.RIGHT, text, n)
            call(T.MID, text, 1, n)
            call(T.MID, text, n, 2)
            call(T.MID, text, n, rnd.choice(dnums))
        call(T.LEFT, text)
        call(T.RIGHT, text)
        call(T.MID, text, 2)
    for s in ['', 'a', 'hello', u'\xdfİx\U0001f600y']:
        for a in range(1, 8):
            for n in range(0, 8):
                call(T.MID, s, a, n)
    values = [None, '', 'abc', 0, 7, 2.0, True, False, 1 + 2j, error.VALUE, error.NUM, [], ['a', 'b'], ('a',),
              [['a'], None], [None, [None, [None]]], Odd('d'), BadStr(), ErrStr(), Shout('Sub Class'), b'bytes']
    for v in values:
        call(T.CONCATENATE, v)
        call(T.CONCATENATE, 'x', v, 'y')
        call(T.CONCATENATE, [v, [v]], error.REF)
        call(T.CONCATENATE, error.REF, [v, [v]])
        for flag in (True, False, 0, 1, '', 'x', None, [], [0], error.NUM, 0.0, float('nan')):
            call(T.TEXTJOIN, ',', flag, v)
            call(T.TEXTJOIN, ',', flag, 'x', v, None, 'y')
        for delim in (None, 1, b',', [','], error.NUM, Shout('+'), ''):
            call(T.TEXTJOIN, delim, True, 'x', v)
            call(T.TEXTJOIN, delim, False, 'x', v)
    call(T.TEXTJOIN, ',', True)
    call(T.TEXTJOIN, ',', False)
    call(T.TEXTJOIN, ',')
    call(T.TEXTJOIN)
    call(T.CONCATENATE)
    stexts = ['', 'a', 'aaaa', 'abcabcabc', 'banana', ['a', 'b', 'a'], ('a', 'b'), 0, 5, None, error.NUM, b'abab',
              Shout('abab')]
    olds = ['', 'a', 'aa', 'abc', 'ana', ['a'], ('a',), 0, 5, None, error.NUM, b'ab', Shout('ab')]
    news = ['', 'X', 'aa', ['N'], ('N',), None, 3, error.REF]
    nums = [DEFAULT, 1, 2, 3, 4, 0, -1, 2.0, 1.5, '2', '2.0', 'x', True, False, None, float('inf'), float('nan'),
            1 + 0j, error.DIV_ZERO, [1], 10 ** 20]
    for text in stexts:
        for old in olds:
            call(T.SUBSTITUTE, text, old, rnd.choice(news), rnd.choice(nums))
            call(T.SUBSTITUTE, text, old, rnd.choice(news), rnd.choice(nums[1:5]))
            call(T.SUBSTITUTE, text, old, rnd.choice(news))
    for num in nums:
        call(T.SUBSTITUTE, 'abcabcabc', 'bc', '-', num)
        call(T.SUBSTITUTE, 'aaaa', 'aa', 'b', num)
        call(T.SUBSTITUTE, 'aaaa', 'aaaa', 'b', num)
        call(T.SUBSTITUTE, 'aaa', 'aaaa', 'b', num)
        call(T.SUBSTITUTE, ['a', 'b', 'a'], ['a'], ['N'], num)
        call(T.SUBSTITUTE, ('a', 'b', 'a'), ('a',), ('N',), num)
        call(T.SUBSTITUTE, b'abab', b'ab', b'-', num)
        call(T.SUBSTITUTE, '', 'a', 'b', num)
    for new in news:
        call(T.SUBSTITUTE, 'banana', 'an', new)
        call(T.SUBSTITUTE, 'banana', 'an', new, 2)
        call(T.SUBSTITUTE, 'banana', 'zz', new, 2)

    # ---- nothing may be left behind on the shared error values or in the registry
    ev(p, 'CONCATENATE("a",ERRV)&TEXTJOIN(",",TRUE,"b")')
    print('S tracebacks %r' % ([e.__traceback__ for e in (error.VALUE, error.NUM, error.REF)],))
    print('S supported %s' % ','.join(n for n in hotxlfp.formulas.supported()
                                      if hotxlfp.formulas.get_for(n).__module__ == T.__name__))
    print('S evaluations %d' % COUNT[0])


if __name__ == '__main__':
    main()
