# -*- coding: utf-8 -*-
"""
Probe for C06 refactoring 3 (flat conversion plans in evaluate_arithmetic).

Prints a deterministic transcript: one line per evaluation, input and repr() of the outcome.
"""
import os
import sys
import datetime
import random

sys.path.insert(0, os.path.dirname(os.path.dirname(os.path.abspath(__file__))))

import hotxlfp  # noqa: E402
from hotxlfp import Parser  # noqa: E402
from hotxlfp.formulas import error, operators  # noqa: E402

COUNT = [0]


def show(label, fn):
    COUNT[0] += 1
    try:
        out = fn()
        text = repr(out)
    except BaseException as e:  # noqa
        text = 'RAISED %s: %s' % (type(e).__name__, e)
    print('%04d %s -> %s' % (COUNT[0], label, text))


def outcome(value):
    # a list result may contain error instances: repr is stable (XLError('#VALUE!'))
    return value


# ---------------------------------------------------------------------------
# 1. evaluate_arithmetic called directly: full cross product of scalar kinds
# ---------------------------------------------------------------------------
D = datetime.datetime
SCALARS = [
    ('0', 0), ('1', 1), ('-3', -3), ('2.5', 2.5), ('-0.0', -0.0), ('1e308', 1e308),
    ('10**30', 10 ** 30), ('True', True), ('False', False), ('None', None),
    ("''", ''), ("'7'", '7'), ("'-2.25'", '-2.25'), ("' 4 '", ' 4 '), ("'1e3'", '1e3'),
    ("'abc'", 'abc'), ("'#VALUE!'", '#VALUE!'), ("'2020-02-29'", '2020-02-29'),
    ("'1899-12-25'", '1899-12-25'), ("'1900-01-01'", '1900-01-01'),
    ('D(2000,1,1)', D(2000, 1, 1)), ('D(1900,1,1)', D(1900, 1, 1)), ('D(1900,2,28)', D(1900, 2, 28)),
    ('D(1900,3,1)', D(1900, 3, 1)), ('D(1899,12,1)', D(1899, 12, 1)), ('D(2021,6,15,12,0)', D(2021, 6, 15, 12, 0)),
    ('VALUE', error.VALUE), ('DIV_ZERO', error.DIV_ZERO), ('NA', error.NOT_AVAILABLE),
    ('(1,2)', (1, 2)), ('{}', {}), ('1+2j', 1 + 2j), ("b'5'", b'5'), ('object', Ellipsis),
]
OPS = ['+', '-', '*', '/']

for op in OPS:
    for ln, lv in SCALARS:
        for rn, rv in SCALARS:
            show('arith(%r, %s, %s)' % (op, ln, rn),
                 lambda op=op, lv=lv, rv=rv: operators.evaluate_arithmetic(op, lv, rv))

# ---------------------------------------------------------------------------
# 2. arrays, directly
# ---------------------------------------------------------------------------
ARRAYS = [
    ('[]', []), ('[1]', [1]), ('[1,2,3]', [1, 2, 3]), ("[1,'2',None]", [1, '2', None]),
    ("['a',True,0]", ['a', True, 0]), ('[D,1,VALUE]', [D(2000, 1, 1), 1, error.VALUE]),
    ('[[1,2],[3,4]]', [[1, 2], [3, 4]]), ('[[5,6,7]]', [[5, 6, 7]]), ('[0,0]', [0, 0]),
    ("['2020-02-29',-1]", ['2020-02-29', -1]),
]
ARR_SCALARS = [('2', 2), ('0', 0), ('None', None), ("'3'", '3'), ("'x'", 'x'), ('True', True),
               ('D(2000,1,1)', D(2000, 1, 1)), ('NUM', error.NUM), ('2.5', 2.5)]
for op in OPS:
    for an, av in ARRAYS:
        for sn, sv in ARR_SCALARS:
            show('arith(%r, %s, %s)' % (op, an, sn),
                 lambda op=op, av=av, sv=sv: operators.evaluate_arithmetic(op, list(av), sv))
            show('arith(%r, %s, %s)' % (op, sn, an),
                 lambda op=op, av=av, sv=sv: operators.evaluate_arithmetic(op, sv, list(av)))
        for bn, bv in ARRAYS:
            show('arith(%r, %s, %s)' % (op, an, bn),
                 lambda op=op, av=av, bv=bv: operators.evaluate_arithmetic(op, list(av), list(bv)))

# ---------------------------------------------------------------------------
# 3. operators outside + - * /, unhashable / odd operator arguments
# ---------------------------------------------------------------------------
for op in ['>', '<', '=', '<>', '>=', '<=', '^', '&', '', None, 0, ('+',), ['+'], '++']:
    for ln, lv, rn, rv in [('1', 1, '2', 2), ("'a'", 'a', '2', 2), ('VALUE', error.VALUE, '2', 2),
                           ('[1,2]', [1, 2], '2', 2), ('2', 2, '[1,2]', [1, 2]), ('None', None, 'None', None),
                           ('D', D(2000, 1, 1), "'x'", 'x')]:
        show('arith(%r, %s, %s)' % (op, ln, rn),
             lambda op=op, lv=lv, rv=rv: operators.evaluate_arithmetic(op, lv, rv))

# ---------------------------------------------------------------------------
# 4. the tables the module exposes are unchanged
# ---------------------------------------------------------------------------
def describe_table():
    def name(t):
        return {operators.number_types: 'number', datetime.datetime: 'date', operators.NoneType: 'blank'}[t]
    rows = []
    for op in sorted(operators.IMPLICIT_DATA_TYPE_CONVERSIONS):
        for lt in operators.IMPLICIT_DATA_TYPE_CONVERSIONS[op]:
            for rt in operators.IMPLICIT_DATA_TYPE_CONVERSIONS[op][lt]:
                conv = operators.IMPLICIT_DATA_TYPE_CONVERSIONS[op][lt][rt]
                rows.append((op, name(lt), name(rt), sorted(conv),
                             [getattr(conv[k], '__name__', None) for k in sorted(conv)]))
    return sorted(rows)


for row in describe_table():
    show('table row', lambda row=row: row)

for vn, vv in SCALARS + ARRAYS[:3]:
    show('value_and_type(%s)' % vn, lambda vv=vv: tuple(
        x if not isinstance(x, (tuple, type)) else ('T', getattr(x, '__name__', None) or [t.__name__ for t in x])
        for x in operators.value_and_type(vv)))

# ---------------------------------------------------------------------------
# 5. through the parser, two parser instances, repeated evaluations, events
# ---------------------------------------------------------------------------
FORMULAS = [
    '1+2', '1-2', '3*4', '7/2', '1/0', '0/0', '-1/0', '1+TRUE', 'TRUE+TRUE', 'FALSE*5', 'TRUE/FALSE',
    '"3"+4', '"3"*"4"', '"3.5"-"0.5"', '"abc"+1', '1+"abc"', '"abc"*"def"', '""+1', '1-""',
    '1+NULL', 'NULL+1', 'NULL+NULL', 'NULL*NULL', 'NULL/NULL', 'NULL-NULL', '5/NULL', 'NULL/5',
    'DATE(2020,1,1)+1', '1+DATE(2020,1,1)', 'DATE(2020,1,1)-1', '1-DATE(2020,1,1)', 'DATE(2020,1,1)-DATE(2019,1,1)',
    'DATE(2020,1,1)+DATE(2019,1,1)', 'DATE(2020,1,1)*2', '2*DATE(2020,1,1)', 'DATE(2020,1,1)/2', '2/DATE(2020,1,1)',
    'DATE(2020,1,1)*DATE(2020,1,1)', 'DATE(2020,1,1)/DATE(2020,1,1)', 'DATE(2020,1,1)+NULL', 'NULL+DATE(2020,1,1)',
    'DATE(2020,1,1)-NULL', 'NULL-DATE(2020,1,1)', 'DATE(2020,1,1)*NULL', 'NULL*DATE(2020,1,1)',
    'DATE(2020,1,1)/NULL', 'NULL/DATE(2020,1,1)', 'DATE(1900,1,1)+0', 'DATE(1900,1,1)-1', 'DATE(1900,1,1)-2',
    'DATE(1900,1,5)-100', '1-DATE(1900,1,5)', 'DATE(1900,1,1)+59', 'DATE(1900,1,1)+60', 'DATE(1900,1,1)+61',
    '"2020-02-29"+1', '1+"2020-02-29"', '"2020-02-29"-"2020-02-28"', '"2020-02-29"*1', '"2020-02-29"/0',
    '"2020-02-29"+"abc"', '"2020-02-29"-100000', 'DATE(2020,1,1)+"1"', 'DATE(2020,1,1)+"x"',
    '#N/A+1', '1+#N/A', '#DIV/0!+#N/A', '#VALUE!*2', '2/#NUM!', '#REF!-#NULL!', '#NAME?+1',
    '{1,2,3}+1', '1+{1,2,3}', '{1,2,3}-1', '1-{1,2,3}', '{1,2,3}*2', '2*{1,2,3}', '{1,2,3}/2', '2/{1,2,3}', '2/{0,1,2}',
    '{1,2,3}+{10,20,30}', '{1,2,3}-{10,20,30}', '{1,2,3}*{10,20,30}', '{1,2,3}/{10,20,0}', '{1,2,3}+{1,2}',
    '{1,2}*{1,2,3}', '{1,2,3}/{1,2}', '{1,2,3}-{1}', '{1}+{1,2,3}', '{"a",2,TRUE}+1', '{"a",2,TRUE}*{1,"b",3}',
    '{1,2;3,4}+1', '{1,2;3,4}+{1,2;3,4}', '{1,2;3,4}*{1,2}', '{1,2;3,4}+{10;20}', '{1,2,3}+#N/A', '#N/A+{1,2,3}',
    '{1,2,3}+"x"', '{1,2,3}+NULL', 'NULL+{1,2,3}', '{1,2,3}+DATE(2020,1,1)', 'DATE(2020,1,1)-{1,2,3}',
    '1&2', '"a"&"b"', '"a"&1', '1&"a"', '1.5&2', 'TRUE&FALSE', 'NULL&"x"', '"x"&NULL', 'NULL&NULL', '1&NULL',
    '"a"&#N/A', '#N/A&"a"', '#DIV/0!&#N/A', '"a"&"b"&"c"', '1+2&3', '1&2+3', '"a"&{1,2}', '"0012"&7', '-1&-2',
    '10&20*2', '"a"&""', '""&""', '1+2*3', '(1+2)*3', '10/4/5', '10-4-3', '2*3/4', '-1+2', '-(1+2)', '1+-2',
    '1.5+2.25', '.5+.25', '50%+1', '2^3+1', '1e3+1', 'A1+1', 'A1*B2', 'A1&B2', 'A1/B2', 'A1:B2+1', 'A1+C3',
    'X+1', 'X*Y', 'X&Y', 'X/Y', 'Y-X', 'Z+1', 'UNKNOWN+1', 'T1+1', 'SUM({1,2,3}*2)', 'SUM(1,2)+SUM(3,4)',
    'SUM({1,2,3}+{1,2})', 'FOO(1)+1', 'BAR()+1', 'BAR()&"x"', 'ARR()+ARR()', 'ARR()*2', 'TXT()+1', 'DT()+1',
    'DT()-DT()', 'ERR()+1', 'BOOM()+1', 'TUP()+1', '1+TUP()', '99999999999*99999999999', '1/3', '2/3*3',
    '0.1+0.2', '1-0.9', '"1e400"+1', '"inf"+1', '"nan"+1', '"0x10"+1', '"1_000"+1', '" 5"+1', '"5 "*2',
]

random.seed(606)
EXTRA = []
ATOMS = ['1', '0', '2.5', 'TRUE', 'FALSE', 'NULL', '"3"', '"q"', '""', 'DATE(2001,2,3)', '"1999-12-31"', '{1,2}',
         '{4,5,6}', '#N/A', 'A1', 'X', '-7', '100', 'DATE(1900,1,1)']
for _ in range(160):
    a, b, c = (random.choice(ATOMS) for _ in range(3))
    o1, o2 = random.choice('+-*/&'), random.choice('+-*/&')
    EXTRA.append('%s%s%s' % (a, o1, b))
    EXTRA.append('%s%s%s%s%s' % (a, o1, b, o2, c))


def make_parser(log):
    p = Parser()
    p.set_variable('X', 4)
    p.set_variable('Y', '2')
    p.set_variable('Z', None)
    p.set_variable('T1', datetime.datetime(2010, 10, 10))
    p.set_function('FOO', lambda x: x * 10)
    p.set_function('BAR', lambda: None)
    p.set_function('ARR', lambda: [1, 2, 3])
    p.set_function('TXT', lambda: 'text')
    p.set_function('DT', lambda: datetime.datetime(2015, 5, 5))
    p.set_function('ERR', lambda: error.NUM)
    p.set_function('TUP', lambda: (1, 2))

    def boom():
        raise RuntimeError('boom')
    p.set_function('BOOM', boom)

    cells = {'A1': 6, 'B2': '3', 'C3': None}

    def on_cell(cell, done):
        log.append(('cell', cell.label))
        done(cells.get(cell.label))

    def on_range(start, end, done):
        log.append(('range', start.label, end.label))
        done([[6, 7], [8, '3']])

    def on_var(name, done):
        log.append(('var', name))

    def on_fn(name, args, done):
        log.append(('fn', name, repr(args)))

    p.on('callCellValue', on_cell)
    p.on('callRangeValue', on_range)
    p.on('callVariable', on_var)
    p.on('callFunction', on_fn)
    return p


log1, log2 = [], []
p1 = make_parser(log1)
p2 = make_parser(log2)
for rnd in range(2):
    for f in FORMULAS + EXTRA:
        for tag, p, log in (('p1', p1, log1), ('p2', p2, log2)):
            if rnd == 1 and tag == 'p2':
                continue
            del log[:]
            show('%s#%d parse(%r)' % (tag, rnd, f), lambda p=p, f=f, log=log: (p.parse(f), list(log)))

# error singletons must be left clean
show('error state', lambda: [(str(e), e.__traceback__ is None, e.__context__ is None, e.args)
                             for e in (error.ERROR, error.DIV_ZERO, error.NAME, error.NOT_AVAILABLE, error.NULL,
                                       error.NUM, error.REF, error.VALUE, error.DATA)])
show('public names', lambda: [n for n in ('ExcelArrayOps', 'ExcelComparator', 'IMPLICIT_DATA_TYPE_CONVERSIONS', 'NoneType',
                                           'evaluate_arithmetic', 'evaluate_logic', 'is_number', 'value_and_type')
                              if hasattr(operators, n)])
print('total evaluations: %d' % COUNT[0])
