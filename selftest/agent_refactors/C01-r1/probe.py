# -*- coding: utf-8 -*-
"""
Probe for C01 refactoring 1 (Parser.parse restructured; error table moved to module level).
Prints a deterministic transcript: one line per evaluation.
"""
import os
import sys

sys.path.insert(0, os.path.dirname(os.path.dirname(os.path.abspath(__file__))))

import hotxlfp  # noqa: E402
from hotxlfp.formulas import error as xlerror  # noqa: E402

COUNT = [0]
CODES = ['#ERROR!', '#DIV/0!', '#NAME?', '#N/A', '#NULL!', '#NUM!', '#REF!', '#VALUE!', '#GETTING_DATA']
ERRS = [xlerror.ERROR, xlerror.DIV_ZERO, xlerror.NAME, xlerror.NOT_AVAILABLE, xlerror.NULL,
        xlerror.NUM, xlerror.REF, xlerror.VALUE, xlerror.DATA]


def show(value):
    """ repr without memory addresses """
    if isinstance(value, dict):
        return '{' + ', '.join('%s: %s' % (show(k), show(v)) for k, v in value.items()) + '}'
    if isinstance(value, list):
        return '[' + ', '.join(show(v) for v in value) + ']'
    if isinstance(value, tuple):
        return '(' + ', '.join(show(v) for v in value) + ',)'
    if isinstance(value, BaseException):
        try:
            return '%s(%s)' % (type(value).__name__, ', '.join(repr(a) for a in value.args))
        except Exception:
            return '<%s>' % type(value).__name__
    if callable(value) and not isinstance(value, type):
        return '<callable %s>' % getattr(value, '__name__', type(value).__name__)
    r = repr(value)
    if ' at 0x' in r:
        return '<%s>' % type(value).__name__
    return r


def line(tag, inp, outcome):
    COUNT[0] += 1
    print('%04d %s | %s -> %s' % (COUNT[0], tag, inp, outcome))


def tracebacks_clean():
    return all(e.__traceback__ is None and e.__context__ is None for e in ERRS)


def run(parser, expression, tag='parse', label=None):
    inp = show(expression) if label is None else label
    try:
        record = parser.parse(expression)
        outcome = show(record)
        if isinstance(record, dict):
            outcome += ' keys=%s' % (list(record.keys()),)
            outcome += ' restype=%s' % type(record.get('result')).__name__
    except BaseException as e:  # noqa: B902 - the transcript records what escapes
        ctx = e.__context__
        outcome = 'RAISED %s ctx=%s' % (show(e), type(ctx).__name__)
    outcome += ' clean=%s' % tracebacks_clean()
    line(tag, inp, outcome)


# ----------------------------------------------------------------------------
# helper objects
# ----------------------------------------------------------------------------

class BadStr(Exception):
    def __str__(self):
        raise RuntimeError('no str for you')


class BadStrXL(xlerror.XLError):
    def __str__(self):
        raise KeyError('no str for xl')


class CodeStr(Exception):
    """ an ordinary exception whose text is a canonical code """
    def __init__(self, code):
        Exception.__init__(self)
        self.code = code

    def __str__(self):
        return self.code


class SubXL(xlerror.XLError):
    pass


class Escaping(BaseException):
    pass


class EqRaises(object):
    def __eq__(self, other):
        raise ValueError('eq raises')

    def __repr__(self):
        return 'EqRaises()'


class EqRaisesCode(object):
    def __eq__(self, other):
        raise ValueError('#NUM!')

    def __repr__(self):
        return 'EqRaisesCode()'


class EqTrue(object):
    def __eq__(self, other):
        return True

    def __repr__(self):
        return 'EqTrue()'


class EqBoolRaises(object):
    class _B(object):
        def __bool__(self):
            raise OverflowError('bool raises')
        __nonzero__ = __bool__

    def __eq__(self, other):
        return EqBoolRaises._B()

    def __repr__(self):
        return 'EqBoolRaises()'


class StrSub(str):
    pass


def raiser(exc):
    def f(*args):
        raise exc
    return f


def returner(value):
    def f(*args):
        return value
    return f


def make_parser(debug=False):
    p = hotxlfp.Parser(debug=debug)
    p.set_variable('x', 5).set_variable('y', 0).set_variable('name', 'Bob')
    p.set_variable('nothing', None).set_variable('flag', True).set_variable('arr', [1, 2, 3])
    p.set_variable('err_var', xlerror.NUM)
    p.set_variable('odd_err', xlerror.XLError('odd'))
    p.set_variable('sub_err', SubXL('#REF!'))
    p.set_variable('exc_var', ValueError('#DIV/0!'))
    for i, code in enumerate(CODES):
        p.set_function('RAISE_XL%d' % i, raiser(ERRS[i]))
        p.set_function('RET_XL%d' % i, returner(ERRS[i]))
        p.set_function('RAISE_MSG%d' % i, raiser(ValueError(code)))
        p.set_function('RAISE_CODESTR%d' % i, raiser(CodeStr(code)))
        p.set_function('RET_NEWXL%d' % i, returner(xlerror.XLError(code)))
        p.set_function('RET_CODE%d' % i, returner(code))
    p.set_function('RAISE_ODDXL', raiser(xlerror.XLError('weird')))
    p.set_function('RAISE_EMPTYXL', raiser(xlerror.XLError()))
    p.set_function('RAISE_TWOARGXL', raiser(xlerror.XLError('#NUM!', 2)))
    p.set_function('RAISE_SUBXL', raiser(SubXL('#NULL!')))
    p.set_function('RET_ODDXL', returner(xlerror.XLError('weird')))
    p.set_function('RET_SUBXL', returner(SubXL('#N/A')))
    p.set_function('RET_SUBXL_ODD', returner(SubXL('sub odd')))
    p.set_function('RET_EXC', returner(ValueError('#NUM!')))
    p.set_function('RET_BADSTR', returner(BadStr()))
    p.set_function('RET_BADSTRXL', returner(BadStrXL('#NUM!')))
    p.set_function('RAISE_BADSTR', raiser(BadStr()))
    p.set_function('RAISE_BADSTRXL', raiser(BadStrXL('#NUM!')))
    p.set_function('RAISE_ZERO', raiser(ZeroDivisionError('division by zero')))
    p.set_function('RAISE_KEY', raiser(KeyError('#N/A')))
    p.set_function('RAISE_KEY2', raiser(KeyError('k')))
    p.set_function('RAISE_OS', raiser(OSError(2, 'nope')))
    p.set_function('RAISE_STOP', raiser(StopIteration()))
    p.set_function('RAISE_ASSERT', raiser(AssertionError()))
    p.set_function('RAISE_SYNTAX', raiser(SyntaxError('#REF!')))
    p.set_function('RAISE_RECURSION', raiser(RecursionError('deep')))
    p.set_function('RAISE_MEMORY', raiser(MemoryError()))
    p.set_function('RAISE_ESCAPING', raiser(Escaping('out')))
    p.set_function('RAISE_SYSEXIT', raiser(SystemExit(3)))
    p.set_function('RAISE_GENEXIT', raiser(GeneratorExit()))
    p.set_function('RET_NONE', returner(None))
    p.set_function('RET_EMPTY', returner(''))
    p.set_function('RET_ZERO', returner(0))
    p.set_function('RET_FALSE', returner(False))
    p.set_function('RET_LIST', returner([1, 'a', None, xlerror.NUM]))
    p.set_function('RET_LIST_ERR', returner([xlerror.DIV_ZERO]))
    p.set_function('RET_DICT', returner({'result': 1, 'error': '#NUM!'}))
    p.set_function('RET_TUPLE', returner((1, 2)))
    p.set_function('RET_XLCLASS', returner(xlerror.XLError))
    p.set_function('RET_NAN', returner(float('nan')))
    p.set_function('RET_INF', returner(float('inf')))
    p.set_function('RET_BIG', returner(10 ** 40))
    p.set_function('RET_COMPLEX', returner(complex(1, 2)))
    p.set_function('RET_BYTES', returner(b'#NUM!'))
    p.set_function('ECHO', lambda *a: list(a))
    p.set_function('FIRST', lambda *a: a[0] if a else None)
    p.set_function('NONE_FN', None)
    return p


P = make_parser()

# ----------------------------------------------------------------------------
# 1. from_message directly
# ----------------------------------------------------------------------------
MESSAGES = list(CODES) + list(ERRS) + [
    '', ' ', '#error!', '#ERROR', '#DIV/0', '#div/0!', ' #NUM!', '#NUM! ', '#N/A\n', '#NA', 'N/A', '#',
    None, 0, 1, 1.5, True, False, [], ['#NUM!'], ('#NUM!',), {'#NUM!': 1}, b'#NUM!',
    ValueError('#NUM!'), ValueError(), ValueError('#NUM!', 1), KeyError('#NUM!'), KeyError(),
    ZeroDivisionError('division by zero'), CodeStr('#REF!'), CodeStr('#GETTING_DATA'), CodeStr('zzz'),
    xlerror.XLError('#NUM!'), xlerror.XLError('#num!'), xlerror.XLError(), xlerror.XLError('#NUM!', 1),
    SubXL('#VALUE!'), SubXL('nope'), StrSub('#NULL!'), StrSub('other'), xlerror.XLError, Exception,
    '#GETTING_DATA!', '#GETTING_DATA', '#VALUE', '#REF', '#NULL', '#NAME', '#NAME?!', u'é', '#N/A#N/A',
]
for m in MESSAGES:
    try:
        got = xlerror.from_message(m)
        outcome = '%s identity=%s' % (show(got), [i for i, e in enumerate(ERRS) if e is got])
    except BaseException as e:  # noqa: B902
        outcome = 'RAISED %s' % show(e)
    line('from_message', '%s:%s' % (type(m).__name__, show(m)), outcome)

for m in (BadStr(), BadStrXL('#NUM!')):
    try:
        outcome = show(xlerror.from_message(m))
    except BaseException as e:  # noqa: B902
        outcome = 'RAISED %s' % show(e)
    line('from_message', type(m).__name__, outcome)

# from_message is not affected by what it returned earlier and keeps no per-call state
for code in CODES:
    a = xlerror.from_message(code)
    b = xlerror.from_message(ValueError(code))
    line('from_message-twice', code, 'same=%s str=%r' % (a is b, str(a)))

# ----------------------------------------------------------------------------
# 2. clear_tracebacks directly
# ----------------------------------------------------------------------------
for i, err in enumerate(ERRS):
    try:
        try:
            raise KeyError('ctx')
        except KeyError:
            raise err
    except xlerror.XLError:
        pass
    before = (err.__traceback__ is not None, type(err.__context__).__name__)
    ret = xlerror.clear_tracebacks()
    after = (err.__traceback__ is not None, type(err.__context__).__name__)
    line('clear_tracebacks', CODES[i], 'ret=%r before=%r after=%r cause=%r suppress=%r all=%s'
         % (ret, before, after, err.__cause__, err.__suppress_context__, tracebacks_clean()))

# ----------------------------------------------------------------------------
# 3. parse: plain inputs
# ----------------------------------------------------------------------------
PLAIN = [
    '', ' ', '  ', '\t', '\n', '\r\n', ' \t\n ', '1', '0', '-1', '--1', '+1', '1+', '+', '-', '*', '/', '1 2',
    '1.5', '.5', '5.', '1.2.3', '1e5', '1E5', '007', '2^3', '2^-1', '2^3^2', '50%', '5%%', '1/0', '0/0', '1/3',
    '2*3+4', '2+3*4', '(2+3)*4', '((1))', '(', ')', '()', '(()', '1)', '"a"', "'a'", '"a', 'a"', '""', "''",
    '"a"&"b"', '"a"&1', '1&2', '"a"&', '&', '"a"+1', '"1"+1', '"a"="a"', '1=1', '1<>1', '1<2', '1>2', '1<=1',
    '1>=2', '1==1', '=1', '=', '"a"<1', 'TRUE', 'FALSE', 'NULL', 'true', 'TRUE+1', 'TRUE=1', 'NULL+1', 'NULL&"a"',
    'NULL=NULL', 'NULL=0', 'x', 'y', 'name', 'nothing', 'flag', 'arr', 'x/y', 'x+name', 'arr+1', 'arr*arr',
    'arr+{1,2}', '-arr', '-name', '-nothing', '-flag', 'unknown', 'unknown+1', 'un.known', 'x.y', 'x.', '.x',
    'err_var', 'err_var+1', '1+err_var', 'odd_err', 'sub_err', 'exc_var', 'exc_var&"a"', '-err_var', '-exc_var',
    '{1,2,3}', '{1;2;3}', '{1\\2}', '{1,2;3,4}', '{}', '{', '}', '{1,}', '{,1}', '{,,}', '{1,,2}', '{;;}',
    '{1,2}+{3,4}', '{1,2}+{1,2,3}', '{1,2}/{0,1}', '{1,2}&"a"', '{#NUM!}', '{1,#N/A}',
    'A1', '$A$1', 'A$1', '$A1', 'a1', 'A1:B2', 'B2:A1', 'A1:', ':A1', 'A1:B', 'A0', 'AAA999', 'A1+1', 'A1&"x"',
    'SUM(1,2)', 'SUM(1,2', 'SUM(', 'SUM)', 'SUM', 'SUM()', 'sum(1)', 'Sum(1)', 'SUM(1;2)', 'SUM(1\\2)', 'SUM(,)',
    'SUM(1,)', 'SUM(,1)', 'SUM(1,,2)', 'SUM({1,2,3})', 'SUM(A1:B2)', 'SUM("a")', 'SUM(1,"a")', 'SUM(#NUM!)',
    'NOSUCH()', 'NOSUCH(1)', 'NO.SUCH(1)', 'NONE_FN()', 'NONE_FN(1)', 'SQRT(-1)', 'SQRT(4)', 'LN(0)', 'LOG(-1)',
    'ACOS(2)', 'POWER(0,-1)', 'MOD(1,0)', 'IF(1,2,3)', 'IF(0,2,3)', 'IF(1/0,2,3)', 'IFERROR(1/0,"e")',
    'ISERROR(1/0)', 'ISERROR(#N/A)', 'ABS("a")', 'ABS()', 'ABS(1,2,3)', 'CONCATENATE("a",1)', 'LEN("abc")',
    'UPPER("a")', 'NOT(1)', 'AND(1,0)', 'OR()', 'MAX()', 'MIN("a")', 'AVERAGE()', 'COUNT()', 'ROUND(1.5)',
    'ROUND(1.5,0)', 'VLOOKUP(1,2,3)', 'INDEX({1,2},5)', 'MATCH(1,{1,2},0)', 'DATE(2020,1,1)', 'DATE(2020,13,45)',
    'DATEVALUE("x")', 'YEAR("2020-01-01")', '"2020-01-01"+1', '"2020-01-01"-"2019-01-01"', 'BIN2DEC("12")',
    'HEX2DEC("zz")', 'PMT(0,0,0)', 'FACT(-1)', 'FACT(171)', 'FACT(1000)', 'EXP(1000)', '10^400', '9^9^9',
    '99999999999999999999999999999999999999', '1/99999999999999999999999999999', '0.1+0.2',
    '#', '##', '#1', '#A', '#a', '#FOO', '#FOO!', '#FOO?', '#NUM', '#NUM?', '#NUM!!', '#N/A!', '#N/A?', '#DIV/0',
    '#DIV/0?', '#GETTING_DATA', '#GETTING', '#ERROR', '#ERROR?', '# NUM!', '#NUM!+1', '1+#NUM!', '-#NUM!',
    '(#NUM!)', '#NUM!#REF!', '#NUM! #REF!', '#NUM!&"a"', '"a"&#NUM!', '#NUM!=#NUM!', '#NUM!<>1', '"#NUM!"',
    '"#NUM!"&""', '!', '@', '~', '`', '?', '$', '$$', '[', ']', '|', '_', '__', '_a', 'a_', 'a b', u'é',
    u'1+é', u'"é"', u'☃', '\x00', '1\x00', '"\x00"', ';', ',', '\\', ':', '.', '..', '1..2', '%',
    '1%1', '<', '>', '<>', '<=', '>=', '1<', '<1', '1<>', '"', "'", '"\\""', "'\\''", '"a""b"', '1,2', '1;2',
]
for expr in PLAIN:
    run(P, expr)

for code in CODES:
    run(P, code, 'literal')
    run(P, ' %s ' % code, 'literal-ws')
    run(P, code.lower(), 'literal-lower')
    run(P, '1+%s' % code, 'literal-right')
    run(P, '%s*2' % code, 'literal-left')
    run(P, 'SUM(%s)' % code, 'literal-arg')
    run(P, 'ECHO(%s)' % code, 'literal-echo')
    run(P, '{%s}' % code, 'literal-array')
    run(P, 'IFERROR(%s,1)' % code, 'literal-iferror')

# ----------------------------------------------------------------------------
# 4. parse: custom functions that raise or return errors
# ----------------------------------------------------------------------------
for i in range(len(CODES)):
    for fname in ('RAISE_XL%d', 'RET_XL%d', 'RAISE_MSG%d', 'RAISE_CODESTR%d', 'RET_NEWXL%d', 'RET_CODE%d'):
        run(P, (fname % i) + '()', 'custom')
    run(P, 'RAISE_XL%d()+1' % i, 'custom-op')
    run(P, '1&RET_XL%d()' % i, 'custom-op')
    run(P, 'ECHO(RET_XL%d())' % i, 'custom-nested')
    run(P, 'ECHO(RAISE_MSG%d(),1)' % i, 'custom-nested')
    run(P, 'FIRST(RET_NEWXL%d())' % i, 'custom-nested')
    run(P, '-RET_NEWXL%d()' % i, 'custom-op')

OTHERS = [
    'RAISE_ODDXL()', 'RAISE_EMPTYXL()', 'RAISE_TWOARGXL()', 'RAISE_SUBXL()', 'RET_ODDXL()', 'RET_SUBXL()',
    'RET_SUBXL_ODD()', 'RET_EXC()', 'RET_EXC()&"a"', '-RET_EXC()', 'RET_EXC()+1', 'RET_BADSTR()',
    'RET_BADSTRXL()', 'RAISE_BADSTR()', 'RAISE_BADSTRXL()', 'FIRST(RAISE_BADSTRXL())', 'RAISE_BADSTRXL()+1',
    'RAISE_ZERO()', 'RAISE_KEY()', 'RAISE_KEY2()', 'RAISE_OS()', 'RAISE_STOP()', 'RAISE_ASSERT()',
    'RAISE_SYNTAX()', 'RAISE_RECURSION()', 'RAISE_MEMORY()', 'RAISE_ESCAPING()', 'RAISE_SYSEXIT()',
    'RAISE_GENEXIT()', 'RET_NONE()', 'RET_NONE()+1', 'RET_NONE()&"a"', '-RET_NONE()', 'RET_EMPTY()', 'RET_ZERO()',
    'RET_FALSE()', 'RET_LIST()', 'RET_LIST()+1', 'RET_LIST_ERR()', 'SUM(RET_LIST())', 'RET_DICT()', 'RET_DICT()+1',
    '-RET_DICT()', 'RET_TUPLE()', 'RET_TUPLE()+1', 'RET_XLCLASS()', 'RET_NAN()', 'RET_INF()', 'RET_INF()-RET_INF()',
    'RET_BIG()', 'RET_BIG()*RET_BIG()', 'RET_BIG()/3', 'RET_COMPLEX()', 'RET_COMPLEX()+1', 'RET_COMPLEX()<1',
    'RET_BYTES()', 'RET_BYTES()&"a"', 'RET_BYTES()+1', 'ECHO()', 'ECHO(1)', 'ECHO(1,,2)', 'ECHO(,)',
    'ECHO({1,2},"a",TRUE,NULL)', 'ECHO(A1)', 'ECHO(A1:B2)', 'FIRST()', 'FIRST(1/0)', 'FIRST(unknown)',
    'FIRST(NOSUCH())', 'FIRST(1,NOSUCH())', 'ECHO(RAISE_ZERO(),RAISE_KEY(),RAISE_ODDXL())',
    'ECHO(RAISE_ZERO())&"a"', 'RAISE_ZERO()&"a"', 'RAISE_ZERO()=RAISE_ZERO()', 'IFERROR(RAISE_ZERO(),7)',
    'ISERROR(RAISE_ODDXL())', 'ISERROR(RET_ODDXL())', 'IF(RAISE_ZERO(),1,2)',
    # an escaping failure after a shared error value was raised: the tracebacks are left behind ...
    'ECHO(RAISE_XL3(),RAISE_BADSTR())', '1', 'FIRST(RAISE_XL5())+RET_BADSTRXL()', 'RET_XL1()',
    'ECHO(RAISE_XL2(),RAISE_ESCAPING())', 'RAISE_XL2()', 'ECHO(unknown_a,RAISE_BADSTR())', '',
]
for expr in OTHERS:
    run(P, expr, 'custom2')

# ----------------------------------------------------------------------------
# 5. parse: listeners that raise / rewrite values
# ----------------------------------------------------------------------------
LISTENER_EXCS = [ValueError('boom'), ValueError('#REF!'), CodeStr('#NULL!'), xlerror.NUM, xlerror.XLError('odd'),
                 SubXL('#N/A'), KeyError('#VALUE!'), ZeroDivisionError('z'), BadStr(), BadStrXL('x'), Escaping('esc')]
EVENT_EXPRS = {'callFunction': ['SUM(1,2)', 'NOSUCH()', 'ECHO(SUM(1))'],
               'callVariable': ['x', 'unknown', 'TRUE', 'x+1'],
               'callCellValue': ['A1', '$B$2+1', 'SUM(A1)'],
               'callRangeValue': ['A1:B2', 'SUM(B2:A1)']}
for event in ('callFunction', 'callVariable', 'callCellValue', 'callRangeValue'):
    for exc in LISTENER_EXCS:
        p = make_parser()
        p.on(event, raiser(exc))
        for expr in EVENT_EXPRS[event]:
            run(p, expr, 'listener-raises', '%s/%s/%r' % (event, show(exc), expr))

SET_VALUES = [None, 0, '', False, 7, 'txt', [1, 2], xlerror.NUM, xlerror.XLError('odd'), SubXL('#REF!'),
              ValueError('#NUM!'), BadStrXL('x'), '#NUM!', {'result': 1}]
for event in ('callFunction', 'callVariable', 'callCellValue', 'callRangeValue'):
    for v in SET_VALUES:
        p = make_parser()
        p.on(event, (lambda vv: (lambda *a: a[-1](vv)))(v))
        for expr in EVENT_EXPRS[event]:
            run(p, expr, 'listener-sets', '%s/%s/%r' % (event, show(v), expr))

# ----------------------------------------------------------------------------
# 6. parse: unusual expression objects
# ----------------------------------------------------------------------------
ODD_INPUTS = [None, 0, 1, 1.5, True, False, b'', b'1+1', bytearray(b'1'), [], ['1'], (), ('1',), {}, {'a': 1},
              set(), object, EqRaises(), EqRaisesCode(), EqTrue(), EqBoolRaises(), StrSub(''), StrSub('1+1'),
              StrSub('#NUM!'), ValueError('x'), xlerror.NUM, float('nan'), 10 ** 30, range(3)]
for obj in ODD_INPUTS:
    run(P, obj, 'odd-input', '%s:%s' % (type(obj).__name__, show(obj)))

# ----------------------------------------------------------------------------
# 7. debug flag does not change the record; state does not leak between calls/parsers
# ----------------------------------------------------------------------------
_real_stderr = sys.stderr


class _Sink(object):
    def __init__(self):
        self.chunks = 0

    def write(self, s):
        self.chunks += 1

    def flush(self):
        pass


DP = make_parser(debug=True)
for expr in ['1+1', '1/0', 'RAISE_ZERO()', 'RAISE_XL3()', 'unknown', '((', 'NOSUCH()', '#REF!', '', '@',
             'RAISE_BADSTR()', 'RET_BADSTRXL()', 'RAISE_ESCAPING()']:
    sink = _Sink()
    sys.stderr = sink
    try:
        try:
            record = DP.parse(expr)
            outcome = show(record)
        except BaseException as e:  # noqa: B902
            outcome = 'RAISED %s ctx=%s' % (show(e), type(e.__context__).__name__)
    finally:
        sys.stderr = _real_stderr
    line('debug', repr(expr), '%s printed=%s clean=%s' % (outcome, sink.chunks > 0, tracebacks_clean()))

Q = make_parser()
SEQ = ['1/0', '1+1', 'unknown', 'x', '((', '2', 'RAISE_BADSTR()', '3', 'RAISE_ESCAPING()', '4', '#N/A', '5', '', '6']
for expr in SEQ:
    run(Q, expr, 'sequence')
for expr in SEQ:
    run(P, expr, 'sequence-other-parser')
r1 = Q.parse('1/0')
r2 = Q.parse('1/0')
line('fresh-records', "'1/0' twice", 'distinct=%s equal=%s' % (r1 is not r2, r1 == r2))
r1['error'] = 'tampered'
line('fresh-records', "'1/0' after tampering", show(Q.parse('1/0')))
r3 = Q.parse('1+1')
r3['result'] = 'tampered'
line('fresh-records', "'1+1' after tampering", show(Q.parse('1+1')))
line('module-constants', 'codes', show([str(e) for e in ERRS]))

sys.stdout.write('TOTAL %d\n' % COUNT[0])
