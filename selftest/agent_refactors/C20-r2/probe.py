# -*- coding: utf-8 -*-
"""Probe for C20 refactoring 2 (Emitter.on / once / emit restructured).

Prints a deterministic transcript: one line per evaluation with the operation,
repr() of its outcome, the listener calls seen and the emitter's listener table
(each context is numbered by identity, so sharing of context objects shows).
Emphasis: the context default (omitted / None / empty / falsy-but-not-None /
not a mapping / shared and mutated later), the one-time wrapper (first call
only, fired flag, direct calls, raising callbacks, re-entrant emits, snapshot
of an emit in progress), argument passing in emit, self-dispatch through a
subclass - plus random operation sequences and the Parser events.
"""
from __future__ import print_function
import os
import sys
import types
import random

sys.path.insert(0, os.path.dirname(os.path.dirname(os.path.abspath(__file__))))

import hotxlfp  # noqa: E402
from hotxlfp.tinyemitter import Emitter  # noqa: E402

COUNT = [0]


def show_exc(e):
    return '%s(%s)' % (type(e).__name__, str(e))


class World(object):
    """An emitter plus the bookkeeping needed to print it without addresses."""

    def __init__(self, cls=Emitter):
        self.em = cls()
        self.events = []
        self.labels = {}
        self.keep = []
        self.depth = 0

    # -- labelling -------------------------------------------------------
    def label(self, obj, label):
        self.labels[id(obj)] = label
        self.keep.append(obj)
        return obj

    def name_of(self, fn):
        if id(fn) in self.labels:
            return self.labels[id(fn)]
        if isinstance(fn, types.FunctionType) and fn.__name__ == 'onetime_listener':
            d = fn.__dict__
            return 'once<%s fired=%r keys=%s>' % (self.name_of(d.get('_')), d.get('fired'), list(d))
        if isinstance(fn, types.MethodType):
            return 'method<%s.%s>' % (self.name_of(fn.__self__), fn.__func__.__name__)
        if fn is None or isinstance(fn, (int, float, str, tuple, list, dict, bool)):
            return 'value<%r>' % (fn,)
        return 'unlabelled<%s>' % type(fn).__name__

    def ctx_of(self, ctx):
        if id(ctx) in self.labels:
            return self.labels[id(ctx)]
        return repr(ctx)

    def state(self):
        table = self.em._e
        parts = []
        seen = []

        def number(ctx):
            for i, other in enumerate(seen):
                if other is ctx:
                    return i
            seen.append(ctx)
            return len(seen) - 1

        for key in sorted(table, key=repr):
            entries = table[key]
            parts.append('%r:%s[%s]' % (
                key, type(entries).__name__,
                ', '.join('%s:%s/%s#%d' % (type(l).__name__, self.name_of(l.fn), self.ctx_of(l.ctx), number(l.ctx))
                          for l in entries)))
        return '%s{%s}' % (type(table).__name__, '; '.join(parts))

    # -- callbacks -------------------------------------------------------
    def fn(self, label, action=None):
        def cb(*args, **kwargs):
            self.events.append('%s%r%s' % (label, args, sorted(kwargs.items()) if kwargs else ''))
            if action is not None:
                return action(*args, **kwargs)
        return self.label(cb, label)

    # -- one evaluation --------------------------------------------------
    def step(self, desc, thunk):
        del self.events[:]
        try:
            res = thunk()
            outcome = 'self' if res is self.em else repr(res)
        except Exception as e:  # noqa
            outcome = 'raised ' + show_exc(e)
        COUNT[0] += 1
        print('%04d %s -> %s | events=[%s] | %s' % (COUNT[0], desc, outcome, ', '.join(self.events), self.state()))

    def on(self, name, fn, *ctx):
        self.step('on(%r, %s%s)' % (name, self.name_of(fn), ''.join(', ' + self.ctx_of(c) for c in ctx)),
                  lambda: self.em.on(name, fn, *ctx))

    def once(self, name, fn, *ctx):
        self.step('once(%r, %s%s)' % (name, self.name_of(fn), ''.join(', ' + self.ctx_of(c) for c in ctx)),
                  lambda: self.em.once(name, fn, *ctx))

    def off(self, name, *fn):
        self.step('off(%r%s)' % (name, ''.join(', ' + self.name_of(f) for f in fn)),
                  lambda: self.em.off(name, *fn))

    def emit(self, name, *args):
        self.step('emit(%r%s)' % (name, ''.join(', %r' % (a,) for a in args)),
                  lambda: self.em.emit(name, *args))


def section(title):
    print('== ' + title)


# ---------------------------------------------------------------------------
# exotic callbacks
# ---------------------------------------------------------------------------
class Holder(object):
    """Bound methods of one object are equal but never identical."""

    def __init__(self, world, label):
        self.world = world
        self.tag = label

    def m(self, *args, **kwargs):
        self.world.events.append('%s.m%r%s' % (self.tag, args, sorted(kwargs.items()) if kwargs else ''))

    def n(self, *args, **kwargs):
        self.world.events.append('%s.n%r%s' % (self.tag, args, sorted(kwargs.items()) if kwargs else ''))


class Callable(object):
    def __init__(self, world, label):
        self.world = world
        self.tag = label

    def __call__(self, *args, **kwargs):
        self.world.events.append('%s%r%s' % (self.tag, args, sorted(kwargs.items()) if kwargs else ''))


class FalsyCallable(Callable):
    def __bool__(self):
        self.world.events.append('bool(%s)' % self.tag)
        return False
    __nonzero__ = __bool__


class EmptyLenCallable(Callable):
    def __len__(self):
        self.world.events.append('len(%s)' % self.tag)
        return 0


class AlwaysEqual(Callable):
    def __eq__(self, other):
        self.world.events.append('%s==%s' % (self.tag, self.world.name_of(other)))
        return True

    def __ne__(self, other):
        self.world.events.append('%s!=%s' % (self.tag, self.world.name_of(other)))
        return False
    __hash__ = object.__hash__


class NeverEqual(Callable):
    def __eq__(self, other):
        self.world.events.append('%s==%s' % (self.tag, self.world.name_of(other)))
        return False

    def __ne__(self, other):
        self.world.events.append('%s!=%s' % (self.tag, self.world.name_of(other)))
        return True
    __hash__ = object.__hash__


class RaisingNe(Callable):
    def __ne__(self, other):
        self.world.events.append('%s!=%s raises' % (self.tag, self.world.name_of(other)))
        raise ValueError('no comparison for ' + self.tag)
    __hash__ = object.__hash__


class Verdict(object):
    """A comparison result that records each truth test."""

    def __init__(self, world, label, value):
        self.world = world
        self.tag = label
        self.value = value

    def __bool__(self):
        self.world.events.append('bool(%s)' % self.tag)
        return self.value
    __nonzero__ = __bool__


class VerdictNe(Callable):
    def __init__(self, world, label, value):
        Callable.__init__(self, world, label)
        self.value = value

    def __ne__(self, other):
        self.world.events.append('%s!=%s' % (self.tag, self.world.name_of(other)))
        return Verdict(self.world, 'verdict:' + self.tag, self.value)
    __hash__ = object.__hash__


class Spy(Callable):
    """Records every lookup of a missing attribute (hasattr / getattr of '_')."""

    def __init__(self, world, label, under=None, has_under=False):
        Callable.__init__(self, world, label)
        self.under = under
        self.has_under = has_under

    def __getattr__(self, attr):
        self.__dict__['world'].events.append('%s.getattr(%s)' % (self.__dict__['tag'], attr))
        if attr == '_' and self.__dict__['has_under']:
            return self.__dict__['under']
        raise AttributeError(attr)


class LoggingEmitter(Emitter):
    """Shows which public methods the emitter calls on itself, with what."""
    world = None

    def on(self, name, callback, ctx=None):
        w = self.world
        if w is not None:
            w.events.append('ON(%r, %s, %s)' % (name, w.name_of(callback), w.ctx_of(ctx)))
        return super(LoggingEmitter, self).on(name, callback, ctx)

    def off(self, name, callback=None):
        w = self.world
        if w is not None:
            w.events.append('OFF(%r, %s)' % (name, w.name_of(callback)))
        return super(LoggingEmitter, self).off(name, callback)


def logging_world():
    w = World(LoggingEmitter)
    w.em.world = w
    return w


# ---------------------------------------------------------------------------
# 1. contexts, one-time wrappers, argument passing
# ---------------------------------------------------------------------------
class LoggedMapping(object):
    """A minimal mapping (keys + __getitem__) that records how it is read."""

    def __init__(self, world, label, data):
        self.world = world
        self.tag = label
        self.data = data

    def keys(self):
        self.world.events.append('%s.keys()' % self.tag)
        return list(self.data)

    def __getitem__(self, key):
        self.world.events.append('%s[%r]' % (self.tag, key))
        return self.data[key]


def scenario_contexts():
    section('contexts')
    for how in ('on', 'once'):
        w = World()
        f, g = w.fn('f'), w.fn('g')
        sub = getattr(w, how)
        sub('a', f)
        sub('a', g)
        sub('a', f, None)
        sub('a', f, {})
        sub('a', g, {'k': 1})
        shared = w.label({'s': 0}, 'SHARED')
        sub('a', f, shared)
        sub('b', g, shared)
        sub('a', g, shared)
        shared['s'] = 1
        shared['t'] = 'later'
        w.emit('a', 'x')
        w.emit('a', 'y')
        w.emit('b')
        w.emit('b')
        w.off('a')
        w.off('b')
        # a context the callback tries to change
        def grab(*a, **k):
            k['added'] = True
        m = w.fn('m', grab)
        own = w.label({'own': 1}, 'OWN')
        sub('a', m, own)
        sub('a', f, own)
        w.emit('a')
        w.off('a')
        # the default context is a fresh dict per subscription, changed afterwards
        sub('a', f)
        sub('a', g)
        w.em._e['a'][0].ctx['late'] = 1
        w.emit('a', 1)
        w.off('a')
        # falsy but not None, and things that are no mapping at all
        for ctx in (0, '', [], (), False, 0.0, 1, 'kw', [('k', 1)], {1: 2}, {'k': 1, 2: 3}, set()):
            sub('a', f, ctx)
            w.emit('a', 1)
            w.emit('a', 2)
            w.off('a')
        lm = w.label(LoggedMapping(w, 'LM', {'p': 1, 'q': 2}), 'LM')
        sub('a', f, lm)
        sub('a', g, lm)
        w.emit('a', 1)
        w.emit('a', 2)
        w.off('a')
        # a context that collides with the callback's own parameters
        def strict(x, y=0):
            w.events.append('strict-body(%r, %r)' % (x, y))
        st = w.fn('st', strict)
        sub('a', st, {'y': 5})
        w.emit('a', 1)
        w.off('a')
        sub('a', st, {'x': 5})
        w.emit('a', 1)
        w.emit('a')
        w.off('a')
        sub('a', st, {'z': 5})
        w.emit('a', 1)
        w.off('a')
        sub('a', st)
        w.emit('a')
        w.emit('a', 1, 2)
        w.emit('a', 1, 2, 3)
        w.off('a')


def scenario_wrapper():
    section('the one-time wrapper itself')
    w = World()
    f = w.fn('f', lambda *a, **k: 'value of f')
    g = w.fn('g')
    w.once('a', f, {'k': 1})
    w.on('a', g)
    wrapper = w.em._e['a'][0].fn
    w.step('wrapper attrs', lambda: (wrapper.__name__, list(wrapper.__dict__), wrapper.fired, wrapper._ is f))
    w.step('wrapper(1, z=2) directly', lambda: wrapper(1, z=2))
    w.step('wrapper attrs', lambda: (wrapper.fired, wrapper._ is f))
    w.step('wrapper(3) again', lambda: wrapper(3))
    w.emit('a', 4)
    w.once('a', f)
    w.once('b', f)
    w.emit('a', 5)
    w.emit('b', 6)
    w.emit('a', 7)
    w.emit('b', 8)
    # the wrapper removes itself from the name it was subscribed under only
    w.once('a', f)
    wrapper = w.em._e['a'][-1].fn
    w.on('b', wrapper)
    w.emit('b', 9)
    w.emit('a', 10)
    w.emit('b', 11)
    w.off('b')
    w.off('a')
    # resetting the flag by hand re-arms nothing that is not subscribed
    w.once('a', f)
    wrapper = w.em._e['a'][0].fn
    w.emit('a', 12)
    wrapper.fired = False
    w.emit('a', 13)
    w.step('wrapper(14) re-armed', lambda: wrapper(14))
    w.step('wrapper(15)', lambda: wrapper(15))
    # a raising callback: already unsubscribed and marked as fired
    def boom(*a, **k):
        raise KeyError('boom')
    b = w.fn('b', boom)
    w.once('a', b)
    w.on('a', g)
    w.emit('a', 16)
    w.emit('a', 17)
    w.off('a')
    # a callback that is not callable
    w.once('a', 5)
    w.on('a', g)
    w.emit('a', 18)
    w.emit('a', 19)
    w.off('a')
    # the unsubscription inside the wrapper fails: the callback is not reached
    rn = w.label(RaisingNe(w, 'RN'), 'RN')
    w.on('a', rn)
    w.once('a', f)
    w.emit('a', 20)
    w.emit('a', 21)
    w.off('a')
    # once-listeners subscribing once-listeners
    def resub(*a, **k):
        w.em.once('a', rs[0], {'n': len(a)})
    rs = [None]
    rs[0] = w.fn('rs', resub)
    w.once('a', rs[0])
    w.emit('a')
    w.emit('a', 1)
    w.emit('a', 1, 2)
    w.off('a', rs[0])
    w.emit('a')


def scenario_emit_args():
    section('argument passing')
    w = World()
    def push(*a, **k):
        if a and isinstance(a[0], list):
            a[0].append(len(a[0]))
    f = w.fn('f', push)
    g = w.fn('g', push)
    w.emit('a')
    w.emit('a', 1)
    w.on('a', f)
    w.on('a', g, {'k': 1})
    w.once('a', f, {'j': 2})
    for args in ((), (1,), (1, 2), (None,), ([],), ([], []), ('s', 2.5, True, None, (1, 2)), ({'d': 1},)):
        w.emit('a', *args)
    box = []
    w.emit('a', box)
    w.emit('a', box)
    w.step('box', lambda: box)
    w.step('chain', lambda: w.em.on('c', f).once('c', g).emit('c', 1).off('c', f).emit('c', 2).off('c') is w.em)
    w.step('emit with name keyword', lambda: w.em.emit(name='a'))
    w.step('on with keywords', lambda: w.em.on(callback=f, name='k', ctx={'x': 1}))
    w.step('once with keywords', lambda: w.em.once(ctx={'x': 2}, callback=g, name='k'))
    w.emit('k', 1)
    w.emit('k', 2)
    w.step('on without callback', lambda: w.em.on('k'))
    w.step('once without callback', lambda: w.em.once('k'))
    w.step('emit without name', lambda: w.em.emit())
    w.step('on with too many', lambda: w.em.on('k', f, {}, 1))
    w.step('once with too many', lambda: w.em.once('k', f, {}, 1))
    w.emit('k', 3)
    # names do not leak into each other
    w.on('x', f)
    w.on('xx', g)
    w.once('X', g)
    w.emit('x', 1)
    w.emit('xx', 2)
    w.emit('X', 3)
    w.emit('X', 4)
    w.emit('', 5)


def scenario_off_once():
    section('off: once-listeners')
    w = World()
    f, g, h = w.fn('f'), w.fn('g'), w.fn('h')
    w.once('a', f)
    w.off('a', f)
    w.emit('a', 1)
    w.once('a', f)
    w.off('a', g)
    w.emit('a', 2)
    w.emit('a', 3)
    w.once('a', f)
    w.on('a', g)
    w.once('a', h)
    w.on('a', f)
    w.once('a', g)
    w.off('a', f)
    w.emit('a', 4)
    w.emit('a', 5)
    w.once('a', f)
    w.once('a', f)
    w.on('a', f)
    w.emit('a', 6)
    w.emit('a', 7)
    w.once('a', f)
    w.once('a', f)
    w.off('a', f)
    w.emit('a', 8)
    w.off('a')
    # removing a once-wrapper by the wrapper itself
    w.once('a', f)
    w.once('a', g)
    wrapper = w.em._e['a'][0].fn
    w.off('a', wrapper)
    w.emit('a', 9)
    # a once-listener of a once-wrapper
    w.once('a', f)
    inner = w.em._e['a'][0].fn
    w.once('a', inner)
    w.off('a', f)
    w.off('a', inner)
    w.once('a', f)
    inner = w.em._e['a'][0].fn
    w.once('a', inner)
    w.emit('a', 10)
    w.emit('a', 11)
    # once with a context
    ctx = {'k': 1}
    w.once('a', f, ctx)
    w.on('a', g, ctx)
    w.once('a', h, {'k': 2})
    w.off('a', f)
    w.emit('a', 12)
    w.emit('a', 13)
    w.off('a')
    w.off('a')



def scenario_off_during_emit():
    section('off / on while an emit is in progress')
    w = World()
    g, h = w.fn('g'), w.fn('h')
    late = w.fn('late')
    f = w.fn('f', lambda *a, **k: w.em.off('a', g))
    w.on('a', f)
    w.on('a', g)
    w.on('a', h)
    w.emit('a', 1)
    w.emit('a', 2)
    w.off('a')
    k = w.fn('k', lambda *a, **kw: w.em.off('a'))
    w.on('a', k)
    w.on('a', g)
    w.once('a', h)
    w.emit('a', 3)
    w.emit('a', 4)
    s = w.fn('s', lambda *a, **kw: w.em.on('a', late))
    w.on('a', s)
    w.on('a', g)
    w.emit('a', 5)
    w.emit('a', 6)
    w.off('a', late)
    w.emit('a', 7)
    w.off('a', s)
    w.off('a')
    selfoff = []
    so = w.fn('selfoff', lambda *a, **kw: w.em.off('a', selfoff[0]))
    selfoff.append(so)
    w.on('a', g)
    w.on('a', so)
    w.on('a', h)
    w.emit('a', 8)
    w.emit('a', 9)
    w.off('a')
    # an off of the other name during an emit
    x = w.fn('x', lambda *a, **kw: w.em.off('b'))
    w.on('a', x)
    w.on('b', g)
    w.on('a', h)
    w.emit('a', 10)
    w.emit('b', 11)
    w.off('a')
    # a once-listener fired by a nested emit is skipped by the outer one
    def nest(*a, **kw):
        if w.depth < 1:
            w.depth += 1
            try:
                w.em.emit('a', 'nested')
            finally:
                w.depth -= 1
    n = w.fn('n', nest)
    w.on('a', n)
    w.once('a', g)
    w.on('a', h)
    w.emit('a', 12)
    w.emit('a', 13)
    w.off('a')
    # a once-listener whose callback emits the same name again
    def again(*a, **kw):
        if w.depth < 2:
            w.depth += 1
            try:
                w.em.emit('a', 'again')
            finally:
                w.depth -= 1
    r = w.fn('r', again)
    w.once('a', r)
    w.on('a', h)
    w.emit('a', 14)
    w.emit('a', 15)
    w.off('a')
    # a listener that raises: the rest of the snapshot is not called
    def boom(*a, **kw):
        raise RuntimeError('boom')
    b = w.fn('b', boom)
    w.on('a', g)
    w.once('a', b)
    w.on('a', h)
    w.emit('a', 16)
    w.emit('a', 17)
    w.on('a', b)
    w.emit('a', 18)
    w.off('a', b)
    w.emit('a', 19)


def scenario_dispatch():
    section('self-dispatch seen through a subclass')
    w = logging_world()
    f, g = w.fn('f'), w.fn('g')
    ctx = w.label({'k': 1}, 'CTX')
    w.on('a', f)
    w.on('a', f, None)
    w.on('a', g, ctx)
    w.once('a', f)
    w.once('a', g, ctx)
    w.once('a', g, None)
    w.emit('a', 1)
    w.emit('a', 2)
    w.off('a', f)
    w.off('a', None)
    w.off('a')
    w.once('b', f, {})
    w.off('b', f)
    w.once('b', f)
    w.emit('b')
    w.emit('b')


def scenario_names():
    section('odd event names')
    w = World()
    f, g = w.fn('f'), w.fn('g')
    for name in (None, 0, 1, 1.0, True, '', 'A', 'a', ('a',), frozenset([1])):
        w.on(name, f)
    w.emit(1, 'one')
    w.emit(0, 'zero')
    w.emit(False, 'false')
    w.off(True, f)
    w.off(0.0)
    w.off(None, g)
    w.off(None, f)
    w.emit(None)
    w.off('A', f)
    w.emit('a', 1)
    w.emit('A', 1)
    for name in ([], {}, set()):
        w.on(name, f)
        w.once(name, f)
        w.emit(name)
        w.off(name)
        w.off(name, f)


# ---------------------------------------------------------------------------
# 2. random operation sequences
# ---------------------------------------------------------------------------
def scenario_random(seed, rounds, steps):
    section('random sequences, seed %d' % seed)
    rng = random.Random(seed)
    names = ['a', 'b', ('t', 1)]
    for rnd in range(rounds):
        section('sequence %d' % rnd)
        w = World()
        o = w.label(Holder(w, 'o'), 'o')
        plain = [w.fn('f%d' % i) for i in range(3)]

        def act_off_f0(*a, **k):
            w.em.off('a', plain[0])

        def act_on_f1(*a, **k):
            w.em.on('b', plain[1])

        def act_once_f2(*a, **k):
            w.em.once('a', plain[2])

        def act_emit_b(*a, **k):
            if w.depth < 2:
                w.depth += 1
                try:
                    w.em.emit('b', 'inner')
                finally:
                    w.depth -= 1

        def act_off_all(*a, **k):
            w.em.off('a')

        active = [w.fn('offF0', act_off_f0), w.fn('onF1', act_on_f1), w.fn('onceF2', act_once_f2),
                  w.fn('emitB', act_emit_b), w.fn('offAll', act_off_all)]
        contexts = [None, {}, {'k': 1}, {'k': 2, 'j': 'x'}]
        for _ in range(steps):
            pool = plain + active + [o.m, o.n]
            op = rng.choice(['on', 'on', 'once', 'once', 'offcb', 'offcb', 'offname', 'emit', 'emit', 'emit'])
            name = rng.choice(names)
            if op == 'on':
                ctx = rng.choice(contexts)
                if ctx is None and rng.random() < 0.5:
                    w.on(name, rng.choice(pool))
                else:
                    w.on(name, rng.choice(pool), ctx)
            elif op == 'once':
                ctx = rng.choice(contexts)
                if ctx is None and rng.random() < 0.5:
                    w.once(name, rng.choice(pool))
                else:
                    w.once(name, rng.choice(pool), ctx)
            elif op == 'offcb':
                w.off(name, rng.choice(pool + [None]))
            elif op == 'offname':
                w.off(name)
            else:
                w.emit(name, *range(rng.randrange(3)))


# ---------------------------------------------------------------------------
# 3. the events of the formula parser
# ---------------------------------------------------------------------------
def scenario_parser():
    section('Parser events')
    events = []

    def cell_text(c):
        return '%s@%s,%s' % (c.label, c.row.index, c.col.index)

    def on_cell(cell, setter):
        events.append('cell(%s)' % cell_text(cell))
        setter(cell.row.index * 10 + cell.col.index + 1)

    def on_cell_hundred(cell, setter):
        events.append('cell100(%s)' % cell_text(cell))
        setter(100)

    def on_range(start, end, setter):
        events.append('range(%s..%s)' % (cell_text(start), cell_text(end)))
        setter([[r * 10 + c + 1 for c in range(start.col.index, end.col.index + 1)]
                for r in range(start.row.index, end.row.index + 1)])

    def on_var(name, setter):
        events.append('var(%s)' % name)
        if name == 'foo':
            setter(42)

    def on_func(name, args, setter):
        events.append('func(%s, %r)' % (name, args))
        if name == 'TWICE':
            setter(args[0] * 2)

    def on_func_ctx(name, args, setter, **ctx):
        events.append('funcctx(%s, %r)' % (name, sorted(ctx.items())))

    def run(p, formula):
        del events[:]
        try:
            res = repr(p.parse(formula))
        except Exception as e:  # noqa
            res = 'raised ' + show_exc(e)
        COUNT[0] += 1
        print('%04d parse(%r) -> %s | events=[%s] | names=%s' % (
            COUNT[0], formula, res, ', '.join(events),
            sorted((k, len(v)) for k, v in p._e.items())))

    formulas = ['', '1+2', 'A1', 'A1+B2', 'a1*$b$2', 'SUM(A1:B2)', 'SUM(B2:A1)', 'SUM(A1:B2)+C3', 'foo', 'foo+bar',
                'TRUE', 'SUM(1,2,3)', 'TWICE(4)', 'SUM(foo,A1)', 'IF(A1>0,"y","n")', 'NOPE(1)', '1/0', '"a"&A1',
                'SUM(A1:A3,B1)', '{1,2;3,4}', 'SUM({1,2;3,4})', '-A1%', 'A1:B2', 'AVERAGE(A1:C1)', '#REF!+1']

    p = hotxlfp.Parser()
    for fm in formulas:
        run(p, fm)
    p.on('callCellValue', on_cell)
    p.on('callRangeValue', on_range)
    p.on('callVariable', on_var)
    p.on('callFunction', on_func)
    p.on('callFunction', on_func_ctx, {'who': 'ctx'})
    p.set_function('TWICE', lambda x: x)
    for fm in formulas:
        run(p, fm)
    p.once('callCellValue', on_cell_hundred)
    for fm in ('A1+B2', 'A1+B2', 'SUM(A1:B2)'):
        run(p, fm)
    p.once('callCellValue', on_cell_hundred)
    p.off('callCellValue', on_cell_hundred)
    run(p, 'A1+B2')
    p.off('callCellValue', on_cell)
    run(p, 'A1+B2')
    p.off('callFunction', on_func)
    run(p, 'TWICE(4)+SUM(1,2)')
    p.off('callFunction')
    run(p, 'TWICE(4)+SUM(1,2)')
    p.off('callRangeValue')
    p.off('callVariable', on_var)
    for fm in ('SUM(A1:B2)', 'foo', 'A1'):
        run(p, fm)
    # two parsers do not share listeners
    q = hotxlfp.Parser()
    q.on('callCellValue', on_cell_hundred)
    p.on('callCellValue', on_cell)
    run(p, 'A1+B2')
    run(q, 'A1+B2')
    q.off('callCellValue')
    run(p, 'A1+B2')
    run(q, 'A1+B2')


def main():
    scenario_contexts()
    scenario_wrapper()
    scenario_emit_args()
    scenario_off_once()
    scenario_off_during_emit()
    scenario_dispatch()
    scenario_names()
    scenario_random(4242, 10, 30)
    scenario_parser()
    print('== %d evaluations' % COUNT[0])


if __name__ == '__main__':
    main()
