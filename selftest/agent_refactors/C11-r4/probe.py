# -*- coding: utf-8 -*-
"""
Probe for C11 refactoring 4 (shared criteria_pairs / iselected helpers for SUMIFS, AVERAGEIFS, MAXIFS;
AVERAGEIF loop; SLOPE argument split). Prints a deterministic transcript: one line per evaluation.
"""
import os
import sys
import random

sys.path.insert(0, os.path.dirname(os.path.dirname(os.path.abspath(__file__))))

import hotxlfp  # noqa: E402
from hotxlfp import Parser  # noqa: E402
from hotxlfp.formulas import error, statistical, mathtrig  # noqa: E402

COUNT = [0]


def out(kind, what, outcome):
    COUNT[0] += 1
    print('%04d %s %s -> %s' % (COUNT[0], kind, what, outcome))


def outcome_of(fn, *args):
    try:
        return 'value ' + repr(fn(*args))
    except BaseException as e:  # noqa
        return 'raised %s %r' % (type(e).__name__, str(e))


class Noisy(object):
    """ a number whose comparisons and arithmetic are logged (order and operands of every operation) """

    def __init__(self, v, log):
        self.v = v
        self.log = log

    def _note(self, name, other, res):
        self.log.append('%s(%r,%r)' % (name, self.v, other))
        return res

    def __eq__(self, other):
        return self._note('eq', other, self.v == other)

    def __ne__(self, other):
        return self._note('ne', other, self.v != other)

    def __lt__(self, other):
        return self._note('lt', other, self.v < other)

    def __le__(self, other):
        return self._note('le', other, self.v <= other)

    def __gt__(self, other):
        return self._note('gt', other, self.v > other)

    def __ge__(self, other):
        return self._note('ge', other, self.v >= other)

    def __add__(self, other):
        return self._note('add', other, self.v + (other.v if isinstance(other, Noisy) else other))

    def __radd__(self, other):
        return self._note('radd', other, other + self.v)

    def __mul__(self, other):
        return self._note('mul', other, self.v * (other.v if isinstance(other, Noisy) else other))

    def __rmul__(self, other):
        return self._note('rmul', other, other * self.v)

    def __pow__(self, other):
        return self._note('pow', other, self.v ** other)

    __hash__ = None

    def __repr__(self):
        return 'Noisy(%r)' % (self.v,)


class Sized(object):
    """ has a length and items by index, but is neither a list nor a tuple """

    def __init__(self, items):
        self.items = list(items)

    def __len__(self):
        return len(self.items)

    def __getitem__(self, i):
        return self.items[i]

    def __repr__(self):
        return 'Sized(%r)' % (self.items,)


class OnlyLen(object):
    """ has a length but cannot be walked or indexed """

    def __len__(self):
        return 3

    __iter__ = None

    def __repr__(self):
        return 'OnlyLen()'


NAN = float('nan')
INF = float('inf')

# ---------------------------------------------------------------- 1. the *IFS family, direct calls
IFS_CASES = [
    ([1, 2, 3, 4], [1, 2, 3, 4], '>2'), ([1, 2, 3, 4], [4, 3, 2, 1], '>2'), ([1, 2, 3, 4], [4, 3, 2, 1], '>2', [1, 2, 3, 4], '<> 3'),
    ([1, 2, 3, 4], [4, 3, 2, 1], '>3', [1, 2, 3, 4], '<>3'), ([1, 4, 5, 100], [1, 4, 5, 100], '<>200', [1, 4, 300, 100], '<100', [2, -3, 5, 2], '>1'),
    ([1, 4, 5, 100], [1, 4, 5, 100], '<>200', [1, 4, 300, 100], '<100', [2, -3, 5, 2], '>1', [0, 0, 0, 0], '0'),
    ([1, 4, 5, 100], [1, 4, 5, 100], '<>200', [1, 4, 300, 100], '<100', [2, -3, 5, 2], '>1', [0, 0, 0, 0], '1'),
    ([1, 4, 5], '>1', '<5'), ([1, 4, 5], [1, 4, 5, 100], '<5'), ([1, 4, 5, 100], [1, 4, 5], '<500'), ([1, 4, 5, 100], [1, 4, 5], '<2'), ([1, 4, 5], [1, 4, 5]), ([1, 4, 5],), ([],),
    ([1, 4, 5], [1, 4, 5], '>1', [1, 4, 5]), ([1, 4, 5], [1, 4, 5], '>1', [1, 4, 5], '<5', [1, 4, 5]), ([], [], '>1'), ([], [], 1), ([], [1], '>1'), ([1], [], '>1'),
    ([1, 2], ['a', 'b'], 'a'), ([1, 2, 3], ['a', 'b', 'ab'], 'a*', ['x', 'y', 'xy'], '?y'), ([1, 2, 3], ['a', 'b', 'ab'], '*', [1, 2, 3], '>1'),
    ([1, 2, 3], ['a', 'b', 'ab'], '>1'), ([1, 2, 3], ['a', 'b', 'ab'], '<>zz', ['a', 'b', 'ab'], '>1'), ([1, 2, 3], [1, None, 3], '>1'), ([1, 2, 3], [1, None, 3], '1'),
    ([1, 2, 3], [1, None, 3], '<1', [1, None, 3], '>0'), ([1, 2, 3], [1, None, 3], '>0', [1, None, 3], '<1'),
    (['a', 2, 3], [1, 2, 3], '>0'), (['a', 2, 3], [1, 2, 3], '>1'), ([1, 'a', 3], [1, 2, 3], '>0'), ([1, 2, 'a'], [1, 2, 3], '<3'), ([None, 2, 3], [1, 2, 3], '>0'), ([None, 2, 3], [1, 2, 3], '>1'),
    ([True, 2, 3], [1, 2, 3], '>0'), ([[1], 2, 3], [1, 2, 3], '>0'), ([[1], [2], [3]], [1, 2, 3], '>0'), (['a', 'b'], [1, 2], '>0'), (['b', 'a'], [1, 2], '>0'), (['a'], [1], '1'),
    ([1.5, 2.5, -3.5], [True, False, True], 'TRUE'), ([1.5, 2.5, -3.5], [1, 0, 1], '1.0'), ([1.5, 2.5, -3.5], [1, 0, 1], '1', [1.5, 2.5, -3.5], '<0'),
    ((1, 2, 3), (3, 2, 1), '>=2'), ((1, 2, 3), [3, 2, 1], '>=2'), ([1, 2, 3], (3, 2, 1), '<=2'), ((), (), '1'), ((5,), (5,), '5'),
    ([1, 2, 3], 5, '>1'), (5, [1, 2, 3], '>1'), (5, 5, '>1'), ('abc', ['a', 'b', 'c'], 'a'), ('abc', 'abc', 'a'), (['a', 'b', 'c'], 'abc', 'a'), ([1, 2, 3], 'abc', 'a'), ('', [], 'a'),
    ([1, 2, 3], [1, 2, 3], 2), ([1, 2, 3], [1, 2, 3], ''), ([1, 2, 3], [1, 2, 3], None), ([1, 2, 3], [1, 2, 3], '=<2'), ([1, 2, 3], [1, 2, 3], '>1', [1, 2, 3], None),
    ([1, 2, 3], [1, 2, 3], None, [1, 2, 3], '>1'), ([1, 2, 3], [1, 2], '>1', [1, 2, 3], None), ([1, 2, 3], 'abc', None), ([1, 2, 3], None, '>1'), ([1, 2, 3], None, None),
    ([error.VALUE, 2, 3], [1, 2, 3], '>1'), ([error.VALUE, 2, 3], [1, 2, 3], '>0'), ([1, 2, error.NUM], [1, 2, 3], '>0'), ([error.VALUE], [1], '1'),
    ([1, 2, 3], [error.VALUE, 2, 3], '>1'), ([1, 2, 3], [error.VALUE, 2, 3], '2'), ([1, 2, 3], [1, 2, error.VALUE], '<2'), ([1, 2, 3], [1, 2, 3], error.VALUE),
    ([[1, 2], [3, 4]], [[1, 2], [3, 4]], '>1'), ([1, 2], [[1, 2], [3, 4]], '>1'), ([[1, 2], [3, 4]], [1, 2], '>1'), ([[1, 2], [3, 4]], [1, 2], '>5'),
    ([-1, -2, -3], [1, 2, 3], '>1'), ([-1, -2, -3], [1, 2, 3], '>5'), ([-3, -2, -1], [1, 2, 3], '>0'), ([-1, -1, -1], [1, 2, 3], '>0'), ([0, 0], [1, 2], '>0'), ([-0.0, 0], [1, 2], '>0'), ([0, -0.0], [1, 2], '>0'),
    ([0.1, 0.2, 0.3, 1e16, -1e16], [1, 1, 1, 1, 1], '1'), ([1e16, 0.1, 0.2, 0.3, -1e16], [1, 1, 1, 1, 1], '1'), ([0.1] * 10, [1] * 10, '1'), ([1e308, 1e308, -1e308], [1, 1, 1], '1'),
    ([NAN, 1, 2], [1, 1, 1], '1'), ([1, NAN, 2], [1, 1, 1], '1'), ([1, 2, NAN], [1, 1, 1], '1'), ([INF, -INF], [1, 1], '1'), ([INF, 1], [1, 1], '1'), ([1, 2], [NAN, 1], 'nan'), ([1, 2], [NAN, 1], '<>nan'),
    ([10 ** 30, 1, -10 ** 30], [1, 1, 1], '1'), ([10 ** 30, 1.5], [1, 1], '1'), ([1 + 2j, 2], [1, 1], '1'), ([2, 1 + 2j], [1, 1], '1'), ([1 + 2j], [1], '1'), ([1 + 2j, 3 + 1j], [1, 1], '1'),
    ([3, 1, 2], {0: 5, 1: 6, 2: 7}, '>5'), ([3, 1, 2], {0: 5, 1: 6}, '>4'), ([3, 1, 2], {1: 5, 2: 6, 3: 7}, '>4'), ({0: 5, 1: 6}, [1, 2], '>0'), ({5: 0, 6: 1}, [1, 2], '>0'), ({}, [], '>0'),
    (None, [1, 2], '>0'), (None,), (None, 1), (True, [1], '1'), ([1, 2, 3], [1, 2, 3], '>1', [1, 2], '>0'), ([1, 2, 3], [1, 2, 3], '>2', [1, 2], '>0'), ([1, 2, 3], [1, 2, 3], '>5', [1, 2], '>0'),
    ([1, 2, 3], [1, 2], '>0', [1, 2, 3], '>1'), ([1, 2, 3], Sized([1, 2, 3]), '>1'), (Sized([1, 2, 3]), [1, 2, 3], '>1'), (Sized([1, 2, 3]), Sized([3, 2, 1]), '>1'), ([1, 2, 3], Sized([1, 2]), '>0'),
    (OnlyLen(), [1, 2, 3], '>1'), ([1, 2, 3], OnlyLen(), '>1'), (OnlyLen(), OnlyLen(), '>1'), (range(3), [1, 2, 3], '>1'), ([1, 2, 3], range(3), '>0'),
    ([1, 2, 3], [1, 2, 3], b'>1'), ([1, 2, 3], [b'a', b'b', b'c'], 'a'), ([1, 2, 3], [1, 2, 3], '>1', 7, '>1'), ([1, 2, 3], [1, 2, 3], '<0', 7, '>1'), ([1, 2, 3], 7, '>1', [1, 2, 3], '<0'),
]
for name, fn in (('SUMIFS', mathtrig.SUMIFS), ('AVERAGEIFS', statistical.AVERAGEIFS), ('MAXIFS', statistical.MAXIFS)):
    for case in IFS_CASES:
        shown = repr(case)
        out(name, shown, outcome_of(fn, *case))

# which comparisons / additions are made, on what, in what order
for name, fn in (('SUMIFS', mathtrig.SUMIFS), ('AVERAGEIFS', statistical.AVERAGEIFS), ('MAXIFS', statistical.MAXIFS)):
    for c1, c2, c3 in [('>1', '<3', '>0'), ('2', '>0', '<>9'), ('<>2', '3', '3'), ('>5', '>0', '>0'), ('>0', '>0', '>0'), ('>0', '>0', '<0'), ('<9', 'x*', '>0'), ('>0', None, '>0')]:
        log = []
        r1 = [Noisy(1, log), Noisy(2, log), Noisy(3, log)]
        r2 = [Noisy(10, log), Noisy(2, log), Noisy(3, log)]
        r3 = [Noisy(7, log), Noisy(8, log), Noisy(9, log)]
        vals = [Noisy(100, log), Noisy(300, log), Noisy(200, log)]
        out(name + '-noisy', repr((c1, c2, c3)), outcome_of(fn, vals, r1, c1, r2, c2, r3, c3) + ' | ' + ' '.join(log))
    log = []
    out(name + '-noisy', 'short second range', outcome_of(fn, [1, 2, 3], [Noisy(1, log), Noisy(2, log), Noisy(3, log)], '>0', [Noisy(1, log)], '>0') + ' | ' + ' '.join(log))
    log = []
    out(name + '-noisy', 'text among the values', outcome_of(fn, [Noisy(1, log), 'a', Noisy(3, log)], [Noisy(1, log), Noisy(2, log), Noisy(3, log)], '>0') + ' | ' + ' '.join(log))
    log = []
    out(name + '-noisy', 'text among the values, not selected', outcome_of(fn, [Noisy(1, log), 'a', Noisy(3, log)], [Noisy(1, log), Noisy(2, log), Noisy(3, log)], '<>2') + ' | ' + ' '.join(log))

# ---------------------------------------------------------------- 2. AVERAGEIF, direct calls
AVERAGEIF_CASES = [
    ([1, 2, 3, 4], '>2'), ([1, 2, 3, 4], '>2', [4, 3, 2, 1]), ([1, 2, 3, 4], '>2', [4, 3, 2]), ([1, 2, 3, 4], '<2', [4, 3, 2]), ([1, 2, 3, 4], '>2', [4, 3, 2, 1, 9]), ([1, 2, 3, 4], '>2', []),
    ([1, 2, 3, 4], '>2', ['4', '3', '2', '1']), ([1, 2, 3, 4], '>2', ['a', 'b', 'c', 'd']), ([1, 2, 3, 4], '>5', ['a', 'b', 'c', 'd']), ([1, 2, 3, 4], '>5'), ([1, 2, 3, 4], '<3', ['a', 'b', 3, 4]),
    ([1, 2, 3, 4], '>2', [[4, 3], [2, 1]]), ([[1, 2], [3, 4]], '>2', [4, 3, 2, 1]), ([[1, 2], [3, 4]], '>2'), ([[1, [2]], [[3], 4]], '<>2', ((4, 3), (2, 1))), ((1, 2, 3, 4), '>2'),
    ([1, 2, 3, 4], '>2', 7), ([1, 2, 3, 4], '<2', 7), ([1, 2, 3, 4], '>2', 0), ([1, 2, 3, 4], '>2', None), ([1, 2, 3, 4], '>2', ''), ([1, 2, 3, 4], '>2', False), ([1, 2, 3, 4], '>2', [None, None, True, 2.5]),
    ([1, 2, 3, 4], '>2', [1, 2, error.NUM, 4]), ([1, 2, 3, 4], '<2', [1, 2, error.NUM, 4]), ([1, 2, 3, 4], '>2', error.NUM), ([1, error.NUM, 3], '>2'), ([error.NUM, 1, 3], '>2'), ([1, 3, error.NUM], '<2'),
    (['a', 'b', 'ab'], 'a*', [1, 2, 3]), (['a', 'b', 'ab'], 'a', [1, 2, 3]), (['a', 'b', 'ab'], '<>a', [1, 2, 3]), (['a', 'b', 'ab'], 'a*'), (['a', 'b', 'ab'], 'zz'), (['a', 1, None], '1', [10, 20, 30]),
    (['a', 1, None], '>0', [10, 20, 30]), ([1, 'a', None], '>0', [10, 20, 30]), ([1, None, 'a'], '<2', [10, 20, 30]), ([], '>2', [1]), ([], '>2'), ([1], 2, [1]), ([1], None), ([1], ''), ([], 2),
    (5, '>2'), (5, '5'), (5, '>2', 9), (5, '>2', [9]), (0, '0'), (0, '0', [4]), (None, '>2'), (None, '>2', [1]), ('a', 'a'), ('a', 'a', [3]), (True, 'TRUE'), (True, '1'), ('3', '3'), ('3', '>2'),
    ([1.5, 2.5, 3.5], '>=2.5'), ([1.5, 2.5, 3.5], '2.5', [1, 2, 3]), ([True, False, True], 'TRUE', [1, 2, 3]), ([True, False, True], '1'), ([True, False, True], '>0'), (['1', '2', '3'], '>1'),
    (['1', '2', '3'], '2'), (['1', '2', '3'], '2', [10, 20, 30]), ([0.1, 0.2, 0.3, 1e16, -1e16], '<>0'), ([0.1] * 10, '0.1'), ([NAN, 1], '<>nan'), ([INF, -INF], '<>0'), ([10 ** 30, 1], '>0'),
    ([1 + 2j, 2], '<>0'), ([1, 2, 3], '>1', Sized([1, 2, 3])), (Sized([1, 2, 3]), '>1'), ([1, 2, 3], '>1', {0: 1}), ([1, 2, 3], '>1', range(3)), (range(3), '>0'), ([1, 2, 3], b'>1'), ([1, 2, 3], ['>1']),
]
for case in AVERAGEIF_CASES:
    out('AVERAGEIF', repr(case), outcome_of(statistical.AVERAGEIF, *case))
for crit in ['>1', '2', '<>2', 'f*', '<9']:
    log = []
    rng = [Noisy(1, log), [Noisy(2, log), (Noisy(3, log),)], 2]
    out('AVERAGEIF-noisy', repr(crit), outcome_of(statistical.AVERAGEIF, rng, crit, [10, 20, 30, 40]) + ' | ' + ' '.join(log))

# ---------------------------------------------------------------- 3. SLOPE, direct calls
SLOPE_CASES = [
    (), (1,), (1, 2), (6, 1), (1, 1), (0, 0), (1, 2, 3), (6, 1, 2, 4), (1, 2, 3, 4), (1, 2, 3, 4, 5), (1, 2, 3, 4, 1, 2, 3, 4), (6, 2, -2, -4, -6, -2, 0, 2, 3, 4), (1, 2, 3, 3, 2, 1), (1, 2, 3, 1, 1, 1),
    (1, 1, 1, 1, 2, 3), (0, 0, 0, 0), (1.5, 2.5, 0.5, 1.5), (0.1, 0.2, 0.3, 0.1, 0.2, 0.3), (0.1, 0.2, 0.3, 1, 2, 3), (1, 2, 3, 0.1, 0.2, 0.3), (1e308, 1e308, 1, 2), (1, 2, 1e200, 2e200), (1, 2, 1e-200, 2e-200),
    (1, 2, NAN, 2), (NAN, 2, 1, 2), (1, 2, INF, 2), (INF, 2, 1, 2), (1, 2, INF, -INF), (10 ** 30, 1, 2, 10 ** 30), (10 ** 20, 1, 1, 10 ** 20 + 1), (1, 2, 10 ** 17, 10 ** 17 + 1), (1, 2, 1e17, 1e17 + 16),
    (True, False, 1, 2), (1, 2, True, False), (True, True), (False, True, True, False), (1, 2, '1', '2'), ('1', '2', 1, 2), ('a', 'b', 'c', 'd'), ('1', 2), (1, '2'), ('', ''), (None, 1, 1, 2), (1, None, 1, 2),
    (1, 2, None, 2), (1, 2, 3, None), (None, None), (None,), (None, None, None, None), (error.VALUE, 1, 1, 2), (1, 2, error.NUM, 2), (1, 2, 3, error.DIV_ZERO), (error.VALUE,), (error.VALUE, error.VALUE),
    (error.VALUE, 1, 2), ([1, 2], [3, 4]), ([1, 2], [3, 4], [1, 2], [3, 4]), ([1, 2, 3, 4],), ([1, 2], 3), ((1, 2), (3, 4)), ([], []), ([1], [2]), (1, 2, [3], 4), (1 + 2j, 2, 1, 2), (1, 2, 1j, 2), (1j, 2j, 1j, 3j),
    (1, 2, 3, 4, 5, 6, 7, 8, 9, 10, 11, 12), (12, 11, 10, 9, 8, 7, 6, 5, 4, 3, 2, 1), (2, 4, 6, 8, 10, 1, 2, 3, 4, 5), (2.5, 4.25, 6.125, 1, 2, 3), (-1, -2, -3, -4), (-1.5, 2, 3.5, -4), (5, 5, 5, 1, 2, 3),
    (3, 1, 2, 2, 2, 2), (1, 2, 2, 1), (2, 1, 1, 2), (7, 7), (7, 7, 7), (7, 7, 7, 7), (0.5, 0.25, 0.125, 0.0625), (1, 3, 1, 2, 3, 1, 2, 3), (-0.0, 0.0, 1, 2), (1, 2, -0.0, 0.0), (2 ** 53, 2 ** 53 + 1, 1, 2), (1, 2, 2 ** 53, 2 ** 53 + 2),
]
for case in SLOPE_CASES:
    out('SLOPE', repr(case), outcome_of(statistical.SLOPE, *case))
for k in (0, 1, 2, 3, 4, 5, 6):
    log = []
    args = [Noisy(v, log) for v in (3, 1, 4, 1, 5, 9)[:k]]
    out('SLOPE-noisy', repr(args), outcome_of(statistical.SLOPE, *args) + ' | ' + ' '.join(log))
big = list(range(1, 201)) + [x * x for x in range(1, 201)]
out('SLOPE', '400 arguments', outcome_of(statistical.SLOPE, *big))
out('SLOPE', '401 arguments', outcome_of(statistical.SLOPE, *(big + [1])))

# ---------------------------------------------------------------- 4. through the parser, with events
FORMULAS = [
    'SUMIFS({1;4;5;100}, {1;4;5;100},"<>200")', 'SUMIFS({1;4;5}, {3;5;9},"<7")', 'SUMIFS({1;4;5}, ">1","<5")', 'SUMIFS({1;4;5}, {1;4;5;100},"<5")',
    'SUMIFS({1;4;5;100}, {1;4;5;100},"<>200", {1;4;300;100},"<100", {2;-3;5;2},">1")', 'SUMIFS({1;4;5}, {"a";"b";"ab"},"a*")', 'SUMIFS({1;4;5}, {"a";"b";"ab"},"b")',
    'SUMIFS({1;4;5}, {"a";"b";"ab"},"<>b")', 'SUMIFS({1;4;5}, {3;5;9},"5")', 'SUMIFS({1;4;5}, {3;5;9},"=5", {1;1;1}, "1")', 'SUMIFS({1;4;5}, {3;5;9},">99")', 'SUMIFS({1,4,5}, {3,5,9},">3")',
    'SUMIFS({1,4;5,6}, {3,5;9,1},">3")', 'SUMIFS({1;4;5}, {3;5;9})', 'SUMIFS({1;4;5})', 'SUMIFS()', 'SUMIFS(5, 5, "5")', 'SUMIFS({1;4;5}, {3;5;9}, 5)', 'SUMIFS({1;4;5}, {3;5;9}, "")',
    'SUMIFS(NUMS, NUMS, ">0")', 'SUMIFS(NUMS, NUMS, ">0", NUMS, "<2")', 'SUMIFS(NUMS, NUMS)', 'SUMIFS(NUMS)', 'SUMIFS(NUMS, NUMS, 1)', 'SUMIFS(NUMS, WORDS, "a*")', 'SUMIFS(NUMS, WORDS, "a*", NUMS, "<>1")',
    'SUMIFS(FLOATS, FLOATS, "<>0")', 'SUMIFS(MIXED, NUMS, "<9")', 'SUMIFS(MIXED, NUMS, ">2")', 'SUMIFS(NUMS, MIXED, "2")', 'SUMIFS(NUMS, MIXED, ">0")', 'SUMIFS(ERRS, ERRS, "1")', 'SUMIFS(TUP, TUP, ">1")',
    'SUMIFS(EMPTY, EMPTY, ">1")', 'SUMIFS(#N/A, NUMS, ">1")', 'SUMIFS(NUMS, NUMS, #N/A)', 'SUMIFS(A1:B2, A1:B2, ">1")', 'SUMIFS(A1:A3, B1:B3, ">1")', 'SUMIFS(UNDEFINED, NUMS, ">1")', 'SUMIFS(NUMS, NUMS, CRIT)',
    'AVERAGEIFS({1;2;3;4};{1;2;3;4};">2")', 'AVERAGEIFS({1;2;3;4};{4;3;2;1};">2")', 'AVERAGEIFS({1;2;3;4};{4;3;2;1};">2";{1;2;3;4};"<> 3")', 'AVERAGEIFS({1;2;3;4};{4;3;2;1};">9")',
    'AVERAGEIFS({1;2;3;4};{"a";"b";"c";"a"};"a")', 'AVERAGEIFS({1;2;3;4};{"a";"b";"c";"a"};"?")', 'AVERAGEIFS(5;{1};">0")', 'AVERAGEIFS({1;2;3;4};{4;3;2;1})', 'AVERAGEIFS({1;2;3;4})', 'AVERAGEIFS()',
    'AVERAGEIFS(NUMS; NUMS; "<>0")', 'AVERAGEIFS(NUMS; NUMS; "<>0"; NUMS)', 'AVERAGEIFS(NUMS; WORDS; "a*")', 'AVERAGEIFS(NUMS; WORDS; "zz")', 'AVERAGEIFS(FLOATS; FLOATS; "<>0")', 'AVERAGEIFS(MIXED; NUMS; "<1")',
    'AVERAGEIFS(MIXED; NUMS; "<9")', 'AVERAGEIFS(ERRS; ERRS; "1")', 'AVERAGEIFS(TUP; TUP; ">1")', 'AVERAGEIFS(EMPTY; EMPTY; ">1")', 'AVERAGEIFS(NUMS; {1;2}; ">0")', 'AVERAGEIFS(NUMS; {1;2}; ">5")', 'AVERAGEIFS(A1:A3; B1:B3; ">1")',
    'MAXIFS({1;2;3;4};{1;2;3;4};">2")', 'MAXIFS({1;2;3;4};{4;3;2;1};">2")', 'MAXIFS({1;2;3;4};{4;3;2;1};">3";{1;2;3;4};"<>3")', 'MAXIFS({1;2;3;4};{4;3;2;1};">9")', 'MAXIFS({-1;-2};{1;2};">0")',
    'MAXIFS({-1;-2};{1;2};"2")', 'MAXIFS(NUMS; NUMS; "<1")', 'MAXIFS(NUMS; WORDS; "*a")', 'MAXIFS(5;{1};">0")', 'MAXIFS({1;2;3;4};{4;3;2;1})', 'MAXIFS({1;2;3;4})', 'MAXIFS()', 'MAXIFS(MIXED; NUMS; "<9")',
    'MAXIFS(MIXED; NUMS; "<0")', 'MAXIFS(FLOATS; FLOATS; "<>0")', 'MAXIFS(ERRS; ERRS; "1")', 'MAXIFS(ERRS; ERRS; "<>7")', 'MAXIFS(TUP; TUP; ">1")', 'MAXIFS(EMPTY; EMPTY; ">1")', 'MAXIFS(WORDS; NUMS; "<9")', 'MAXIFS(A1:A3; B1:B3; ">1")',
    'AVERAGEIF({1;2;3;4};">2")', 'AVERAGEIF({1;2;3;4};">2";{4;3;2;1})', 'AVERAGEIF({1;2;3;4};">9")', 'AVERAGEIF({1;2;3;4};"2")', 'AVERAGEIF({1;2;3;4};"<>2")', 'AVERAGEIF({1,2;3,4};">1")', 'AVERAGEIF({1,2;3,4};">1";{4,3;2,1})',
    'AVERAGEIF(WORDS;"a*";{1;2;3;4;5})', 'AVERAGEIF(WORDS;"zz";{1;2;3;4;5})', 'AVERAGEIF(WORDS;"a*")', 'AVERAGEIF(NUMS;">0")', 'AVERAGEIF(MIXED;">0")', 'AVERAGEIF(MIXED;"2")', 'AVERAGEIF(EMPTY;">0")', 'AVERAGEIF(NUMS;">0";EMPTY)',
    'AVERAGEIF(NUMS;">0";{1;2})', 'AVERAGEIF(NUMS;"<0";{1;2})', 'AVERAGEIF(ERRS;">0")', 'AVERAGEIF(NUMS;">0";ERRS)', 'AVERAGEIF(TUP;">1")', 'AVERAGEIF(5;"5")', 'AVERAGEIF(;"5")', 'AVERAGEIF(NUMS)', 'AVERAGEIF(A1:B2;">1")',
    'AVERAGEIF(#REF!;">1")', 'AVERAGEIF(NUMS;1)', 'AVERAGEIF(FLOATS;"<>0")',
    'SLOPE(1;2;3;4;1;2;3;4)', 'SLOPE(6,2,-2,-4,-6,-2,0,2,3,4)', 'SLOPE(6,1,2,4)', 'SLOPE(6,1)', 'SLOPE(6)', 'SLOPE()', 'SLOPE(1,2,3)', 'SLOPE(1,2,3,3,2,1)', 'SLOPE(1.5,2.5,0.5,1.5)', 'SLOPE(1,2,1,1)', 'SLOPE(1,1,1,2)',
    'SLOPE("a",1,1,2)', 'SLOPE("1","2","3","5")', 'SLOPE(TRUE,FALSE,1,2)', 'SLOPE(1,,1,2)', 'SLOPE(,,,)', 'SLOPE(,)', 'SLOPE({1,2},{3,4})', 'SLOPE({1,2,3,4})', 'SLOPE(NUMS)', 'SLOPE(NUMS, NUMS)', 'SLOPE(#N/A,1,1,2)', 'SLOPE(1,2,#DIV/0!,2)',
    'SLOPE(1/0,1,1,2)', 'SLOPE(A1,B1,C1,D1)', 'SLOPE(-1,-2,-3,-4)', 'SLOPE(1e300,2e300,1,2)', 'SLOPE(1,2,1e300,2e300)', 'SLOPE(2^2,3,1,2)', 'SLOPE(10%,20%,1,2)', 'SLOPE(SUM(1,2),3,1,2)', 'SLOPE(1,2,3,4)+SLOPE(4,3,2,1)',
    'SUM(SUMIFS({1;4;5}, {3;5;9},"<7"), MAXIFS({1;2;3;4};{1;2;3;4};">2"))', 'IF(AVERAGEIFS({1;2;3;4};{1;2;3;4};">2")>3, "hi", "lo")', 'SUMIFS({1;4;5}, {3;5;9},"<" & 7)', 'ROUND(SLOPE(1,2,4,1,2,3)*100,0)',
]


def make_parser(events):
    p = Parser(debug=False)
    p.set_variable('MIXED', [2, '2', 2.0, True, None, 'a'])
    p.set_variable('NUMS', [-1, 0, 1, 2.5, 1, -0.0])
    p.set_variable('FLOATS', [0.1, 0.2, 0.3, 1e16, -1e16, 0.0])
    p.set_variable('ERRS', [1, error.VALUE, 2])
    p.set_variable('WORDS', ['a', 'ab', 'ba', 'b', 'A', 'aa'])
    p.set_variable('TUP', (1, 2, 3))
    p.set_variable('EMPTY', [])
    p.set_variable('CRIT', '>=1')
    cells = {'A1': 1, 'B1': 2, 'C1': 3, 'D1': 5}

    def on_function(name, args, setter):
        events.append('callFunction %s %r' % (name, args))

    def on_variable(name, setter):
        events.append('callVariable %s' % name)

    def on_cell(cell, setter):
        events.append('callCellValue %s' % cell.label)
        setter(cells.get(cell.label))

    def on_range(start, end, setter):
        events.append('callRangeValue %s:%s' % (start.label, end.label))
        if start.label == 'A1' and end.label == 'B2':
            setter([[1, 2], [3, 4]])
        elif start.label == 'A1':
            setter([10, 20, 30])
        else:
            setter([1, 2, 3])

    p.on('callFunction', on_function)
    p.on('callVariable', on_variable)
    p.on('callCellValue', on_cell)
    p.on('callRangeValue', on_range)
    return p


events1 = []
events2 = []
parser1 = make_parser(events1)
parser2 = make_parser(events2)
for rnd in (1, 2):
    for f in FORMULAS:
        del events1[:]
        out('parse%d' % rnd, f, repr(parser1.parse(f)) + ' | ' + ' ; '.join(events1))
for f in reversed(FORMULAS):
    del events2[:]
    out('parse-second-parser', f, repr(parser2.parse(f)) + ' | ' + ' ; '.join(events2))

# ---------------------------------------------------------------- 5. randomised
rng = random.Random(4011)
OPS = ['>', '<', '>=', '<=', '<>', '=', '']


def rand_crit():
    if rng.random() < 0.25:
        return rng.choice(['a', 'a*', '?', '*b', 'ab', '<>a', '3', '3.0', '<>', '*'])
    return rng.choice(OPS) + str(rng.choice([rng.randint(-5, 5), rng.randint(-5, 5) / 2.0]))


def rand_cell():
    return rng.choice([rng.randint(-5, 5), rng.randint(-5, 5), rng.randint(-5, 5) / 2.0, rng.choice(['a', 'ab', 'b', '3', '']), None, True])


for k in range(150):
    n = rng.randint(0, 7)
    sums = [rng.choice([rng.randint(-9, 9), rng.randint(-90, 90) / 8.0]) for _ in range(n)]
    ncrit = rng.randint(1, 3)
    crit_args = []
    for _ in range(ncrit):
        m = n if rng.random() < 0.9 else max(0, n + rng.choice([-1, 1]))
        crit_args.append([rand_cell() for _ in range(m)])
        crit_args.append(rand_crit())
    out('random-ifs', '%r %r' % (sums, crit_args), ' / '.join([
        outcome_of(mathtrig.SUMIFS, sums, *crit_args), outcome_of(statistical.AVERAGEIFS, sums, *crit_args), outcome_of(statistical.MAXIFS, sums, *crit_args),
        outcome_of(statistical.AVERAGEIF, crit_args[0], crit_args[1], sums),
    ]))
for k in range(80):
    n = rng.randint(0, 9)
    args = [rng.choice([rng.randint(-9, 9), rng.randint(-90, 90) / 8.0, rng.randint(-3, 3)]) for _ in range(n)]
    out('random-slope', repr(args), outcome_of(statistical.SLOPE, *args))

print('evaluations: %d' % COUNT[0])
