# -*- coding: utf-8 -*-
"""
Probe for C02 refactoring 1: the four call_* callbacks of hotxlfp.parser.Parser
(call_function, call_variable, call_cell_value, call_range_value), the value a
listener may override and the normalisation of range corners.

Prints one line per evaluation: configuration, input, repr() of the outcome and the
events seen while evaluating. Deterministic: no clock, no randomness, no addresses.
"""
import io
import os
import sys
import contextlib

sys.path.insert(0, os.path.dirname(os.path.dirname(os.path.abspath(__file__))))

import hotxlfp  # noqa: E402
from hotxlfp import Parser  # noqa: E402
from hotxlfp.formulas import error as xlerror  # noqa: E402

COUNT = [0]


def show(value):
    """ repr() without memory addresses """
    if isinstance(value, BaseException):
        return '%s(%r)' % (type(value).__name__, str(value))
    if callable(value):
        return '<callable %s>' % getattr(value, '__name__', type(value).__name__)
    if isinstance(value, list):
        return '[' + ', '.join(show(v) for v in value) + ']'
    if isinstance(value, tuple):
        return '(' + ', '.join(show(v) for v in value) + ')'
    if isinstance(value, dict):
        return '{' + ', '.join('%s: %s' % (show(k), show(value[k])) for k in value) + '}'
    return repr(value)


def line(tag, text, outcome, events):
    COUNT[0] += 1
    print('%04d | %s | %s | %s | events=%s' % (COUNT[0], tag, text, show(outcome), show(events)))


SHEET = {
    'A1': 1, 'A2': 2.5, 'A3': 'text', 'A4': True, 'A5': None, 'A6': '', 'A7': xlerror.DIV_ZERO,
    'B1': 10, 'B2': -3, 'B3': '7', 'B4': False, 'B5': 0, 'C1': [1, 2, 3], 'C3': 1e308,
    '$A$1': 100, '$B2': 200, 'B$2': 300, 'AA10': 'far', 'ZZ99': 9,
}


def cell_value(cell):
    return SHEET.get(cell.label)


def range_value(start, end):
    rows = []
    for r in range(start.row.index, end.row.index + 1):
        row = []
        for c in range(start.col.index, end.col.index + 1):
            # relative label of the coordinate
            label = ''
            n = c
            while n >= 0:
                label = chr(n % 26 + 65) + label
                n = n // 26 - 1
            row.append(SHEET.get(label + str(r + 1)))
        rows.append(row)
    return rows


def make(config, events, debug=False):
    p = Parser(debug=debug)
    host = {
        'lst': [1, 2, 3],
        'nested': [[1, 2], [3, 4]],
        'txt': 'abc',
        'num': 4,
        'flt': 0.5,
        'zero': 0,
        'yes': True,
        'no': False,
        'nothing': None,
        'empty': '',
        'err': xlerror.VALUE,
        'dct': {'k': 1},
    }
    for k, v in host.items():
        p.set_variable(k, v)
    p.set_function('TWICE', lambda x=None: None if x is None else x * 2)
    p.set_function('BOOM', lambda *a: 1 / 0)
    p.set_function('XLBOOM', lambda *a: (_ for _ in ()).throw(xlerror.NUM))
    p.set_function('NARGS', lambda *a: len(a))
    p.set_function('ECHO', lambda *a: list(a))
    p.set_function('NONE', lambda *a: None)
    p.set_function('APPEND', lambda a, *rest: a.append(99) if isinstance(a, list) else a)

    def on_function(name, args, setter):
        events.append(('callFunction', name, list(args) if isinstance(args, list) else args, setter.__name__))
        if config == 'override':
            if name == 'SUM':
                setter(-1)
            elif name == 'NONE':
                setter('from-listener')
            elif name == 'TWICE':
                setter(None)  # ignored
            elif name == 'BOOM':
                setter(0)
                setter(False)
            elif name == 'NARGS':
                setter('')
        elif config == 'raising':
            if name == 'SUM':
                raise ValueError('listener failed')
            if name == 'NARGS':
                raise xlerror.REF

    def on_variable(name, setter):
        events.append(('callVariable', name, setter.__name__))
        if config == 'override':
            if name == 'ghost':
                setter(42)
            elif name == 'num':
                setter(None)  # ignored
            elif name == 'txt':
                setter(0)
            elif name == 'phantom':
                setter([])
        elif config == 'raising':
            if name == 'txt':
                raise KeyError('no txt')
            if name == 'ghost':
                raise xlerror.NOT_AVAILABLE

    def on_cell(cell, setter):
        events.append(('callCellValue', repr(cell), cell.label, cell.row, cell.col, cell[0] is cell.row, cell[1] is cell.col))
        if config in ('sheet', 'override', 'double'):
            setter(cell_value(cell))
        elif config == 'raising':
            if cell.label == 'A1':
                raise RuntimeError('cell failed')
            setter(cell_value(cell))

    def on_range(start, end, setter):
        events.append(('callRangeValue', repr(start), repr(end), start.label, end.label))
        if config in ('sheet', 'override', 'double'):
            setter(range_value(start, end))
        elif config == 'raising':
            if start.label == 'A1':
                raise xlerror.NULL
            setter(range_value(start, end))

    if config != 'bare':
        p.on('callFunction', on_function)
        p.on('callVariable', on_variable)
        p.on('callCellValue', on_cell)
        p.on('callRangeValue', on_range)
    if config == 'double':
        # a second listener on each event: the last non-None value wins
        p.on('callFunction', lambda name, args, setter: (events.append(('second', name)), setter('second' if name == 'NARGS' else None)))
        p.on('callVariable', lambda name, setter: (events.append(('second', name)), setter(7 if name == 'num' else None)))
        p.on('callCellValue', lambda cell, setter: (events.append(('second', cell.label)), setter(None)))
        p.on('callRangeValue', lambda s, e, setter: (events.append(('second', s.label, e.label)), setter([[0]] if s.label == 'B1' else None)))
        p.once('callFunction', lambda name, args, setter: events.append(('once', name)))
    return p, host


FORMULAS = [
    # functions
    'SUM(1,2,3)', 'SUM()', 'SUM(lst)', 'SUM(nested)', 'sum(1,2)', 'TWICE(4)', 'TWICE()', 'TWICE("ab")',
    'TWICE(lst)', 'BOOM()', 'BOOM(1)', 'XLBOOM()', '1+XLBOOM()', 'NARGS()', 'NARGS(1)', 'NARGS(1,,3)',
    'NARGS(,)', 'NARGS(,,)', 'NARGS(1;2)', 'NARGS({1,2,3})', 'ECHO(lst,txt,num)', 'ECHO(nothing,empty)',
    'NONE()', 'NONE(1)&"x"', 'APPEND(lst)', 'APPEND(nested)', 'APPEND(1)', 'UNKNOWNFN(1)', 'UNKNOWNFN()',
    'SQRT(-1)', 'SQRT(16)', 'IF(TRUE,1,2)', 'IF(no,BOOM(),3)', 'SUM(TWICE(2),NARGS(1,2))', 'ABS(-2)',
    'LEN("abc")', 'CONCATENATE("a",1,TRUE)', 'MAX(lst)', 'ISBLANK(nothing)', 'ISERROR(err)', 'NOT(yes)',
    'AND(yes,no)', 'LOG(0)', 'MOD(1,0)', 'POWER(2,10)', 'ROUND(2.567,1)', 'SUM("a")', 'SUM(err)',
    # variables
    'num', 'flt', 'txt', 'lst', 'nested', 'zero', 'yes', 'no', 'nothing', 'empty', 'err', 'dct', 'TRUE',
    'FALSE', 'NULL', 'ghost', 'phantom', 'missing', 'num+1', 'num*flt', 'txt&txt', 'ghost+1', 'num.prop',
    'ghost.a.b', '-num', '-txt', 'num=4', 'txt="abc"', 'nothing&"x"', 'lst&"x"', 'num/zero', 'err+1',
    # cells
    'A1', 'a1', 'A2', 'A3', 'A4', 'A5', 'A6', 'A7', 'B1', 'B2', 'B3', 'C1', 'C3', '$A$1', '$a$1', '$B2', 'B$2',
    'b$2', 'AA10', 'aa10', 'ZZ99', 'Z1', 'A0', 'A1+B1', 'A1*A2', 'A3&B3', 'A7+1', 'SUM(A1,B1)', 'A5+1',
    'A1=1', 'A4=TRUE', '-B2', 'TWICE(B3)', 'A999999', 'XFD1048576',
    # ranges
    'A1:A1', 'A1:B2', 'B2:A1', 'A2:B1', 'B1:A2', 'a1:b2', 'b2:a1', '$A$1:$B$2', '$B$2:$A$1', '$A1:B$2',
    'B$2:$A1', 'A$1:$B2', '$B2:A$1', 'A1:$B$2', '$B$2:A1', 'A1:B$2', 'A1:$B2', '$A$1:B2', 'B1:B5', 'B5:B1',
    'A1:C1', 'C1:A1', 'A1:AA1', 'AA1:A1', 'A10:A9', 'A9:A10', 'SUM(A1:B2)', 'SUM(B2:A1)', 'SUM(B1:B5)',
    'SUM(A1:A7)', 'MAX(B1:B5)', 'COUNT(A1:B5)', 'A1:B2&"x"', 'SUM(A1:B2,B1:B2)', 'SUM(A1:B2)+A1+num',
    'A0:A1', 'A1:A0', 'B1:B1', '$B1:B$1', 'B$1:$B1',
    # mixtures, syntax errors and blanks
    '', ' ', '1', '1+', '(', 'A1:', ':A1', 'A1:B', '#REF!', '#N/A', '#BOGUS', '"A1"', "'A1:B2'", '1 2',
    'SUM(A1:B2', 'num num', 'A1 B1', '{1,2,3}', '{A1,B1}', '{num;txt}', '@', 'A1:B2:C3', '$$A1', 'A$$1',
]


def run_formulas():
    for config in ('bare', 'record', 'sheet', 'override', 'double', 'raising'):
        events = []
        parser, host = make(config, events)
        snapshot = show(host)
        for formula in FORMULAS:
            del events[:]
            outcome = parser.parse(formula)
            line(config, repr(formula), outcome, events)
            # a fresh parser has to agree with the long-lived one
            fresh_events = []
            fresh, fresh_host = make(config, fresh_events)
            fresh_outcome = fresh.parse(formula)
            # APPEND mutates its argument on purpose (a host function): restore, so that the two stay comparable
            once = lambda evs: [e for e in evs if e[0] != 'once']  # fires on the first call only, by design
            same = show(fresh_outcome) == show(outcome) and show(once(fresh_events)) == show(once(events))
            if not same:
                line(config + '/fresh-differs', repr(formula), fresh_outcome, fresh_events)
            for h in (host, fresh_host):
                if h['lst'] != [1, 2, 3]:
                    del h['lst'][3:]
                if h['nested'] != [[1, 2], [3, 4]]:
                    del h['nested'][2:]
        line(config, 'host values unchanged', snapshot == show(host), [])
        line(config, 'variables', sorted(parser.variables.keys()), [])
        line(config, 'functions', sorted(parser.functions.keys()), [])
        line(config, 'listeners', sorted((k, len(v)) for k, v in parser._e.items()), [])


def attempt(tag, text, fn):
    events = CURRENT_EVENTS
    del events[:]
    try:
        outcome = fn()
    except BaseException as e:  # noqa
        outcome = ('raised', e)
    line(tag, text, outcome, events)


CURRENT_EVENTS = []


def run_direct():
    """ The callbacks are public methods: call them the way the grammar does, and in a few ways it does not """
    for config in ('bare', 'record', 'sheet', 'override', 'double', 'raising'):
        parser, host = make(config, CURRENT_EVENTS)
        tag = 'direct/' + config
        for name, args in [('SUM', [1, 2]), ('SUM', None), ('SUM', []), ('SUM', (1, 2)), ('TWICE', [3]),
                           ('TWICE', [None]), ('BOOM', None), ('XLBOOM', [1]), ('NARGS', [None, None]),
                           ('NONE', None), ('nope', None), ('nope', [1]), ('sum', [1]), ('', None),
                           (None, None), ('ECHO', [host['lst']]), ('APPEND', [[5]]), ('TWICE', [1, 2]),
                           ('SUM', [[1, [2, 3]], 4]), ('SUM', 'ab'), ('SUM', 5)]:
            if args is None:
                attempt(tag, 'call_function(%r)' % (name,), lambda: parser.call_function(name))
            else:
                attempt(tag, 'call_function(%r, %s)' % (name, show(args)), lambda: parser.call_function(name, args))
        for name in ['num', 'txt', 'lst', 'nothing', 'empty', 'zero', 'no', 'err', 'ghost', 'phantom',
                     'missing', 'TRUE', 'NULL', '', None, 1, ('a',)]:
            attempt(tag, 'call_variable(%r)' % (name,), lambda: parser.call_variable(name))
        for label in ['A1', 'a1', '$a$1', '$B2', 'b$2', 'A5', 'AA10', 'A0', 'A', '1', '', 'A1:B2', '$$A1',
                      'A1 ', None, 5, 'ß1']:
            attempt(tag, 'call_cell_value(%r)' % (label,), lambda: parser.call_cell_value(label))
        for a, b in [('A1', 'B2'), ('B2', 'A1'), ('a2', 'b1'), ('b1', 'a2'), ('$B$2', '$A$1'), ('$B2', 'A$1'),
                     ('A$1', '$B2'), ('B$1', '$B1'), ('$B1', 'B$1'), ('A1', 'A1'), ('A1', '$A$1'), ('$A$1', 'A1'),
                     ('A0', 'A1'), ('A1', 'A0'), ('A0', '$A0'), ('AA1', 'Z1'), ('Z1', 'AA1'), ('A10', 'A9'),
                     (None, 'A1'), ('A1', None), (None, None), ('A', 'B1'), ('A1', 'B'), ('', ''), ('A1', ''),
                     ('A1', 5), (5, 'A1'), ('B1', 'B5'), ('B5', 'B1')]:
            attempt(tag, 'call_range_value(%r, %r)' % (a, b), lambda: parser.call_range_value(a, b))
        # the cells handed to the listeners are fresh objects each time, and distinct from each other
        seen = []
        probe = Parser()
        probe.on('callRangeValue', lambda s, e, setter: seen.append((s, e)))
        probe.call_range_value('B2', 'A1')
        probe.call_range_value('B2', 'A1')
        (s1, e1), (s2, e2) = seen
        line(tag, 'range cells fresh', (s1 is not s2, e1 is not e2, s1 is not e1, repr(s1) == repr(s2)), [])
        # a setter kept by a listener has no effect on later evaluations
        kept = []
        probe = Parser()
        probe.on('callVariable', lambda name, setter: kept.append(setter))
        probe.set_variable('v', 1)
        first = probe.parse('v')
        kept[0](1000)
        second = probe.parse('v')
        line(tag, 'kept setter', (first, second, len(kept), kept[0] is not kept[1]), [])


def run_debug():
    """ debug on: same outcomes; what goes to stderr is reduced to the exception line of each traceback """
    for config in ('bare', 'sheet', 'raising'):
        events = []
        parser, host = make(config, events, debug=True)
        for formula in ['SUM(1,2)', 'BOOM()', 'XLBOOM()', 'SQRT(-1)', 'ghost', 'txt', 'A1', 'A1:B2', 'B2:A1',
                        'NARGS(1)', '1+', 'UNKNOWNFN()', 'LOG(0)', 'num/zero', '']:
            del events[:]
            err = io.StringIO()
            with contextlib.redirect_stderr(err):
                outcome = parser.parse(formula)
            tb = [l for l in err.getvalue().splitlines() if l and not l.startswith(' ') and not l.startswith('Traceback')]
            line('debug/' + config, repr(formula), outcome, events + [('stderr', tb)])


if __name__ == '__main__':
    run_formulas()
    run_direct()
    run_debug()
    print('evaluations: %d' % COUNT[0])
