# -*- coding: utf-8 -*-
"""
Probe for C12 refactoring 4 (information.py: module-level constants for the error type, the
error values and the type tuples; ERROR.TYPE table hoisted; guard-style ISERR / ISNUMBER /
ISEVEN / ISODD).

Prints one line per evaluation: the input and repr() of the outcome, for formulas also the
callFunction events that were seen. Deterministic: no time, no randomness without a seed,
no memory addresses.
"""
from __future__ import print_function
import os
import sys
import random
import datetime
import decimal
import fractions

sys.path.insert(0, os.path.dirname(os.path.dirname(os.path.abspath(__file__))))

import hotxlfp  # noqa: E402
from hotxlfp.formulas import error, information  # noqa: E402
from hotxlfp import formulas  # noqa: E402

COUNT = [0]
TRACE = []


def show(value):
    """ repr without memory addresses """
    if type(value) is error.XLError:
        return 'XLError(%r)' % (str(value),)
    if type(value) is list:
        return '[' + ', '.join(show(v) for v in value) + ']'
    if type(value) is tuple:
        return '(' + ', '.join(show(v) for v in value) + (',)' if len(value) == 1 else ')')
    if type(value) is dict:
        return '{' + ', '.join('%s: %s' % (show(k), show(value[k])) for k in sorted(value)) + '}'
    return repr(value)


class Loud(object):
    """ a value that records every comparison, truth test and conversion made on it """

    def __init__(self, name):
        self.name = name

    def __bool__(self):
        TRACE.append('bool(%s)' % self.name)
        return True

    def __eq__(self, other):
        TRACE.append('%s==%s' % (self.name, show(other)))
        return 'eq-result'

    def __ne__(self, other):
        TRACE.append('%s!=%s' % (self.name, show(other)))
        return 'ne-result'

    def __int__(self):
        TRACE.append('int(%s)' % self.name)
        return 7

    def __hash__(self):
        TRACE.append('hash(%s)' % self.name)
        return 12

    def __repr__(self):
        return 'Loud(%s)' % self.name


class LoudError(error.XLError):
    """ an error value whose comparisons are recorded and answer with non-booleans """

    def __eq__(self, other):
        TRACE.append('%r==%s' % (self, show(other)))
        return ['eq']

    def __ne__(self, other):
        TRACE.append('%r!=%s' % (self, show(other)))
        return []

    def __hash__(self):
        TRACE.append('hash(%r)' % (self,))
        return hash(error.NULL)

    def __repr__(self):
        return 'LoudError(%r)' % (str(self),)


class MyError(error.XLError):

    def __repr__(self):
        return 'MyError(%r)' % (str(self),)


class MyInt(int):

    def __repr__(self):
        return 'MyInt(%d)' % int(self)


class LoudInt(int):
    """ an int whose conversion is recorded """

    def __int__(self):
        TRACE.append('int(LoudInt)')
        return 4

    def __repr__(self):
        return 'LoudInt(%d)' % int.__int__(self)


class MyFloat(float):

    def __repr__(self):
        return 'MyFloat(%r)' % float(self)


class MyComplex(complex):

    def __repr__(self):
        return 'MyComplex(%r)' % complex(self)


class MyStr(str):

    def __repr__(self):
        return 'MyStr(%s)' % str.__repr__(self)


class MyDateTime(datetime.datetime):
    pass


class Pretender(object):
    """ claims to be an int through __class__ without being one """
    __class__ = int

    def __repr__(self):
        return 'Pretender()'


def line(label, outcome, extra=None):
    COUNT[0] += 1
    text = '%04d %s -> %s' % (COUNT[0], label, outcome)
    if extra:
        text += ' | ' + extra
    print(text)


def direct(fn, *args):
    """ call a formula function directly with python values """
    del TRACE[:]
    label = '%s(%s)' % (fn.__name__, ', '.join(show(a) for a in args))
    try:
        result = fn(*args)
        outcome = '%s %s' % (type(result).__name__, show(result))
    except BaseException as e:  # noqa
        outcome = 'raised %s(%s)' % (type(e).__name__, show(e.args))
    line(label, outcome, ' '.join(TRACE) if TRACE else None)


def make_parser(variables, cells):
    parser = hotxlfp.Parser()
    events = []
    for name, value in variables:
        parser.set_variable(name, value)

    def on_function(name, args, setter):
        events.append('%s%s' % (name, show(list(args))))

    def on_cell(cell, setter):
        events.append('cell:%s' % cell.label)
        setter(cells.get(cell.label))

    def on_range(start, end, setter):
        events.append('range:%s:%s' % (start.label, end.label))
        rows = []
        for r in range(start.row.index, end.row.index + 1):
            row = []
            for c in range(start.col.index, end.col.index + 1):
                row.append(cells.get('%s%d' % (chr(ord('A') + c), r + 1)))
            rows.append(row)
        setter(rows)

    parser.on('callFunction', on_function)
    parser.on('callCellValue', on_cell)
    parser.on('callRangeValue', on_range)
    return parser, events


def formula(parser, events, tag, expression):
    del events[:]
    del TRACE[:]
    try:
        ret = parser.parse(expression)
        outcome = show(ret)
    except BaseException as e:  # noqa
        outcome = 'raised %s(%s)' % (type(e).__name__, show(e.args))
    seen = list(events)
    if TRACE:
        seen.append('trace: ' + ' '.join(TRACE))
    line('%s %r' % (tag, expression), outcome, '; '.join(seen) if seen else None)


ERRORS = [
    ('ENA', error.NOT_AVAILABLE), ('EDIV', error.DIV_ZERO), ('EVAL', error.VALUE),
    ('ENUM', error.NUM), ('EREF', error.REF), ('ENAME', error.NAME), ('ENULL', error.NULL),
    ('EERR', error.ERROR), ('EDATA', error.DATA),
]

VARIABLES = [
    ('ZERO', 0), ('ONE', 1), ('TWO', 2), ('NEG', -3), ('NEGEVEN', -4), ('HALF', 0.5), ('FZERO', 0.0),
    ('NEGZERO', -0.0), ('ODDF', 3.999), ('EVENF', -2.5), ('ALMOST', 0.9999999999999999),
    ('BIG', 10 ** 30), ('BIGODD', 10 ** 30 + 1), ('BIGF', 1e300), ('TINY', 1e-300),
    ('MAXSAFE', 2 ** 53), ('MAXSAFEODD', 2 ** 53 - 1),
    ('INF', float('inf')), ('NINF', float('-inf')), ('NANV', float('nan')),
    ('CPLX', 1 + 2j), ('CZERO', 0j),
    ('EMPTY', ''), ('TXT', 'abc'), ('TXTNUM', '12'), ('TXTERR', '#N/A'), ('TXTTRUE', 'TRUE'), ('SPACE', ' '),
    ('UNI', u'é中'),
    ('T', True), ('F', False), ('BLANK', None),
    ('LST', [1, 0, 'x']), ('EMPTYLST', []), ('LSTNA', [error.NOT_AVAILABLE]), ('TUP', (2,)), ('DCT', {'a': 1}),
    ('DATE', datetime.datetime(2020, 2, 29, 12, 0, 0)), ('DATE1900', datetime.datetime(1900, 1, 1)),
    ('DAY', datetime.date(2020, 2, 29)), ('DELTA', datetime.timedelta(days=2)),
    ('DEC', decimal.Decimal('2')), ('FRAC', fractions.Fraction(3, 1)), ('BYTES', b'ab'),
] + ERRORS

CELLS = {
    'A1': 1, 'B1': 0, 'C1': 'text', 'A2': True, 'B2': False, 'C2': None,
    'A3': error.DIV_ZERO, 'B3': 2.5, 'C3': '', 'A4': error.NOT_AVAILABLE, 'B4': 7, 'C4': -8,
}

PREDICATES = ['ISNUMBER', 'ISTEXT', 'ISLOGICAL', 'ISBLANK', 'ISERROR', 'ISERR', 'ISNA', 'ISNONTEXT',
              'ISEVEN', 'ISODD', 'ERROR.TYPE', 'N', 'T']

OPERANDS = [
    '0', '1', '2', '-1', '-2', '3.7', '-3.7', '2.5', '0.5', '.5', '50%', '2^3', '1000000007', '123456789012345678901234567890',
    '"a"', '""', '"12"', '" "', '"#N/A"', '"TRUE"', 'TRUE', 'FALSE', 'TRUE()', 'FALSE()',
    '1/0', 'NA()', 'SQRT(-1)', '"a"+1', 'UNKNOWNFN()', 'IF(,,)', '{1}', '{1,2}', '{"a";"b"}', '1=1', '1>2', '"a"&"b"', '1&2',
    '-"3"', '1+TRUE', 'A1', 'B1', 'C1', 'A2', 'B2', 'C2', 'A3', 'B3', 'C3', 'A4', 'B4', 'C4', 'Z99', 'A1:B2', 'A4:C4',
]

EXTRA_FORMULAS = [
    'ISNUMBER()', 'ISTEXT()', 'ISBLANK()', 'ISERROR()', 'NA()', 'NA(1)', 'ISNUMBER(1,2)', 'ISEVEN()', 'ISODD(1,2)',
    'ISBLANK(,)', 'ISNUMBER(,1)', 'ISTEXT("a",)', 'ERROR.TYPE()', 'N()', 'T()', 'T(1,2)',
    'ISERROR(ISEVEN("a"))', 'ISERR(ISODD("a"))', 'ISNA(ISEVEN("a"))', 'ERROR.TYPE(ISEVEN("a"))', 'ERROR.TYPE(ISODD(TXT))',
    'ISEVEN(ISEVEN(2))', 'ISODD(ISODD(3))', 'ISEVEN(ISODD(3))', 'ISODD(ISODD(2))', 'ISLOGICAL(ISODD(3))', 'ISNUMBER(ISODD(3))',
    'ISLOGICAL(ISEVEN(3))', 'ISNUMBER(ISEVEN(3))', 'ISODD(3)=TRUE', 'ISODD(3)=1', 'ISODD(3)+ISODD(5)', 'ISEVEN(2)+ISEVEN(4)',
    'IF(ISODD(3),"odd","even")', 'IF(ISODD(4),"odd","even")', 'IF(ISEVEN(4),"even","odd")', 'IF(ISEVEN("x"),"even","odd")',
    'AND(ISNUMBER(1),ISTEXT("a"),ISLOGICAL(TRUE),ISBLANK(C2),ISERROR(1/0))', 'OR(ISNUMBER("a"),ISTEXT(1))',
    'XOR(ISEVEN(2),ISODD(2))', 'XOR(ISEVEN(3),ISODD(3))', 'NOT(ISTEXT("a"))=ISNONTEXT("a")', 'NOT(ISTEXT(1))=ISNONTEXT(1)',
    'ISERROR(1/0)=OR(ISERR(1/0),ISNA(1/0))', 'ISERROR(NA())=OR(ISERR(NA()),ISNA(NA()))', 'ISERROR(1)=OR(ISERR(1),ISNA(1))',
    'IFERROR(ERROR.TYPE(1),"none")', 'IFNA(ERROR.TYPE(1),"none")', 'ERROR.TYPE(ERROR.TYPE(1))', 'ISNA(ERROR.TYPE("x"))',
    'ISNA(NA())', 'ISERR(NA())', 'ISERROR(NA())', 'ISNA(IFS(FALSE,1))', 'ISNA(SWITCH(1,2,3))', 'ISNA(VLOOKUP(9,{1,2;3,4},2,FALSE))',
    'N(NA())', 'T(NA())', 'N(N(TRUE))', 'T(T("x"))', 'T(N("x"))', 'N(T(1))', 'N("7")', 'N(7)', 'N(1=1)', 'N(1=2)', 'N(-2.5)',
    'N(DATE)', 'N(DATE1900)', 'N(DAY)', 'N(DELTA)', 'T(DATE)', 'ISNUMBER(DATE)', 'ISTEXT(DATE)', 'ISEVEN(DATE)', 'ISNUMBER(N(DATE))',
    'isnumber(1)', 'IsText("a")', 'iseven(2)', 'error.type(1/0)', 'ISEVEN(1', 'ISTEXT(#REF!)', 'ISERROR(#DIV/0!)', 'ISNUMBER(UNKNOWNVAR)',
    'SUM(ISODD(1),ISODD(3),ISODD(4))', 'ISEVEN(SUM(1,2,3))', 'ISODD(LEN("abc"))', 'ISNUMBER(LEN("abc"))', 'ISTEXT(CONCATENATE("a",1))',
]


def build_formulas():
    out = []
    for fn in PREDICATES:
        for operand in OPERANDS:
            out.append('%s(%s)' % (fn, operand))
        for name, _ in VARIABLES:
            out.append('%s(%s)' % (fn, name))
    return out + EXTRA_FORMULAS


def run_formulas():
    all_formulas = build_formulas()
    p1, e1 = make_parser(VARIABLES, CELLS)
    p2, e2 = make_parser(VARIABLES, CELLS)
    for expression in all_formulas:
        formula(p1, e1, 'p1', expression)
    for expression in reversed(all_formulas[::7]):
        formula(p2, e2, 'p2', expression)
    rnd = random.Random(1204)
    for expression in rnd.sample(all_formulas, 80):
        formula(p1, e1, 'p1 again', expression)
    # a listener that overrides some results, and a user function that shadows a built-in
    p3, e3 = make_parser(VARIABLES, CELLS)

    def override(name, args, setter):
        if name == 'ISNUMBER':
            setter('overridden')
        if name == 'ISODD':
            setter(None)
        if name == 'NA':
            setter(error.REF)
    p3.on('callFunction', override)
    for expression in ('ISNUMBER(1)', 'ISTEXT(ISNUMBER(1))', 'ISODD(3)', 'ISODD("a")', 'ISNA(NA())', 'ISERR(NA())',
                       'ERROR.TYPE(NA())', 'ISEVEN(3)'):
        formula(p3, e3, 'p3', expression)
    p3.set_function('ISEVEN', lambda *a: 'mine')
    formula(p3, e3, 'p3', 'ISEVEN(3)')
    formula(p3, e3, 'p3', 'ISTEXT(ISEVEN(3))')


def run_direct():
    na, div = error.NOT_AVAILABLE, error.DIV_ZERO
    values = [v for _, v in VARIABLES] + [
        -1, 3, 10 ** 40 + 1, -(10 ** 40), 2.0, 3.0, -3.0, 1e16, 1e16 + 2, 2.5 + 0j,
        MyInt(3), MyInt(4), LoudInt(5), MyFloat(2.9), MyFloat('nan'), MyComplex(1j), MyStr('s'), MyStr(''),
        MyDateTime(2001, 1, 1), MyError('#MINE!'), MyError('#N/A'), error.XLError('#N/A'), error.XLError('#DIV/0!'),
        LoudError('#LOUD!'), Loud('x'), Pretender(),
        RuntimeError('#N/A'), ValueError('v'), error.XLError, int, str, bool, type(None), NotImplemented, Ellipsis,
        (), (na,), [na], [[]], {na: 1}, set(), frozenset([2]), range(3), bytearray(b'q'),
        decimal.Decimal('NaN'), fractions.Fraction(1, 2), len, 'ISNUMBER',
    ]
    fns = [information.ISNUMBER, information.ISTEXT, information.ISLOGICAL, information.ISBLANK, information.ISERROR,
           information.ISERR, information.ISNA, information.ISNONTEXT, information.ISEVEN, information.ISODD,
           information.ERROR_TYPE, information.N, information.T]
    for fn in fns:
        for v in values:
            direct(fn, v)
        direct(fn)
        direct(fn, 1, 2)
    direct(information.NA)
    direct(information.NA, 1)
    # the classification is exclusive: count the predicates that hold for each value
    names = ['ISNUMBER', 'ISTEXT', 'ISLOGICAL', 'ISBLANK', 'ISERROR']
    for v in values:
        if isinstance(v, (Loud, LoudError)):
            continue
        held = [n for n in names if formulas.get_for(n)(v) is True]
        line('classes of %s' % show(v), repr(held))
    # parity of the integer part, complementary
    rnd = random.Random(4)
    samples = [rnd.choice([1, -1]) * rnd.random() * 10 ** rnd.randint(0, 18) for _ in range(40)]
    samples += [rnd.randint(-10 ** 20, 10 ** 20) for _ in range(20)]
    for v in samples:
        even, odd = information.ISEVEN(v), information.ISODD(v)
        line('parity %r' % (v,), '%s %r / %s %r' % (type(even).__name__, even, type(odd).__name__, odd))
    # registry and repeated calls: nothing outlives a call
    for name in PREDICATES + ['NA']:
        fn = formulas.get_for(name)
        line('registry %s' % name, '%s from %s' % (fn.__name__, fn.__module__))
    for _ in range(3):
        for name, err in ERRORS:
            direct(information.ERROR_TYPE, err)
    line('NA() is the shared #N/A', repr(information.NA() is error.NOT_AVAILABLE))
    line('ISEVEN("a") is the shared #VALUE!', repr(information.ISEVEN('a') is error.VALUE))
    line('ISODD(None) is the shared #VALUE!', repr(information.ISODD(None) is error.VALUE))
    line('ERROR.TYPE(1) is the shared #N/A', repr(information.ERROR_TYPE(1) is error.NOT_AVAILABLE))
    line('N(err) is err', repr(information.N(div) is div))
    line('T(err) is err', repr(information.T(div) is div))
    line('public names of the module',
         repr(sorted(n for n in dir(information) if not n.startswith('_') and n.isupper())))


if __name__ == '__main__':
    run_formulas()
    run_direct()
    print('total evaluations: %d' % COUNT[0])
