# -*- coding: utf-8 -*-
"""
Probe for C01 refactoring 3 (value holders handed to the event listeners).

Prints a deterministic transcript: one line per evaluation with the input, the
repr() of the outcome and the events seen while evaluating it.
"""
import contextlib
import io
import os
import sys

sys.path.insert(0, os.path.dirname(os.path.dirname(os.path.abspath(__file__))))

import hotxlfp  # noqa: E402
from hotxlfp import Parser  # noqa: E402
from hotxlfp.formulas import error as xlerror  # noqa: E402

ALL_ERRORS = (xlerror.ERROR, xlerror.DIV_ZERO, xlerror.NAME, xlerror.NOT_AVAILABLE, xlerror.NULL,
              xlerror.NUM, xlerror.REF, xlerror.VALUE, xlerror.DATA)

COUNT = [0]


class Boom(Exception):
    pass


# --------------------------------------------------------------------------- formulas

FORMULAS = [
    # blanks, literals, text, logicals
    '', ' ', '   ', '1', '0', '-1', '--1', '1.5', '.5', '1.', '007', '1e3', '10%', '2^3', '2^0.5',
    '"text"', "'text'", '""', '"a""b"', '"#N/A"', '"1"+1', '"a"+1', 'TRUE', 'FALSE', 'NULL', 'true',
    'TRUE+1', 'TRUE&FALSE', 'NULL&NULL', 'NULL+1', '1&2', '"a"&"b"&1.5', '1&#N/A', '#REF!&1',
    # arithmetic and comparison
    '1+2', '1-2', '2*3', '7/2', '1/0', '0/0', '(1+2)*3', '((1))', '1+2*3-4/5', '-(2+3)', '-"a"',
    '1=1', '1<>1', '1<2', '2<=2', '3>4', '4>=5', '"a"="A"', '"a"<"b"', 'TRUE>1', '1="1"', 'NULL=0',
    '9999999999999999*9999999999999999', '1/3', '0.1+0.2', '2^1000', '1e308*10', '-0',
    # error literals
    '#ERROR!', '#DIV/0!', '#NAME?', '#N/A', '#NULL!', '#NUM!', '#REF!', '#VALUE!', '#GETTING_DATA',
    '#FOO!', '#', '#N/A+1', '1+#DIV/0!', '#NUM!=#NUM!', '-#VALUE!', '(#REF!)', '{#N/A,1}',
    # syntax errors and odd characters
    '1+', '+', '(', ')', '((1)', '1 2', '"unterminated', '1,2', ';', '@', '~1', '1 + + 2', 'A1:',
    ':A1', '1..2', 'SUM(', 'SUM)', '{', '}', '{}', '!', '\\', 'é', 'a.b.c', 'a.b(', '$', '$A', '?',
    # arrays
    '{1,2,3}', '{1;2;3}', '{1,2;3,4}', '{1\\2\\3}', '{1\\2;3\\4}', '{,}', '{;;}', '{1,,2}', '{,1}',
    '{1,}', '{1,2}+1', '1+{1,2}', '{1,2}+{3,4}', '{1,2}+{1,2,3}', '{1,2}*2', '{1,2}/0', '{"a",TRUE}',
    '{1,2}&"x"', '{1,2}={1,2}', '-{1,2}',
    # built-in functions
    'SUM(1,2,3)', 'SUM()', 'SUM({1,2,3})', 'SUM(1,"a")', 'SUM(,)', 'SUM(1,,2)', 'SUM(1;2)', 'sum(1,2)',
    'Sum(1)', 'AVERAGE(1,2,3,4)', 'AVERAGE()', 'MAX(1,2)', 'MIN()', 'ABS(-3)', 'ABS()', 'ABS(1,2)',
    'ABS("a")', 'SQRT(-1)', 'SQRT(4)', 'LN(0)', 'LOG(0)', 'LOG10(-1)', 'ACOS(2)', 'EXP(1000)',
    'FACT(-1)', 'FACT(200)', 'POWER(0,-1)', 'POWER(2,10)', 'MOD(5,0)', 'MOD(5,3)', 'ROUND(2.567,2)',
    'IF(TRUE,1,2)', 'IF(FALSE,1,2)', 'IF(1/0,1,2)', 'IF(TRUE,#N/A,2)', 'IF()', 'IFERROR(1/0,"e")',
    'IFERROR(#N/A,0)', 'ISERROR(1/0)', 'ISNA(#N/A)', 'ISBLANK(NULL)', 'NA()', 'AND(TRUE,FALSE)',
    'OR(FALSE,FALSE)', 'NOT(TRUE)', 'CONCATENATE("a","b",1)', 'LEN("abc")', 'LEFT("abc",2)',
    'UPPER("abc")', 'TRIM("  a  b ")', 'REPT("ab",3)', 'MID("abcdef",2,3)', 'VALUE("12")',
    'VALUE("abc")', 'TEXT(1,"0")', 'PI()', 'SIN(0)', 'COS(0)', 'INT(2.7)', 'SUM(SUM(1,2),SUM(3,4))',
    'SUM(IF(TRUE,{1,2},0))', 'DATE(2020,1,31)', 'YEAR(DATE(2020,1,31))', 'DATE(2020,1,31)+1',
    'DATE(2020,1,31)-DATE(2020,1,1)', 'COUNT(1,"a",TRUE)', 'COUNTA(1,"a",NULL)', 'MEDIAN(3,1,2)',
    'CHOOSE(2,"a","b")', 'CHOOSE(5,"a")', 'MATCH(2,{1,2,3},0)', 'INDEX({1,2,3},2)', 'DEC2BIN(5)',
    'HEX2DEC("FF")', 'BIN2DEC("2")', 'PMT(0.1,10,1000)', 'NPV(0.1,1,2,3)', 'UNKNOWNFN()',
    'UNKNOWNFN(1,2)', 'NOSUCH.FN(1)', 'SUM(UNKNOWNFN())', 'SUM(1', 'SUM(#N/A)', 'SUM(1,#REF!)',
    # custom functions
    'ONE()', 'ONE(1)', 'ECHO(5)', 'ECHO()', 'ECHO("x")', 'ECHO({1,2})', 'ECHO(NULL)', 'ECHO(#N/A)',
    'ARGS()', 'ARGS(1)', 'ARGS(1,2,3)', 'ARGS(,)', 'ARGS(1,,3)', 'ARGS({1,2},"a",TRUE,NULL)',
    'NONE()', 'NONE()+1', 'NONE()&"x"', 'RAISEZERO()', 'RAISEVALUE()', 'RAISEKEY()', 'RAISEBOOM()',
    'RAISEMSG("#NUM!")', 'RAISEMSG("#REF!")', 'RAISEMSG("#N/A")', 'RAISEMSG("#GETTING_DATA")',
    'RAISEMSG("other")', 'RAISEMSG("")', 'RAISEXL(1)', 'RAISEXL(2)', 'RAISEXL(3)', 'RAISEXL(9)',
    'RETXL(1)', 'RETXL(5)', 'RETXL(8)', 'RETXL(1)+1', 'IFERROR(RETXL(4),"caught")',
    'IFERROR(RAISEXL(4),"caught")', 'IFERROR(RAISEZERO(),"caught")', 'ISERROR(RAISEBOOM())',
    'RETXLLIST()', 'SUM(RETXLLIST())', 'RETCUSTOMXL()', 'RETNEWXL("#NUM!")', 'RETNEWXL("weird")',
    'RECURSE(3)', 'SUM(ONE(),ECHO(2),ARGS(1,2))', 'OVERRIDDEN(1)', 'OVERRIDDEN()', 'SUM(1,2)+OVERRIDDEN(3)',
    # variables
    'x', 'y', 'x+y', 'x*2', 'name', 'name&"!"', 'flag', 'blank', 'blank+1', 'blank&"a"', 'lst',
    'SUM(lst)', 'lst+1', 'errvar', 'errvar+1', 'IFERROR(errvar,0)', 'undefined_name', 'undefined_name+1',
    'SUM(undefined_name)', 'IFERROR(undefined_name,0)', 'frm_listener', 'frm_listener*2', 'a.b',
    'x.y.z', '_', '__x', 'X', 'zero', 'zero+0', 'IF(zero,1,2)', 'emptytext', 'emptytext&"a"', 'falsy',
    # cells
    'A1', 'a1', '$A$1', '$A1', 'A$1', 'B2', 'C3', 'D4', 'E5', 'F6', 'G7', 'Z99', 'AA1', 'ZZ100', 'A0',
    'A1+B2', 'A1&B2', 'SUM(A1,B2)', 'A1=B2', '-A1', 'D4+1', 'E5+1', 'F6', 'IFERROR(F6,"e")', 'G7&"x"',
    'H8', 'H8+1', 'I9', 'J10', 'K11', 'L12', 'ABC123', 'XFD1048576', 'A00001',
    # ranges
    'A1:B2', 'B2:A1', 'A2:B1', 'B1:A2', '$A$1:$B$2', '$B$2:A1', 'A$1:$B2', '$B2:A$1', 'A1:A1', 'a1:b2',
    'SUM(A1:B2)', 'SUM(B2:A1)', 'SUM(A1:C3)', 'A1:B2+1', 'SUM(A1:B2,C3)', 'COUNT(A1:C3)', 'D1:D3',
    'SUM(D1:D3)', 'E1:F2', 'SUM(E1:F2)', 'A0:B0', 'AA10:A1', 'Z1:A26', 'A1:B', 'A1:B2:C3',
    'MAX(A1:C3)-MIN(A1:C3)', 'INDEX(A1:C3,2)', 'A1:XFD2',
]


# --------------------------------------------------------------------------- custom functions

def make_functions(parser):
    def raise_exc(exc):
        raise exc

    def recurse(n):
        out = parser.parse('1+%d' % n)
        return repr(out)

    funcs = {
        'ONE': lambda: 1,
        'ECHO': lambda v: v,
        'ARGS': lambda *a: len(a),
        'NONE': lambda: None,
        'RAISEZERO': lambda: 1 // 0,
        'RAISEVALUE': lambda: raise_exc(ValueError('bad value')),
        'RAISEKEY': lambda: raise_exc(KeyError('#NUM!')),
        'RAISEBOOM': lambda: raise_exc(Boom('#DIV/0!')),
        'RAISEMSG': lambda m: raise_exc(Exception(m)),
        'RAISEXL': lambda i: raise_exc(ALL_ERRORS[int(i) - 1]),
        'RETXL': lambda i: ALL_ERRORS[int(i) - 1],
        'RETXLLIST': lambda: [1, xlerror.NOT_AVAILABLE, 3],
        'RETCUSTOMXL': lambda: xlerror.XLError('#CUSTOM!'),
        'RETNEWXL': lambda m: xlerror.XLError(m),
        'RECURSE': recurse,
        'OVERRIDDEN': lambda *a: 'original',
    }
    return funcs


VARIABLES = {
    'x': 3, 'y': 4.5, 'name': 'bob', 'flag': True, 'blank': None, 'lst': [1, 2, 3],
    'errvar': xlerror.NUM, 'zero': 0, 'emptytext': '', 'falsy': False, '_': 'underscore', 'X': 'upper x',
}


def setup(parser):
    for k, v in make_functions(parser).items():
        parser.set_function(k, v)
    for k, v in VARIABLES.items():
        parser.set_variable(k, v)
    return parser


# --------------------------------------------------------------------------- listeners

def short(v):
    return repr(v)


def install_logging_listeners(parser, events):
    """Listeners that log every event, answer some of them and misbehave on others."""

    def on_cell(cell, setter):
        events.append('cell(%s|%r|%r|callable=%r)' % (cell.label, tuple(cell.row), tuple(cell.col), callable(setter)))
        label = cell.label.replace('$', '')
        answers = {'A1': 1, 'B2': 2.5, 'C3': 'three', 'D4': True, 'E5': None, 'F6': xlerror.NOT_AVAILABLE,
                   'G7': '', 'H8': [1, 2], 'I9': 0, 'J10': False, 'A2': 10, 'B1': 20, 'D1': 1, 'D2': 2, 'D3': 3}
        if label in answers:
            events.append('cell.set->%r' % (setter(answers[label]),))
        elif label == 'K11':
            # several writes: the last non-None one wins
            setter('first')
            setter(None)
            setter('last')
            setter(None)
        elif label == 'L12':
            raise Boom('listener exploded')
        elif label == 'ABC123':
            raise xlerror.REF
        elif label == 'Z99':
            raise ValueError('#NUM!')

    def on_range(start, end, setter):
        events.append('range(%s:%s|%r|%r|%r|%r|callable=%r)' % (
            start.label, end.label, tuple(start.row), tuple(start.col), tuple(end.row), tuple(end.col), callable(setter)))
        rows = range(start.row.index, end.row.index + 1)
        cols = range(start.col.index, end.col.index + 1)
        if end.col.index - start.col.index > 50:
            raise Boom('range too wide')
        if start.label.replace('$', '') == 'E1':
            setter([[1, xlerror.DIV_ZERO], [None, 'x']])
            return
        if start.row.index < 0:
            return  # leave the value alone
        setter([[(r + 1) * 10 + (c + 1) for c in cols] for r in rows])

    def on_variable(name, setter):
        events.append('var(%s|callable=%r)' % (name, callable(setter)))
        if name == 'frm_listener':
            setter(42)
        elif name == 'x':
            setter(None)  # keeps the registered value
        elif name == 'y':
            setter(100)  # overrides the registered value
        elif name == 'zero':
            setter(0)
        elif name == 'falsy':
            setter('')
        elif name == '__x':
            raise KeyError('nope')
        elif name == 'X':
            setter(xlerror.NULL)

    def on_function(name, args, setter):
        events.append('fn(%s|%s|callable=%r)' % (name, short(args), callable(setter)))
        if name == 'OVERRIDDEN':
            setter('overridden:%d' % len(args))
        elif name == 'PI':
            setter(None)
        elif name == 'NA':
            setter('not an error any more')
        elif name == 'SQRT':
            setter(0)
        elif name == 'LEN':
            raise Boom('#N/A')
        elif name == 'UPPER':
            raise xlerror.DATA
        elif name == 'RAISEVALUE':
            setter('rescued')
        elif name == 'NONE':
            setter(False)

    parser.on('callCellValue', on_cell)
    parser.on('callRangeValue', on_range)
    parser.on('callVariable', on_variable)
    parser.on('callFunction', on_function)
    return parser


def install_second_layer(parser, events):
    """A second set of listeners: runs after the first, sometimes overriding it, some only once."""

    def cell2(cell, setter, tag='t'):
        events.append('cell2(%s|%s)' % (cell.label, tag))
        if cell.label == 'A1':
            setter('A1 from second')
        if cell.label == 'B2':
            setter(None)

    def var2(name, setter):
        events.append('var2(%s)' % name)
        if name == 'undefined_name':
            setter('defined by second listener')

    def fn_once(name, args, setter):
        events.append('fn_once(%s)' % name)
        setter('once')

    def range_once(start, end, setter):
        events.append('range_once(%s:%s)' % (start.label, end.label))

    parser.on('callCellValue', cell2, {'tag': 'ctx'})
    parser.on('callVariable', var2)
    parser.once('callFunction', fn_once)
    parser.once('callRangeValue', range_once)
    return parser


def install_late_setter(parser, events, kept):
    """Keeps the setters and calls them again after parse returned: must not leak into later calls."""

    def on_cell(cell, setter):
        events.append('keep.cell(%s)' % cell.label)
        kept.append(setter)
        setter(len(kept))

    def on_variable(name, setter):
        events.append('keep.var(%s)' % name)
        kept.append(setter)

    def on_function(name, args, setter):
        events.append('keep.fn(%s)' % name)
        kept.append(setter)

    def on_range(start, end, setter):
        events.append('keep.range(%s:%s)' % (start.label, end.label))
        kept.append(setter)
        setter([[len(kept)]])

    parser.on('callCellValue', on_cell)
    parser.on('callVariable', on_variable)
    parser.on('callFunction', on_function)
    parser.on('callRangeValue', on_range)
    return parser


# --------------------------------------------------------------------------- running

def tracebacks_clean():
    return all(e.__traceback__ is None and e.__context__ is None for e in ALL_ERRORS)


def evaluate(tag, parser, formula, events):
    del events[:]
    err_stream = io.StringIO()
    try:
        with contextlib.redirect_stderr(err_stream):
            outcome = parser.parse(formula)
        shown = repr(outcome)
        if isinstance(outcome, dict):
            shown += ' keys=%r' % (sorted(outcome),)
    except BaseException as e:  # parse is not supposed to raise: show it if it does
        shown = 'RAISED %s(%s)' % (type(e).__name__, e)
    COUNT[0] += 1
    stderr_lines = [l for l in err_stream.getvalue().splitlines() if l and not l.startswith((' ', 'Traceback'))]
    print('%04d %s %r => %s | events=[%s] | clean=%r%s' % (
        COUNT[0], tag, formula, shown, '; '.join(events), tracebacks_clean(),
        (' | stderr=%r' % stderr_lines) if stderr_lines else ''))


def main():
    print('hotxlfp probe r3')

    # 1. a plain parser, no listeners
    events = []
    plain = setup(Parser())
    for f in FORMULAS:
        evaluate('plain', plain, f, events)

    # 2. a parser with logging / answering / misbehaving listeners, evaluated twice
    events = []
    loud = install_logging_listeners(setup(Parser()), events)
    for f in FORMULAS:
        evaluate('loud', loud, f, events)
    for f in FORMULAS[::3]:
        evaluate('loud-again', loud, f, events)

    # 3. two layers of listeners, once-listeners, ctx keyword arguments
    events = []
    layered = install_second_layer(install_logging_listeners(setup(Parser()), events), events)
    for f in FORMULAS[::2]:
        evaluate('layered', layered, f, events)

    # 4. listeners that keep the setters and use them after the call
    events = []
    kept = []
    keeper = install_late_setter(setup(Parser()), events, kept)
    subset = ['A1', 'A1+A1', 'B2:A1', 'x', 'undefined_name', 'SUM(1,2)', 'UNKNOWNFN()', 'ONE()+A1', 'SUM(A1:B2)',
              'RAISEZERO()', 'RETXL(2)', 'A1&x&ONE()', '#N/A', '', '1+']
    for f in subset:
        evaluate('keeper', keeper, f, events)
        for i, s in enumerate(kept):
            s('late %d' % i)
            s(None)
        evaluate('keeper-after-late', keeper, f, events)
    print('kept setters: %d, all callable: %r' % (len(kept), all(callable(s) for s in kept)))

    # 5. debug parser (tracebacks go to stderr, only the last line is shown)
    events = []
    debug = install_logging_listeners(setup(Parser(debug=True)), events)
    for f in ['1+1', '1/0', 'RAISEZERO()', 'RAISEBOOM()', 'RAISEXL(3)', 'L12', 'SQRT(-1)', 'undefined_name', '1+',
              'LEN("abc")', '#REF!', 'ABC123', 'A1:XFD2', '__x']:
        evaluate('debug', debug, f, events)

    # 6. the plain parser again after everything else, then a brand new one
    events = []
    for f in FORMULAS[::5]:
        evaluate('plain-again', plain, f, events)
    fresh = Parser()
    for f in FORMULAS[::7]:
        evaluate('fresh', fresh, f, events)

    # 7. the call_* entry points used directly
    direct = install_logging_listeners(setup(Parser()), events)
    calls = [
        ('call_function', ('SUM',)), ('call_function', ('SUM', [1, 2])), ('call_function', ('SUM', None)),
        ('call_function', ('SUM', [])), ('call_function', ('NOPE',)), ('call_function', ('ONE', [1])),
        ('call_function', ('RAISEXL', [4])), ('call_function', ('OVERRIDDEN', [1, 2])),
        ('call_function', ('ECHO', ([7],))), ('call_function', ('', [])), ('call_function', ('sum', [1])),
        ('call_variable', ('x',)), ('call_variable', ('y',)), ('call_variable', ('nope',)),
        ('call_variable', ('frm_listener',)), ('call_variable', ('TRUE',)), ('call_variable', ('blank',)),
        ('call_variable', ('X',)), ('call_variable', ('__x',)),
        ('call_cell_value', ('A1',)), ('call_cell_value', ('a1',)), ('call_cell_value', ('$b$2',)),
        ('call_cell_value', ('E5',)), ('call_cell_value', ('Q1',)), ('call_cell_value', ('L12',)),
        ('call_cell_value', ('not a label',)), ('call_cell_value', ('K11',)),
        ('call_range_value', ('A1', 'B2')), ('call_range_value', ('B2', 'A1')), ('call_range_value', ('$b$2', 'a$1')),
        ('call_range_value', (None, 'A1')), ('call_range_value', ('A1', None)), ('call_range_value', (None, None)),
        ('call_range_value', ('A0', 'B0')), ('call_range_value', ('E1', 'F2')), ('call_range_value', ('A1', 'junk')),
        ('call_range_value', ('A1', 'XFD1')),
    ]
    for round_no in (1, 2):
        for name, args in calls:
            del events[:]
            try:
                shown = repr(getattr(direct, name)(*args))
            except BaseException as e:
                shown = 'RAISED %s(%s)' % (type(e).__name__, e)
            COUNT[0] += 1
            print('%04d direct%d %s%r => %s | events=[%s]' % (COUNT[0], round_no, name, args, shown, '; '.join(events)))
        xlerror.clear_tracebacks()

    print('evaluations: %d' % COUNT[0])


if __name__ == '__main__':
    main()
