# -*- coding: utf-8 -*-
"""Probe for C07 (ordering of scalar values): prints a deterministic transcript."""
import os
import sys
import datetime
import itertools

sys.path.insert(0, os.path.dirname(os.path.dirname(os.path.abspath(__file__))))

import hotxlfp  # noqa: E402
from hotxlfp.formulas import error, operators  # noqa: E402
from hotxlfp.formulas.operators import ExcelComparator, evaluate_logic  # noqa: E402

OPS = ['<', '=', '>', '<=', '>=', '<>']
count = [0]


class MyInt(int):
    pass


class MyStr(str):
    pass


def show(value):
    if isinstance(value, error.XLError):
        return 'XLError(%s)' % str(value)
    if isinstance(value, ExcelComparator):
        return 'ExcelComparator(%s)' % show(value.value)
    if isinstance(value, list):
        return '[' + ', '.join(show(v) for v in value) + ']'
    if isinstance(value, (MyInt, MyStr)):
        return '%s(%s)' % (type(value).__name__, repr(type(value).__mro__[1](value)))
    return repr(value)


def attempt(fn):
    try:
        return show(fn())
    except error.XLError as e:
        return 'raised XLError(%s)' % str(e)
    except Exception as e:
        return 'raised %s(%s)' % (type(e).__name__, e)


def line(label, outcome):
    count[0] += 1
    print('%04d %s -> %s' % (count[0], label, outcome))


D1 = datetime.datetime(2020, 1, 1)
D2 = datetime.datetime(2020, 1, 2, 12, 30)
D0 = datetime.datetime(1900, 1, 1)
DOLD = datetime.datetime(1899, 12, 31)
D60 = datetime.datetime(1900, 2, 28)
D61 = datetime.datetime(1900, 3, 1)

SCALARS = [
    None, 0, 1, -1, 2, 0.0, -0.0, 0.5, 1.0, -2.5, 1e308, -1e308, 43831, 43831.0, 43832.520833333336,
    float('inf'), float('-inf'), float('nan'), 10 ** 30,
    '', ' ', 'a', 'A', 'b', 'ab', 'B', '0', '1', '10', '9', 'TRUE', 'FALSE', 'true', u'\xe9', 'z',
    True, False,
    D1, D2, D0, DOLD, D60, D61,
]

ODD = [
    1j, 0j, [1, 2], [], [None], (1, 2), {'a': 1}, error.VALUE, error.DIV_ZERO, error.NOT_AVAILABLE,
    MyInt(3), MyInt(0), MyStr('a'), MyStr(''), datetime.date(2020, 1, 1), b'a', object, 3.0 + 0j,
]

# 1. evaluate_logic over the full square of scalar values, all six operators on one line
for a, b in itertools.product(SCALARS, repeat=2):
    outs = [attempt(lambda op=op: evaluate_logic(op, a, b)) for op in OPS]
    line('logic %s ? %s [< = > <= >= <>]' % (show(a), show(b)), ' '.join(outs))

# 2. evaluate_logic with odd operands (arrays, errors, complex, subclasses...) on either side
for a, b in itertools.chain(itertools.product(ODD, SCALARS[:1] + [0, 1.5, 'a', '', True, False, D1]),
                            itertools.product(SCALARS[:1] + [0, 1.5, 'a', '', True, False, D1], ODD),
                            itertools.product(ODD, ODD)):
    outs = [attempt(lambda op=op: evaluate_logic(op, a, b)) for op in OPS]
    line('logic-odd %s ? %s [< = > <= >= <>]' % (show(a), show(b)), ' '.join(outs))

# 3. the comparator methods called directly (what the operator module ends up calling)
METHODS = ['__lt__', '__gt__', '__eq__', '__le__', '__ge__', '__ne__']
DIRECT = [None, 0, 1, 2.5, -0.0, float('nan'), '', 'a', 'B', True, False, D1, D0, 1j, [1], error.VALUE,
          MyInt(3), MyStr('a')]
for a, b in itertools.product(DIRECT, repeat=2):
    outs = [attempt(lambda m=m: getattr(ExcelComparator(a), m)(b)) for m in METHODS]
    line('direct %s . %s [lt gt eq le ge ne]' % (show(a), show(b)), ' '.join(outs))

# 4. constructor and convert_other
for a in SCALARS + ODD:
    line('ctor %s' % show(a), attempt(lambda: ExcelComparator(a)))
for a, b in itertools.product(DIRECT, DIRECT + [D2, DOLD, MyInt(0), (1,), {}]):
    line('convert_other %s . %s' % (show(a), show(b)),
         attempt(lambda: ExcelComparator(a).convert_other(b)))

# 5. reflected use: a bare value on the left, a comparator on the right
for a, b in itertools.product([None, 1, 'a', True, D1, [1]], [None, 0, 2, 'a', 'b', False, D2]):
    outs = []
    for op in OPS:
        outs.append(attempt(lambda op=op: operators.OPERATOR_DICT[op](a, ExcelComparator(b))))
    line('reflected %s ? cmp(%s) [< = > <= >= <>]' % (show(a), show(b)), ' '.join(outs))
for a, b in itertools.product([None, 1, 'a', True], repeat=2):
    outs = []
    for op in OPS:
        outs.append(attempt(lambda op=op: operators.OPERATOR_DICT[op](ExcelComparator(a), ExcelComparator(b))))
    line('cmp-cmp cmp(%s) ? cmp(%s) [< = > <= >= <>]' % (show(a), show(b)), ' '.join(outs))
line('hash', attempt(lambda: hash(ExcelComparator(1))))
line('sorted', attempt(lambda: [c.value for c in sorted([ExcelComparator(v) for v in [3, 'a', True, 1, 'B', False, 2.5]])]))
line('sorted-blank', attempt(lambda: [c.value for c in sorted([ExcelComparator(v) for v in [3, None, -1, None, 0]])]))
line('max', attempt(lambda: max([ExcelComparator(v) for v in ['a', 7, True, 'z']]).value))
line('min', attempt(lambda: min([ExcelComparator(v) for v in ['a', 7, True, 'z']]).value))

# 6. through the parser: literals, functions, variables (blank = NULL variable), arrays, errors
parser = hotxlfp.Parser()
events = []
parser.on('callVariable', lambda name, done: events.append(('var', name)))
parser.on('callFunction', lambda name, args, done: events.append(('fn', name, show(list(args)))))
parser.set_variable('blank', None)
parser.set_variable('n', 5)
parser.set_variable('f', 2.5)
parser.set_variable('s', 'abc')
parser.set_variable('e', '')
parser.set_variable('t', True)
parser.set_variable('d', D1)
parser.set_variable('arr', [1, 2, 3])

TERMS = ['blank', 'NULL', 'n', 'f', 's', 'e', 't', 'TRUE', 'FALSE', 'd', '0', '1', '-1', '2.5', '.5', '50%', '2^3',
         '""', '"abc"', '"ABC"', '"b"', '"5"', '"TRUE"', 'DATE(2020,1,1)', 'DATE(2020,1,2)', 'TIME(22,0,0)',
         '1/0', 'NA()', '#REF!', 'arr', '{1,2}', 'SQRT(-1)', 'nosuch', '(1+1)', '-n', '"a"&"b"', 'IF(TRUE,,1)']
for a, b in itertools.product(TERMS, repeat=2):
    outs = []
    for op in OPS:
        del events[:]
        res = attempt(lambda op=op: parser.parse('%s%s%s' % (a, op, b)))
        outs.append('%s %s' % (res, events))
    line('parse %s ? %s [< = > <= >= <>]' % (a, b), ' | '.join(outs))

FORMULAS = [
    '1<2<3', '3>2>1', '1=1=1', '1=1=TRUE', '(1<2)=TRUE', '1<2=TRUE', '"a"<"b"<TRUE', '1+1=2', '2*3>5', '1<2+3',
    '1&2=12', '1&2="12"', '-1<0', '1<-1', 'IF(1<2,"y","n")', 'IF(blank=0,"y","n")', 'IF(blank="","y","n")',
    'IF(blank=FALSE,"y","n")', 'AND(1<2,"a"<"b",TRUE>"z")', 'OR(blank<blank,blank>blank)', 'blank=blank',
    'blank<>blank', 'blank<=blank', 'blank>=blank', 'NOT(1>2)', 'SUM({1,2,3})>5', '1 < 2', ' 1<2 ', '1 <> 2',
    '1 >= 2', '1 = < 2', '1=>2', '1<', '<1', '1<>', '=1', '1==1', '1><2', '1<<2', '"a"<', 'TRUE<>FALSE',
    'TRUE>FALSE', 'FALSE>TRUE', 'TRUE=1', 'FALSE=0', 'TRUE>1E300', '"">1E300', '""<FALSE', '"a">=""', '"a"="A"',
    '"a"<"A"', '"Z"<"a"', '"10"<"9"', '10<9', '"10"<9', '10<"9"', 'd=43831', 'd<43832', 'd>"a"', 'd<TRUE', 'd>blank',
    'blank<d', 'DATE(2020,1,1)=d', 'DATE(1900,1,1)=1', 'DATE(1900,1,1)>blank', '{1,2}<{1,3}', '{1,2}={1,2}',
    '{1,2}<>{1,2}', '{1,2}>1', '1<{1,2}', 'arr=arr', 'arr<>arr', 'arr<arr', 'NA()=NA()', 'NA()<1/0', '1/0<NA()',
    '0.1+0.2=0.3', '1E308*10>1E308', '1E308*10=1E308*10', '-1E308*10<blank', '2^0.5*2^0.5=2', '50%=.5', '50%<1',
]
for f in FORMULAS:
    del events[:]
    res = attempt(lambda: parser.parse(f))
    line('formula %s' % f, '%s %s' % (res, events))

# 7. two parsers do not share anything
p2 = hotxlfp.Parser()
line('p2 blank<1', attempt(lambda: p2.parse('blank<1')))
line('p2 NULL<1', attempt(lambda: p2.parse('NULL<1')))
line('p1 blank<1 again', attempt(lambda: parser.parse('blank<1')))
print('total %d' % count[0])
