# -*- coding: utf-8 -*-
"""
Probe for C17 refactoring 2 (conversion functions: DECIMAL, BASE, ROMAN, ARABIC, HEX2DEC, DEC2HEX).
Prints a deterministic transcript: one line per evaluation.
"""
import os
import sys
import random
import itertools
from fractions import Fraction

sys.path.insert(0, os.path.dirname(os.path.dirname(os.path.abspath(__file__))))

import hotxlfp  # noqa: E402
from hotxlfp.formulas import error  # noqa: E402
from hotxlfp import formulas  # noqa: E402

COUNT = [0]


def show(value):
    """ repr without anything that depends on addresses or on the int-to-str digit limit """
    if isinstance(value, bool):
        return repr(value)
    if isinstance(value, int) and abs(value) >= 10 ** 60:
        return 'int(bits=%d, mod=%d, sign=%d)' % (value.bit_length(), abs(value) % 1000000007, -1 if value < 0 else 1)
    if isinstance(value, str) and len(value) > 400:
        return 'str(len=%d, head=%r, tail=%r)' % (len(value), value[:40], value[-40:])
    if isinstance(value, (list, tuple)):
        inner = ', '.join(show(v) for v in value)
        return ('[%s]' if isinstance(value, list) else '(%s)') % inner
    if isinstance(value, dict):
        return '{' + ', '.join('%r: %s' % (k, show(value[k])) for k in sorted(value)) + '}'
    if callable(value):
        return '<callable>'
    return repr(value)


def line(text):
    COUNT[0] += 1
    text = text.encode('ascii', 'backslashreplace').decode('ascii')  # independent of the stdout encoding
    print('%05d %s' % (COUNT[0], text))


def call(name, *args, **kwargs):
    """ outcome of a direct call as text """
    fn = formulas.get_for(name)
    try:
        outcome = fn(*args, **kwargs)
        text = '-> %s' % show(outcome)
    except BaseException as e:  # noqa
        outcome = e
        text = '!! %s: %s' % (type(e).__name__, e)
    error.clear_tracebacks()
    return outcome, text


def direct(name, *args, **kwargs):
    shown = ', '.join([show(a) for a in args] + ['%s=%s' % (k, show(kwargs[k])) for k in sorted(kwargs)])
    outcome, text = call(name, *args, **kwargs)
    line('%s(%s) %s' % (name, shown, text))
    return outcome


def roundtrip(outer, inner, inner_args, outer_extra=()):
    shown = ', '.join(show(a) for a in inner_args)
    first, first_text = call(inner, *inner_args)
    second, second_text = call(outer, first, *outer_extra)
    line('%s(%s(%s)%s) inner %s outer %s' % (outer, inner, shown, ''.join(', ' + show(a) for a in outer_extra),
                                              first_text, second_text))


PARSER = hotxlfp.Parser()
EVENTS = []


def on_call(name, args, setter):
    EVENTS.append('%s%s' % (name, show(list(args))))


PARSER.on('callFunction', on_call)


def formula(text):
    del EVENTS[:]
    try:
        outcome = show(PARSER.parse(text))
    except BaseException as e:  # noqa
        outcome = '!! %s: %s' % (type(e).__name__, e)
    line('parse %r -> %s | events: %s' % (text, outcome, ' ; '.join(EVENTS)))


NAN = float('nan')
INF = float('inf')

ODD_VALUES = [None, True, False, '', ' ', 'abc', '3', '2.5', '-7.5', '-1e3', 'nan', 'inf', '-inf', NAN, INF, -INF,
              1 + 2j, 0j, [1, 2], (), [], error.NUM, error.NOT_AVAILABLE, error.VALUE, 10 ** 30, -10 ** 30, 1e308,
              -0.0, 0, 0.0, Fraction(7, 2), b'3', b'ff', {'a': 1}, 1.5, -1, 16, 36, 37]

WORD = 2 ** 40
HALF = 2 ** 39


def section(title):
    print('## ' + title)


def main():
    random.seed(4017)

    section('HEX2DEC')
    hex_texts = ['A5', 'a5', 'FFFFFFFF5B', '3DA408B9', 'ZZZ', '0', '00', '0000000000000000001', '1', 'F', 'f', '10',
                 '7FFFFFFFFF', '8000000000', '8000000001', 'FFFFFFFFFF', 'FFFFFFFFFE', '10000000000', '10000000001',
                 '7ffffffffe', '0x1F', '0X1f', '0x', 'x1', '-1', '-0', '+5', '+0x5', '-0x5', ' ff ', '\tff\n', 'f f',
                 '1_0', '_10', '1__0', '1.5', '1e3', 'G', 'FG', u'１２', u'١٢', u'²',
                 'FFFFFFFFFFFFFFFFFFFFFFFFFFFFFFFFFFFF', '-FFFFFFFFFF', '-8000000000', '0b11', '0o17', 'DEADBEEF',
                 'CAFE', 'cafe', 'Cafe']
    for text in hex_texts:
        direct('HEX2DEC', text)
    for value in ODD_VALUES:
        direct('HEX2DEC', value)
    direct('HEX2DEC')
    direct('HEX2DEC', 'A', 'B')
    direct('HEX2DEC', hex='1f')
    for exponent in range(0, 42):
        direct('HEX2DEC', '%X' % (2 ** exponent))
        direct('HEX2DEC', '%x' % (2 ** exponent - 1))

    section('DEC2HEX')
    decs = [0, 1, -1, 9, 10, 15, 16, 28, 64, 100, -54, 255, 256, -255, -256, 4095, 65535, 65536, HALF - 1, HALF,
            HALF + 1, -HALF, -HALF - 1, -HALF + 1, WORD, WORD - 1, -WORD, 10 ** 30, -10 ** 30, 0.0, -0.0, 1.0, 1.5,
            -1.5, 255.0, 549755813887.5, 549755813887.0, -549755813888.0, -549755813888.5, 1e308, NAN, INF, -INF,
            True, False, '255', '-255', '1.5', 'ff', '', None, 1 + 2j, error.NUM, error.NOT_AVAILABLE, [255], b'255']
    places_values = [0, 1, 2, 3, 4, 8, 10, 11, 40, -1, -0.5, 2.0, 2.5, 0.5, '4', '-4', 'x', '', None, True, False,
                     error.NUM, error.REF, NAN, INF, 1 + 0j, [4], 10 ** 30]
    for dec in decs:
        direct('DEC2HEX', dec)
    for dec, places in itertools.product([0, 1, -1, 28, 64, 100, 255, 4096, HALF - 1, -HALF, HALF, 1.0, 'x', None,
                                          error.DIV_ZERO, '100', True], places_values):
        direct('DEC2HEX', dec, places)
    direct('DEC2HEX')
    direct('DEC2HEX', 1, 2, 3)
    direct('DEC2HEX', dec=100, places=4)
    direct('DEC2HEX', places=4, dec=-100)

    section('HEX2DEC(DEC2HEX(n))')
    for n in [0, 1, -1, HALF - 1, -HALF, HALF - 2, -HALF + 1, 255, -255, 4096, -4096]:
        roundtrip('HEX2DEC', 'DEC2HEX', (n,))
    for _ in range(400):
        roundtrip('HEX2DEC', 'DEC2HEX', (random.randint(-HALF, HALF - 1),))
    for _ in range(100):
        roundtrip('HEX2DEC', 'DEC2HEX', (random.randint(-300, 300), random.randint(0, 10)))
    for _ in range(60):
        roundtrip('HEX2DEC', 'DEC2HEX', (random.randint(-2 * WORD, 2 * WORD),))
    for _ in range(200):
        n = random.randint(0, WORD + 1000)
        roundtrip('DEC2HEX', 'HEX2DEC', ('%X' % n,))

    section('DECIMAL')
    texts = ['FF', 'ff', '111', 'zap', 'ZAP', '0', '', ' ', '-1', '+1', ' 12 ', '1_1', '0x1F', '0b101', '0o17', '12.5',
             'Z', 'z', 'G', '9', '2', '7FFFFFFFFF', '8000000000', 'FFFFFFFFFF', '10000000000', '1' * 39, '1' * 40,
             '1' * 41, '1' + '0' * 39, '1' + '0' * 40, 'ZZZZZZZZ', 'ZZZZZZZ', u'１２', 'abc def']
    bases = [2, 8, 10, 16, 36, 0, 1, 37, -2, 3, 35, 2.0, 2.5, 16.0, '16', '2', 'x', '', None, True, False, NAN, INF,
             error.NUM, error.NOT_AVAILABLE, 1 + 0j, [16], 10 ** 30]
    for text, base in itertools.product(texts, bases):
        direct('DECIMAL', text, base)
    for value in ODD_VALUES:
        direct('DECIMAL', value, 10)
        direct('DECIMAL', value, 16)
        direct('DECIMAL', value, 2)
        direct('DECIMAL', '10', value)
    direct('DECIMAL')
    direct('DECIMAL', '1')
    direct('DECIMAL', '1', 2, 3)
    direct('DECIMAL', text='11', base=2)
    direct('DECIMAL', base=2, text=11)
    for number in (111, 101.0, 12, 255, -5, 549755813888, 549755813887, 1099511627776, 2 ** 64):
        for base in (2, 10, 16, 36):
            direct('DECIMAL', number, base)

    section('BASE')
    values = [0, 1, 2, 7, 9, 10, 15, 16, 35, 36, 37, 100, 255, 256, 1295, 1296, 46655, 46656, HALF - 1, HALF, WORD,
              2 ** 53, 2 ** 64, 10 ** 30, -1, -0.5, -0.0, 0.5, 0.99, 1.5, 7.9, 255.999, 1e15, 1e22, 1e308, True, False,
              '7', '7.9', '-7', 'x', '', None, NAN, INF, -INF, 1 + 2j, error.NUM, error.NOT_AVAILABLE, [7]]
    radixes = [2, 3, 8, 10, 16, 36, 37, 1, 0, -2, 1.9, 2.0, 2.5, 36.0, 36.5, 36.99, 37.0, '16', 'x', '', None, True,
               False, NAN, INF, -INF, 1 + 2j, error.DIV_ZERO, error.REF, [2], 10 ** 30]
    for value, radix in itertools.product(values, radixes):
        direct('BASE', value, radix)
    for value, radix, places in itertools.product([0, 1, 7, 15, 100, 255, -1, 'x', None, error.NUM, 2 ** 40],
                                                  [2, 16, 36, 1, 37, 'x', error.REF],
                                                  [0, 1, 2, 3, 4, 8, 10, 50, -1, -0.5, 0.5, 2.0, 2.5, '4', 'x', '',
                                                   None, True, False, error.NOT_AVAILABLE, NAN, INF, 1 + 0j, 10 ** 30]):
        direct('BASE', value, radix, places)
    direct('BASE')
    direct('BASE', 1)
    direct('BASE', 1, 2, 3, 4)
    direct('BASE', value=15, base=2, places=10)
    direct('BASE', places=3, base=16, value=255)
    for radix in range(-1, 40):
        for value in (0, 1, radix - 1 if radix > 0 else 0, radix if radix > 0 else 0, 35, 36, 12345678901234567890):
            direct('BASE', value, radix)

    section('DECIMAL(BASE(n, r), r)')
    for radix in range(2, 37):
        for n in [0, 1, radix - 1, radix, radix ** 2 - 1, radix ** 3, HALF - 1, HALF, WORD - 1, WORD]:
            roundtrip('DECIMAL', 'BASE', (n, radix), (radix,))
        for _ in range(25):
            roundtrip('DECIMAL', 'BASE', (random.randint(0, HALF - 1), radix), (radix,))
        for _ in range(5):
            roundtrip('DECIMAL', 'BASE', (random.randint(0, 10 ** 6), radix, random.randint(0, 12)), (radix,))
            roundtrip('DECIMAL', 'BASE', (random.uniform(0, 10 ** 6), radix + random.random()), (radix,))
    for radix in (0, 1, 37, -3, 2.5, 'x'):
        roundtrip('DECIMAL', 'BASE', (10, radix), (radix,))

    section('ROMAN exhaustive, with ARABIC back')
    forms = [0, 1, 2, 3, 4]
    for n in range(0, 4002):
        for form in forms:
            roundtrip('ARABIC', 'ROMAN', (n, form))
    for n in list(range(1, 4000, 37)) + [1, 4, 9, 14, 40, 45, 49, 90, 95, 99, 400, 450, 490, 495, 499, 900, 945, 990,
                                        995, 999, 1999, 2499, 3499, 3999]:
        roundtrip('ARABIC', 'ROMAN', (n,))
        for form in (True, False, 0.0, 1.0, 2.0, 3.0, 4.0, 0.5, 1.5, 2.5, 3.5, 3.999, 4.000001, -0.000001, -1, 5,
                     '0', '2', '4', '2.5'):
            roundtrip('ARABIC', 'ROMAN', (n, form))

    section('ROMAN odd arguments')
    numbers = [0, 1, -1, 3999, 4000, 3999.5, 3999.9999999999995, 0.5, 0.999, 1.5, 499.0, 499.5, 499.99, 999.9999999,
               1e-9, 2.9999999999999996, True, False, '499', '499.5', 'x', '', None, NAN, INF, -INF, 1 + 2j,
               error.NUM, error.NOT_AVAILABLE, [499], 10 ** 30, Fraction(499, 1), b'499']
    odd_forms = [0, 1, 2, 3, 4, 5, -1, 0.5, 1.0, 3.5, True, False, '1', '1.5', 'x', '', None, NAN, INF, 1 + 0j,
                 error.REF, error.VALUE, [1], 10 ** 30]
    for number in numbers:
        direct('ROMAN', number)
    for number, form in itertools.product(numbers, odd_forms):
        direct('ROMAN', number, form)
    direct('ROMAN')
    direct('ROMAN', 1, 2, 3)
    direct('ROMAN', number=1994, form=2)
    direct('ROMAN', form=4, number=1999)

    section('ARABIC')
    roman_texts = ['M', 'LVII', 'mcmxii', 'MCMXII', '', ' ', 'I', 'II', 'III', 'IIII', 'IV', 'IVI', 'IX', 'IXI', 'VX',
                   'VV', 'LL', 'DD', 'XXXX', 'XL', 'XLX', 'XC', 'XCX', 'XCL', 'CD', 'CM', 'CMC', 'CMD', 'CCCC', 'MMMM',
                   'MMMMM', 'MMMMCMXCIX', 'MMMCMXCIX', 'IC', 'IL', 'XM', 'XD', 'VL', 'IM', 'LDVLIV', 'VDIV', 'ID',
                   'XDIX', 'MI', 'M I', ' MI', 'MI ', 'MI\n', '\nMI', 'MI\n\n', 'M\nI', 'mi', 'Mi', 'mI', 'A', 'MA',
                   'AM', '1', 'M1', '-M', '+M', 'M.', u'Ⅰ', u'Ⅻ', u'ı', u'ıv', u'ſ',
                   u'xı', 'MCMLXXXIV', 'MMXXIV', 'MDCLXVI', 'DCLXVI', 'CDXLIV', 'CMXCIX', 'XCIX', 'XLIX',
                   'None', 'TRUE', 'FALSE', 'C', 'D', 'L', 'X', 'V', 'CI', 'DI', 'LI', 'XI', 'VI', 'MDCCCLXXXVIII']
    for text in roman_texts:
        direct('ARABIC', text)
    for value in ODD_VALUES:
        direct('ARABIC', value)
    direct('ARABIC', ['M'])
    direct('ARABIC', ('M',))
    direct('ARABIC')
    direct('ARABIC', 'M', 'I')
    direct('ARABIC', text='xiv')
    letters = 'IVXLCDM'
    for _ in range(400):
        direct('ARABIC', ''.join(random.choice(letters) for _ in range(random.randint(1, 6))))

    section('COMPLEX / IMREAL / IMAGINARY')
    for re_part, im_part in itertools.product([0, 1, -1, 2, 3, -5, 2.5, -2.5, 10 ** 6, '4', 'x', None, True,
                                               error.NUM], repeat=2):
        roundtrip('IMREAL', 'COMPLEX', (re_part, im_part))
        roundtrip('IMAGINARY', 'COMPLEX', (re_part, im_part))
    for text in ['i', '1', '4i', '2+4i', '5-2i', '-5-2i', '', ' 3 + 4i ', 'j', '2+4j', 'x', '1+', 'ii', None, 5, 2.5,
                 True, error.NOT_AVAILABLE, error.DIV_ZERO, 3 + 4j, -3.7 - 4.2j, 'nan', 'inf', 'infi', [1]]:
        direct('IMREAL', text)
        direct('IMAGINARY', text)

    section('formulas through the parser')
    texts = [
        'HEX2DEC("A5")', 'HEX2DEC("FFFFFFFF5B")', 'HEX2DEC("3DA408B9")', 'HEX2DEC("ZZZ")', 'HEX2DEC("")',
        'HEX2DEC("7FFFFFFFFF")', 'HEX2DEC("8000000000")', 'HEX2DEC("FFFFFFFFFF")', 'HEX2DEC("10000000000")',
        'HEX2DEC("-1")', 'HEX2DEC(" f ")', 'HEX2DEC("0x1f")', 'HEX2DEC("1_0")', 'HEX2DEC(10)', 'HEX2DEC(1.5)',
        'HEX2DEC(TRUE)', 'HEX2DEC()', 'HEX2DEC(,)', 'HEX2DEC("A", "B")', 'HEX2DEC(#N/A)', 'HEX2DEC(1/0)',
        'HEX2DEC({"A"})', 'HEX2DEC(A1)', 'HEX2DEC(foo)', 'HEX2DEC("a5")+1', 'hex2dec("ff")',
        'DEC2HEX(100, 4)', 'DEC2HEX(-54)', 'DEC2HEX(28)', 'DEC2HEX(64,1)', 'DEC2HEX(64,2)', 'DEC2HEX(0)',
        'DEC2HEX(0, 0)', 'DEC2HEX(0, 3)', 'DEC2HEX(-1, 2)', 'DEC2HEX(-1, -2)', 'DEC2HEX(1, -2)',
        'DEC2HEX(549755813887)', 'DEC2HEX(549755813888)', 'DEC2HEX(-549755813888)', 'DEC2HEX(-549755813889)',
        'DEC2HEX(1.5)', 'DEC2HEX("255")', 'DEC2HEX("x")', 'DEC2HEX(255, "x")', 'DEC2HEX(255, "4")',
        'DEC2HEX(255, 2.5)', 'DEC2HEX(255, 2.0)', 'DEC2HEX(255,)', 'DEC2HEX(,2)', 'DEC2HEX()', 'DEC2HEX(1,2,3)',
        'DEC2HEX(TRUE)', 'DEC2HEX(255, TRUE)', 'DEC2HEX(#NUM!)', 'DEC2HEX(1, #REF!)', 'DEC2HEX({255})',
        'DEC2HEX(A1)', 'DEC2HEX(255, A1)', 'HEX2DEC(DEC2HEX(-54))', 'HEX2DEC(DEC2HEX(123456789))',
        'HEX2DEC(DEC2HEX(-549755813888))', 'HEX2DEC(DEC2HEX(549755813887))', 'DEC2HEX(HEX2DEC("FFFFFFFF5B"))',
        'DECIMAL("FF";16)', 'DECIMAL(111;2)', 'DECIMAL("zap";36)', 'DECIMAL("FF", 10)', 'DECIMAL("", 10)',
        'DECIMAL("12", 1)', 'DECIMAL("12", 37)', 'DECIMAL("12", 0)', 'DECIMAL("0x1F", 0)', 'DECIMAL("12", 2.5)',
        'DECIMAL("12", "x")', 'DECIMAL("12", "16")', 'DECIMAL("12",)', 'DECIMAL(,10)', 'DECIMAL()', 'DECIMAL("1")',
        'DECIMAL("1", 2, 3)', 'DECIMAL(TRUE, 36)', 'DECIMAL("1", TRUE)', 'DECIMAL(#N/A, 2)', 'DECIMAL("1", #NUM!)',
        'DECIMAL({1}, 2)', 'DECIMAL(A1, 10)', 'DECIMAL("7FFFFFFFFF", 16)', 'DECIMAL("8000000000", 16)',
        'DECIMAL("FFFFFFFFFF", 16)', 'DECIMAL("10000000000", 16)', 'DECIMAL(1.5, 10)', 'DECIMAL(-5, 10)',
        'BASE(7,2)', 'BASE(100,16)', 'BASE(15,2,10)', 'BASE(0, 2)', 'BASE(0, 2, 0)', 'BASE(0, 2, 3)', 'BASE(255, 16, 1)',
        'BASE(255, 16, 2)', 'BASE(255, 16, -1)', 'BASE(-1, 2)', 'BASE(1, 1)', 'BASE(1, 37)', 'BASE(1, 36)',
        'BASE(35, 36)', 'BASE(36, 36)', 'BASE(7.9, 2.9)', 'BASE("7", "2")', 'BASE("x", 2)', 'BASE(7, "x")',
        'BASE(7, 2, "x")', 'BASE(7, 2, "5")', 'BASE(7, 2, 3.5)', 'BASE(7, 2,)', 'BASE(7,,3)', 'BASE(,2)', 'BASE()',
        'BASE(7)', 'BASE(1,2,3,4)', 'BASE(TRUE, 2)', 'BASE(7, TRUE)', 'BASE(7, 2, TRUE)', 'BASE(#N/A, 2)',
        'BASE(7, #NUM!)', 'BASE(7, 2, #REF!)', 'BASE({7}, 2)', 'BASE(A1, 2)', 'BASE(7, A1)', 'BASE(2^40, 36)',
        'DECIMAL(BASE(255, 16), 16)', 'DECIMAL(BASE(123456, 36), 36)', 'DECIMAL(BASE(5, 2, 8), 2)',
        'DECIMAL(BASE(549755813888, 7), 7)', 'BASE(DECIMAL("zap", 36), 36)',
        'ROMAN(499,0)', 'ROMAN(499,1)', 'ROMAN(499,2)', 'ROMAN(499,3)', 'ROMAN(499,4)', 'ROMAN(4000)', 'ROMAN(0)',
        'ROMAN(-1)', 'ROMAN(499,TRUE())', 'ROMAN(499,FALSE())', 'ROMAN(499,TRUE)', 'ROMAN(499,FALSE)', 'ROMAN(499)',
        'ROMAN(499, 5)', 'ROMAN(499, -1)', 'ROMAN(499, 0.5)', 'ROMAN(499, 2.5)', 'ROMAN(499.5)', 'ROMAN("499")',
        'ROMAN("x")', 'ROMAN(499, "x")', 'ROMAN(499, "2")', 'ROMAN(499,)', 'ROMAN(,1)', 'ROMAN()', 'ROMAN(1,2,3)',
        'ROMAN(TRUE)', 'ROMAN(#N/A)', 'ROMAN(1, #NUM!)', 'ROMAN({499})', 'ROMAN(A1)', 'ROMAN(499, A1)',
        'ROMAN(1994)', 'ROMAN(3999)', 'ROMAN(3999, 4)', 'ROMAN(1999, 1)', 'ROMAN(1999, 2)', 'ROMAN(1999, 3)',
        'ROMAN(1999, 4)', 'roman(14)',
        'ARABIC("M")', 'ARABIC("LVII")', 'ARABIC("mcmxii")', 'ARABIC(ROMAN(499))', 'ARABIC(ROMAN(499, 4))',
        'ARABIC(ROMAN(499, 1))', 'ARABIC(ROMAN(499, 2))', 'ARABIC(ROMAN(499, 3))', 'ARABIC("")', 'ARABIC("IIII")',
        'ARABIC("MMMM")', 'ARABIC("MMMMM")', 'ARABIC("IC")', 'ARABIC("LDVLIV")', 'ARABIC(" M")', 'ARABIC(1)',
        'ARABIC(TRUE)', 'ARABIC()', 'ARABIC(,)', 'ARABIC("M", "I")', 'ARABIC(#N/A)', 'ARABIC(1/0)', 'ARABIC({"M"})',
        'ARABIC(A1)', 'ARABIC(foo)', 'ARABIC(ROMAN(4000))', 'ARABIC("M")+ARABIC("m")', 'ROMAN(ARABIC("MCMXCIV"))',
        'COMPLEX(3, 5)', 'IMREAL(COMPLEX(2,3))', 'IMAGINARY(COMPLEX(2,3))', 'IMREAL(COMPLEX(-7,0))',
        'IMAGINARY(COMPLEX(0,-7))', 'IMREAL("2+4i")', 'IMAGINARY("2+4i")', 'COMPLEX("x", 1)', 'COMPLEX(1)',
        'IMREAL(COMPLEX(1, "x"))', 'IMAGINARY(#N/A)', 'IMREAL()', 'IMAGINARY(,)',
        'CONCATENATE(DEC2HEX(255), "-", BASE(255, 2), "-", ROMAN(255))',
        'SUM(HEX2DEC("FF"), DECIMAL("FF", 16), ARABIC("CCLV"))', 'IF(HEX2DEC("A")=10, ROMAN(10), BASE(10, 2))',
        'DEC2HEX(ARABIC("CCLV"), 4) & BASE(HEX2DEC("F"), 2, 8)', 'LEN(BASE(2^39, 2))', 'UPPER(ROMAN(9)) = ROMAN(9)',
    ]
    for text in texts:
        formula(text)

    section('custom values through events')
    cells = {'A1': 'ff', 'B1': 255, 'C1': None, 'D1': 'mcmxciv', 'E1': 1994, 'F1': 16, 'G1': 2.5}
    PARSER.on('callCellValue', lambda cell, setter: setter(cells.get(cell.label)))
    PARSER.on('callRangeValue', lambda start, end, setter: setter([[1994, 4]]))
    PARSER.set_variable('foo', 'XIV')
    PARSER.set_variable('bar', 1999)
    for text in ['HEX2DEC(A1)', 'HEX2DEC(B1)', 'HEX2DEC(C1)', 'DEC2HEX(B1)', 'DEC2HEX(B1, F1)', 'DEC2HEX(C1)',
                 'DEC2HEX(B1, C1)', 'DEC2HEX(B1, G1)', 'DECIMAL(A1, F1)', 'DECIMAL(B1, F1)', 'DECIMAL(C1, F1)',
                 'DECIMAL(A1, C1)', 'DECIMAL(A1, G1)', 'BASE(B1, F1)', 'BASE(B1, F1, F1)', 'BASE(C1, F1)',
                 'BASE(B1, C1)', 'BASE(B1, F1, C1)', 'BASE(B1, G1)', 'BASE(G1, G1, G1)', 'ROMAN(E1)', 'ROMAN(E1, G1)',
                 'ROMAN(C1)', 'ROMAN(E1, C1)', 'ROMAN(B1, F1)', 'ARABIC(D1)', 'ARABIC(C1)', 'ARABIC(B1)', 'ARABIC(foo)',
                 'ROMAN(bar)', 'ROMAN(bar, 4)', 'ARABIC(ROMAN(bar, 2))', 'ROMAN(A1:B1)', 'ARABIC(A1:B1)',
                 'BASE(A1:B1, 2)', 'HEX2DEC(A1:B1)', 'DEC2HEX(A1:B1)', 'DECIMAL(A1:B1, 10)', 'ROMAN(Z9)', 'ARABIC(Z9)']:
        formula(text)

    section('a second parser sees the same functions')
    other = hotxlfp.Parser()
    for text in ['ROMAN(499, 2)', 'ARABIC("ID")', 'BASE(255, 16, 4)', 'DECIMAL("zz", 36)', 'HEX2DEC("FFFFFFFFFF")',
                 'DEC2HEX(-1)']:
        line('other parse %r -> %s' % (text, show(other.parse(text))))
        formula(text)

    print('## total evaluations: %d' % COUNT[0])


if __name__ == '__main__':
    main()
