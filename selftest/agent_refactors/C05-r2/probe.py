# -*- coding: utf-8 -*-
"""
Probe for C05 refactoring 2 (numeric-literal action, cell / range actions and the
cell / range callbacks of hotxlfp.Parser restructured).

Prints one line per evaluation: the input, repr() of the outcome and the events
seen while evaluating it.  Deterministic: fixed seed, no clock, no addresses.
"""
from __future__ import print_function
import os
import random
import sys

sys.path.insert(0, os.path.dirname(os.path.dirname(os.path.abspath(__file__))))

import hotxlfp  # noqa: E402
from hotxlfp import Parser  # noqa: E402

COUNT = [0]


def show(value):
    """repr() that is stable for every value the evaluator hands out."""
    if isinstance(value, list):
        return '[' + ', '.join(show(v) for v in value) + ']'
    if isinstance(value, tuple):
        return '(' + ', '.join(show(v) for v in value) + (',)' if len(value) == 1 else ')')
    if isinstance(value, dict):
        return '{' + ', '.join('%r: %s' % (k, show(value[k])) for k in sorted(value)) + '}'
    if isinstance(value, BaseException):
        return '%s(%s)' % (type(value).__name__, value)
    return '%s:%r' % (type(value).__name__, value)


CELL_VALUES = {'A1': 10, 'B2': 'text', 'C3': 2.5, 'AA10': True, 'D4': '', 'E5': 0, 'F6': False,
               'G7': [1, 2], 'Z99': -1.5}


def make_parser(events, cell_mode='table', range_mode='grid'):
    parser = Parser()

    def on_function(name, args, setter):
        events.append('fn %s%s' % (name, show(args)))

    def on_variable(name, setter):
        events.append('var %s' % name)

    def on_cell(cell, setter):
        events.append('cell %r [%s|%s|%s]' % (cell, show(cell.label), show(cell[0]), show(cell[1])))
        if cell_mode == 'table':
            key = cell.label.replace('$', '')
            if key in CELL_VALUES:
                setter(CELL_VALUES[key])
        elif cell_mode == 'none':
            setter(None)
        elif cell_mode == 'twice':
            setter(1)
            setter(None)
            setter(2)
            setter(None)
        elif cell_mode == 'label':
            setter(cell.label)

    def on_range(start, end, setter):
        events.append('range %r %r' % (start, end))
        if range_mode == 'grid':
            rows = range(start.row.index, end.row.index + 1)
            cols = range(start.col.index, end.col.index + 1)
            setter([[r * 100 + c for c in cols] for r in rows])
        elif range_mode == 'none':
            setter(None)
        elif range_mode == 'labels':
            setter([[start.label, end.label]])

    parser.on('callFunction', on_function)
    parser.on('callVariable', on_variable)
    parser.on('callCellValue', on_cell)
    parser.on('callRangeValue', on_range)
    parser.set_function('ARGS', lambda *a: list(a))
    parser.set_variable('x', 3)
    return parser


EVENTS = []
PARSER = make_parser(EVENTS)


def emit_line(label, outcome, events):
    COUNT[0] += 1
    line = '%04d %s => %s | %s' % (COUNT[0], label, outcome, ' ; '.join(events))
    print(line.encode('ascii', 'backslashreplace').decode('ascii'))


def run(formula, parser=None, events=None):
    parser = PARSER if parser is None else parser
    events = EVENTS if events is None else events
    del events[:]
    try:
        outcome = show(parser.parse(formula))
    except BaseException as e:
        outcome = 'RAISED %s(%s)' % (type(e).__name__, e)
    emit_line(repr(formula), outcome, events)


def call(label, fn, *args):
    """Call one of the parser's callbacks directly, the way the grammar actions do."""
    del EVENTS[:]
    try:
        outcome = show(fn(*args))
    except BaseException as e:
        outcome = 'RAISED %s(%s)' % (type(e).__name__, e)
    hotxlfp.parser.formulaserror.clear_tracebacks()
    emit_line('%s(%s)' % (label, ', '.join(show(a) for a in args)), outcome, EVENTS)


def section(title):
    print('--- ' + title)


def main():
    rnd = random.Random(5)

    section('integers')
    for text in ('0', '1', '7', '10', '007', '000', '123456789', '9007199254740993', '12345678901234567890',
                 '1' + '0' * 40, '00000000001', '4294967296', '2147483648', '99999999999999999999999'):
        run(text)
        run('-' + text)
        run(' ' + text + ' ')

    section('decimals')
    for text in ('0.0', '1.5', '1.50', '01.50', '0.1', '0.10', '3.14159', '123.456', '1.0', '10.01', '0.000001',
                 '1.0000000000000001', '0.30000000000000004', '123456789.123456789', '9007199254740993.0',
                 '1.' + '0' * 30 + '1', '1' + '0' * 30 + '.5', '0.' + '9' * 25, '1.7976931348623157',
                 '2.2250738585072014', '00.00', '5.000', '1.9999999999999999'):
        run(text)
        run('-' + text)
    for text in ('.5', '.0', '.05', '.50', '.123456789', '.000', '.9' * 1, '.' + '0' * 30 + '1', '.' + '9' * 30,
                 '.1', '.25', '.75'):
        run(text)
        run('-' + text)
        run('1+' + text)
    for text in ('1.', '1..2', '1.2.3', '.', '..5', '.5.', '1 .5', '1. 5', '1 . 5', '. 5', '.\t5', '1.\n5',
                 '1.5.', '.5.5', '1.a', 'a.1', '.a', '1.5e3', '1e3', '1E3', '0x10', '1_000', '1,5', '1;5'):
        run(text)

    section('percent')
    for text in ('0%', '1%', '5%', '10%', '50%', '100%', '150%', '007%', '33%', '3%', '7%', '99%', '12345%',
                 '1' + '0' * 25 + '%', '10 %', ' 10% ', '10\t%', '10%%', '1.5%', '.5%', '%', '%5', '10%+1',
                 '1+10%', '-10%', '10%*10%', '2*50%', '50%^2', '"a"%', 'A1%', 'x%', '(10)%', '10%5',
                 '200%/2', 'TRUE%'):
        run(text)

    section('caret')
    for text in ('2^3', '2^0', '0^0', '0^5', '1^100', '10^2', '10^20', '2^64', '2^100', '3^4', '7^1', '02^03',
                 '2 ^ 3', '2^ 3', '2 ^3', ' 2^3 ', '2\t^\t3', '2^3^2', '2^-1', '-2^2', '-2^3', '2^3+1', '1+2^3',
                 '2*2^3', '2^3*2', '2^3%', '2%^3', '2.5^2', '2^2.5', '2^.5', '.5^2', '(2)^3', '2^(3)', 'A1^2',
                 '2^A1', 'x^2', '"2"^3', '^', '^2', '2^', '2^^3', '2^3=8', '2^10>1000', '9^9', '16^2&"x"',
                 'ARGS(2^3,3^2)', '{2^3,3^2}', 'SUM(2^3;3^2)', 'POWER(2,3)=2^3'):
        run(text)

    section('random numeric literals')
    for _ in range(60):
        kind = rnd.randrange(5)
        a = ''.join(rnd.choice('0123456789') for _ in range(rnd.randint(1, 18)))
        b = ''.join(rnd.choice('0123456789') for _ in range(rnd.randint(1, 18)))
        if kind == 0:
            text = a
        elif kind == 1:
            text = a + '.' + b
        elif kind == 2:
            text = '.' + b
        elif kind == 3:
            text = a + '%'
        else:
            text = a[:3] + '^' + b[:1]
        pad = rnd.choice(('', ' ', '  ', '\t'))
        run(pad + text + pad)

    section('quoted literals')
    for text in ('"abc"', "'abc'", '""', "''", '" "', '"a b"', '" a "', '"1"', '"1.5"', '"10%"', '"2^3"', '"TRUE"',
                 '"A1"', '"a1"', '"#N/A"', '"a""b"', '"a\\"b"', "'a\\'b'", '"it\'s"', "'say \"hi\"'", '"a,b;c\\d"',
                 '"{1,2}"', '"(x)"', '"\t"', '"a\nb"', '"\\\\"', '"\\"', '"', "'", '"abc', 'abc"', '"a"&"b"',
                 '"a" & "b"', '"a"="a"', '"a"="A"', '"1"+1', '"x"&1.5', '"x"&10%', '"x"&2^3', '"x"&.5',
                 'ARGS("a","b")', "ARGS('a';\"b\")", '{"a","b";"c","d"}', '"\xe9\xe8"', '"\u20ac"', '"=1+1"'):
        run(text)

    section('cells, every spelling')
    for col in ('a', 'A', 'b', 'B', 'aa', 'Aa', 'aA', 'AA', 'z', 'Z', 'zz', 'abc', 'XFD'):
        for row in ('1', '2', '10', '0', '99', '007'):
            if (len(col) > 1) and row not in ('1', '10'):
                continue
            for pattern in ('%s%s', '$%s$%s', '$%s%s', '%s$%s'):
                run(pattern % (col, row))
    for text in ('A1+a1', 'a1=A1', '$a$1=A1', 'b2&B2', 'c3*2', '-c3', 'd4', 'e5', 'f6', 'g7', 'z99', 'ARGS(a1,B2,$c$3)',
                 '{a1,B2}', 'SUM(a1,A1)', ' a1 ', 'a 1', 'a1 b2', '$', '$a', '$1', 'a$', '$$a1', 'a$$1', '$a$', 'a1$',
                 'A1.5', 'a1.b2', 'A1(2)', 'a1a', '1a', 'A1A1', 'a_1', 'IF(a1=10,"y","n")', 'IF(A1=10;"y";"n")'):
        run(text)

    section('ranges, every corner order and spelling')
    corners = ('a1', 'A1', 'b2', 'B2', '$c$3', '$C$3', 'c$1', 'C$1', '$a3', '$A3', 'aa10', 'AA10', 'b0', 'z1')
    for s in corners:
        for e in corners:
            if s.upper() == e.upper() and s != e:
                continue
            run(s + ':' + e)
    for text in ('A1 : B2', 'A1: B2', 'A1 :B2', ' a1:b2 ', 'a1:b2:c3', 'a1:', ':b2', ':', 'a1::b2', 'a1:2', '1:b2', 'a:b',
                 '1:2', 'a1:b', 'a1:x', 'SUM(a1:b2)', 'SUM(B2:a1)', 'SUM(b$2:$a1)', 'ARGS(a1:b2,B2:A1)', '{a1:b2}',
                 'a1:b2+1', '-a1:b2', 'a1:b2&"x"', 'a1:b2=A1:B2', 'SUM(a1:a1)', 'SUM($A$1:$A$1)', 'COUNT(c3:a1)',
                 'ARGS(b2:a1;c1:a3)', 'ARGS(xfd1:a1)', 'ARGS(a10:a9)', 'ARGS(a9:a10)', 'ARGS(j1:i1)', 'ARGS(z1:aa1)',
                 'ARGS(aa1:z1)', 'ARGS($b2:a$1)', 'ARGS(b$2:$a1)', 'ARGS(a0:a1)', 'ARGS(a1:a0)', 'ARGS(a007:b01)'):
        run(text)

    section('listener variants')
    for cell_mode in ('table', 'none', 'twice', 'label', 'silent'):
        for range_mode in ('grid', 'none', 'labels'):
            events = []
            fresh = make_parser(events, cell_mode, range_mode)
            for text in ('a1', '$B$2', 'q7', 'a1+1', 'b2:a1', 'A1:$c3', 'ARGS(a1,a1:a1)', ''):
                run(text, fresh, events)
    bare = Parser()
    for text in ('a1', 'A1:b2', 'b2:a1', 'SUM(a1:b2)', 'a1+1', 'a1&"x"', '', ' ', '1', '.5', '5%', '2^2', '"s"'):
        run(text, bare, [])

    section('direct calls')
    for label in ('a1', 'A1', '$a$1', 'a$1', '$a1', 'aa10', 'b0', 'xfd1048576', '', 'a', '1', 'a1 ', ' a1', 'a1\n', '$$a1',
                  'a-1', 'stra\xdfe1', '\xe41', 'A1:B2', None, 1, 1.5, True, ['a1'], b'a1'):
        call('call_cell_value', PARSER.call_cell_value, label)
    labels = ('a1', 'B2', '$c$3', 'c$1', '$a3', 'aa10', 'b0', '', 'zz', None, 5, 'a1 ')
    for s in labels:
        for e in labels:
            call('call_range_value', PARSER.call_range_value, s, e)
    for expression in ('', ' ', None, 0, 1, 1.5, True, [], [''], b'', b'1', ('1',), {'a': 1}):
        run(expression)

    print('evaluations: %d' % COUNT[0])


if __name__ == '__main__':
    main()
