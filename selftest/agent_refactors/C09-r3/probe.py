# -*- coding: utf-8 -*-
"""
Probe for C09 refactoring 3 (value setter closures -> one private callable class
and one shared emit helper in hotxlfp/parser.py).

Prints one line per evaluation: the input, repr() of the outcome and the events
the listeners saw (name, payload, and what the value setter was given).
"""
from __future__ import print_function
import os
import sys

ROOT = os.path.dirname(os.path.dirname(os.path.abspath(__file__)))
sys.path.insert(0, ROOT)

import hotxlfp  # noqa: E402
from hotxlfp import Parser  # noqa: E402
from hotxlfp import formulas  # noqa: E402
from hotxlfp.formulas import error as xlerror  # noqa: E402

COUNT = [0]


def show(tag, what, outcome, events=None):
    COUNT[0] += 1
    line = '%04d [%s] %s -> %r' % (COUNT[0], tag, what, outcome)
    if events is not None:
        line += ' | events=%r' % (events,)
    print(line)


class Box(object):
    """ a value with a stable repr """

    def __init__(self, tag):
        self.tag = tag

    def __repr__(self):
        return 'Box(%r)' % (self.tag,)


def payload_repr(x):
    if isinstance(x, BaseException):
        return '%s(%s)' % (type(x).__name__, x)
    if isinstance(x, list):
        return '[' + ', '.join(payload_repr(i) for i in x) + ']'
    return repr(x)


def outcome_repr(ret):
    return '{result: %s, error: %s}' % (payload_repr(ret['result']), payload_repr(ret['error']))


class Recorder(object):
    """ listeners that only look: they never set a value """

    def __init__(self, parser):
        self.events = []
        parser.on('callFunction', self.on_function)
        parser.on('callVariable', self.on_variable)
        parser.on('callCellValue', self.on_cell)
        parser.on('callRangeValue', self.on_range)

    def take(self):
        seen, self.events = self.events, []
        return seen

    def on_function(self, name, args, valsetter):
        self.events.append('F:%s%s' % (name, payload_repr(args)))

    def on_variable(self, name, valsetter):
        self.events.append('V:%s' % (name,))

    def on_cell(self, cell, valsetter):
        self.events.append('C:%r' % (cell,))

    def on_range(self, start, end, valsetter):
        self.events.append('R:%r..%r' % (start, end))


def run(tag, parser, formula, recorder=None):
    try:
        ret = parser.parse(formula)
        out = outcome_repr(ret)
    except BaseException as e:  # parse() is not expected to raise, show it if it does
        out = 'RAISED %s(%s)' % (type(e).__name__, e)
    show(tag, repr(formula), out, recorder.take() if recorder is not None else None)


def direct(tag, what, fn, recorder=None):
    try:
        out = payload_repr(fn())
    except BaseException as e:
        out = 'RAISED %s(%s)' % (type(e).__name__, e)
    xlerror.clear_tracebacks()
    show(tag, what, out, recorder.take() if recorder is not None else None)


# ---------------------------------------------------------------------------
# custom functions
# ---------------------------------------------------------------------------
CALLS = []


def f_echo(*args):
    CALLS.append(('ECHO', payload_repr(list(args))))
    return list(args)


def f_first(*args):
    CALLS.append(('FIRST', payload_repr(list(args))))
    return args[0]


def f_none(*args):
    CALLS.append(('NOTHING', payload_repr(list(args))))
    return None


def f_count(*args):
    CALLS.append(('NARGS', payload_repr(list(args))))
    return len(args)


def f_raise_name(*args):
    raise xlerror.NAME


def f_raise_div(*args):
    raise xlerror.DIV_ZERO


def f_raise_value_error(*args):
    raise ValueError('math domain error')


def f_raise_message(*args):
    raise RuntimeError('#N/A')


def f_return_error(*args):
    return xlerror.NUM


def f_custom_sum(*args):
    CALLS.append(('SUM', payload_repr(list(args))))
    return 'custom sum'


def f_box(*args):
    return Box(len(args))


def f_zero(*args):
    return 0


def f_false(*args):
    return False


def f_empty(*args):
    return ''


def install_functions(parser):
    parser.set_function('ECHO', f_echo)
    parser.set_function('FIRST', f_first)
    parser.set_function('NOTHING', f_none)
    parser.set_function('NARGS', f_count)
    parser.set_function('RAISENAME', f_raise_name)
    parser.set_function('RAISEDIV', f_raise_div)
    parser.set_function('RAISEVALUEERROR', f_raise_value_error)
    parser.set_function('RAISEMESSAGE', f_raise_message)
    parser.set_function('RETURNERROR', f_return_error)
    parser.set_function('BOXED', f_box)
    parser.set_function('ZERO', f_zero)
    parser.set_function('FALSY', f_false)
    parser.set_function('EMPTY', f_empty)
    parser.set_function('lower_case', f_count)
    parser.set_function('Dotted.Name', f_count)
    return parser


VARIABLES = [
    ('x', 2),
    ('y', 3.5),
    ('neg', -7),
    ('zero', 0),
    ('big', 10 ** 20),
    ('tiny', 1e-300),
    ('text', 'hello'),
    ('empty', ''),
    ('yes', True),
    ('no', False),
    ('nothing', None),
    ('arr', [1, 2, 3]),
    ('matrix', [[1, 2], [3, 4]]),
    ('err', xlerror.DIV_ZERO),
    ('nameerr', xlerror.NAME),
    ('boxed', Box('v')),
    ('MY_VAR', 11),
    ('_under', 12),
    ('SUM', 13),
    ('numtext', '42'),
    ('tup', (1, 2)),
    ('dct', {'a': 1}),
]


def install_variables(parser):
    for name, value in VARIABLES:
        parser.set_variable(name, value)
    return parser


FORMULAS = [
    # variables on their own
    'x', 'y', 'neg', 'zero', 'big', 'tiny', 'text', 'empty', 'yes', 'no', 'nothing', 'arr', 'matrix',
    'err', 'nameerr', 'boxed', 'MY_VAR', '_under', 'SUM', 'numtext', 'tup', 'dct',
    'TRUE', 'FALSE', 'NULL', 'true', 'False', 'null',
    # unknown variables
    'unknown', 'UNKNOWN_VAR', 'X', 'Y', 'xx', 'x_', '_', 'foo.bar', 'x.y', 'x.unknown', 'unknown.x',
    # variables in expressions
    'x + y', 'x * unknown', 'unknown + 1', '1 + unknown', 'x & text', 'text & unknown', '-x', '-unknown',
    'x = 2', 'unknown = unknown', 'nothing & "a"', 'err + 1', '1 + err', 'nameerr & "a"', 'yes + 1',
    '(x)', '(unknown)', '{x, y}', '{x, unknown}', 'x ^ 2', 'x%', 'NULL = NULL', 'TRUE + TRUE',
    'IF(TRUE, x, unknown)', 'IF(FALSE, x, unknown)', 'ISBLANK(NULL)', 'ISBLANK(nothing)', 'ISBLANK(unknown)',
    'IFERROR(unknown, 5)', 'ISERROR(unknown)', 'ISNA(unknown)', 'SUM(arr)', 'SUM(matrix)', 'SUM(x, y, neg)',
    'SUM(x, unknown)', 'SUM(SUM)', 'SUM(SUM, SUM(SUM))', 'LEN(text)', 'LEN(empty)', 'UPPER(text)',
    # custom functions
    'ECHO()', 'ECHO(1)', 'ECHO(1, 2, 3)', 'ECHO(1; 2; 3)', 'ECHO(x, y)', 'ECHO(, 1)', 'ECHO(1, )', 'ECHO(1,, 2)',
    'ECHO(,,)', 'ECHO("a", TRUE, NULL)', 'ECHO({1, 2}, {3; 4})', 'ECHO(unknown)', 'ECHO(1, unknown, 3)',
    'ECHO(ECHO(1), ECHO(2, 3))', 'ECHO(#N/A)', 'ECHO(1/0)', 'ECHO(x, "x", X)', 'ECHO(-1, +1)'.replace('+1', '1'),
    'FIRST(5, 6)', 'FIRST()', 'FIRST("a")', 'FIRST(arr)', 'FIRST(err)', 'FIRST(nothing)', 'FIRST(NULL, 1)',
    'NOTHING()', 'NOTHING(1)', 'NOTHING() & "a"', 'ISBLANK(NOTHING())', 'NOTHING() + 1',
    'NARGS()', 'NARGS(1)', 'NARGS(1, 2)', 'NARGS(1, 2, 3, 4, 5, 6, 7, 8, 9, 10)', 'NARGS(,)', 'NARGS({1, 2, 3})',
    'NARGS(1; 2)', 'NARGS(NARGS(), NARGS(1))', 'NARGS() + NARGS(1) * NARGS(1, 2)',
    'RAISENAME()', 'RAISENAME() + 1', 'IFERROR(RAISENAME(), "caught")', 'ISERROR(RAISENAME())',
    'RAISEDIV()', '1 + RAISEDIV()', 'IFERROR(RAISEDIV(), 0)', 'ECHO(RAISEDIV(), 1)',
    'RAISEVALUEERROR()', 'IFERROR(RAISEVALUEERROR(), "caught")', 'RAISEVALUEERROR() & "a"',
    'RAISEMESSAGE()', 'ISNA(RAISEMESSAGE())', 'RETURNERROR()', 'RETURNERROR() + 1', 'ISERROR(RETURNERROR())',
    'BOXED()', 'BOXED(1, 2)', 'ZERO()', 'FALSY()', 'EMPTY()', 'ZERO() + 1', 'EMPTY() & "z"',
    'lower_case(1)', 'Dotted.Name(1, 2)', 'LOWER_CASE(1)', 'echo(1)', 'Echo(1)',
    # unknown functions
    'NOPE()', 'NOPE(1)', 'NOPE(1, 2)', 'NOPE(unknown)', 'NOPE(ECHO(1))', 'ECHO(NOPE(1))', '1 + NOPE()',
    'NOPE() & "a"', 'IFERROR(NOPE(), 1)', 'ISERROR(NOPE())', 'sum(1, 2)', 'Sum(1, 2)', 'SUMM(1)', 'SU(1)',
    'IF(TRUE, 1, NOPE())', 'IF(FALSE, 1, NOPE())', 'x(1)', 'TRUE()', 'FALSE()', 'NULL()', 'MY_VAR(1)', 'A.B.C(1)',
    # built-ins
    'SUM(1, 2, 3)', 'SUM()', 'SUM("a")', 'ABS(-3)', 'ABS()', 'ABS(1, 2)', 'SQRT(-1)', 'LN(0)', 'LOG(-1)', 'ACOS(2)',
    'MAX(1, 5, 3)', 'MIN()', 'AND(TRUE, FALSE)', 'OR(TRUE, FALSE)', 'NOT(TRUE)', 'CONCATENATE("a", "b", 1)',
    'IF(1 > 2, "a", "b")', 'IFERROR(1/0, "div")', 'ISNUMBER(1)', 'ISTEXT("a")', 'ISLOGICAL(TRUE)', 'NA()',
    'CEILING.MATH(1.5)', 'CEILING.PRECISE(1.5)', 'FLOOR.MATH(1.5)', 'POWER(2, 10)', 'MOD(7, 3)', 'MOD(7, 0)',
    'ROUND(2.567, 1)', 'LEFT("hello", 2)', 'MID("hello", 2, 2)', 'TRIM("  a  b ")', 'REPT("ab", 3)',
    'AVERAGE(1, 2, 3, 4)', 'AVERAGE()', 'COUNT(1, "a", TRUE)', 'COUNTA(1, "a", NULL)', 'CHOOSE(2, "a", "b")',
    'SUM({1, 2; 3, 4})', 'SUM(1, {2, 3}, x)', 'PI()', 'PI(1)', 'TRUE', 'EXP(1000)', 'FACT(-1)', 'FACT(5)',
    # cells and ranges
    'A1', 'a1', '$A$1', '$b2', 'C$3', 'A1 + 1', 'A1 & "x"', 'ISBLANK(A1)', 'ECHO(A1, B2)', 'ZZ100',
    'A1:B2', 'B2:A1', 'a2:B1', '$A$1:$C$3', 'C3:$A1', 'SUM(A1:B2)', 'ECHO(A1:B2)', 'A1:A1', 'AB12:C3', 'A$5:$B1',
    # syntax and other errors
    '', ' ', '1 +', '((', 'ECHO(', 'ECHO)', '#REF!', '#NAME?', '#N/A', '#FOO', '1 / 0', '"text"', "'single'",
    '1', '1.5', '.5', '2^3', '50%', '-1', '@', 'x y', 'x,', '1 x', '!', 'ECHO(1)ECHO(2)',
]


# ---------------------------------------------------------------------------
# listener sets
# ---------------------------------------------------------------------------
VAR_OVERRIDES = {
    'unknown': 99,            # an unknown variable gets a value
    'UNKNOWN_VAR': None,      # None is "no value": stays unknown
    'x': 1000,                # a known variable is overridden
    'y': None,                # None keeps the stored value
    'zero': '',               # falsy but not None: overrides
    'text': 0,
    'yes': False,
    'X': [7, 8],
    'nothing': 'something',
    'NULL': 'not null',
    'TRUE': 0,
    'err': 5,
    'xx': xlerror.REF,
}

FN_OVERRIDES = {
    'ECHO': None,
    'FIRST': 'first overridden',
    'NOTHING': 0,
    'NARGS': False,
    'SUM': '',
    'RAISEDIV': 'no more div',
    'RAISEVALUEERROR': xlerror.VALUE,
    'ABS': [1],
    'NOPE': 'never seen',     # unknown functions raise before the event
}


def add_overriding_listeners(parser, log):
    def on_variable(name, valsetter):
        if name in VAR_OVERRIDES:
            log.append('set V:%s=%s' % (name, payload_repr(VAR_OVERRIDES[name])))
            valsetter(VAR_OVERRIDES[name])

    def on_function(name, args, valsetter):
        if name in FN_OVERRIDES:
            log.append('set F:%s=%s' % (name, payload_repr(FN_OVERRIDES[name])))
            valsetter(new_value=FN_OVERRIDES[name])  # by keyword

    def on_cell(cell, valsetter):
        if cell.col.index == 0:
            valsetter(cell.row.index + 1)
        elif cell.col.index == 1:
            valsetter('col B')
        elif cell.col.index == 2:
            valsetter(None)

    def on_range(start, end, valsetter):
        rows = []
        for r in range(start.row.index, end.row.index + 1):
            rows.append([r * 10 + c for c in range(start.col.index, end.col.index + 1)])
        valsetter(rows)

    parser.on('callVariable', on_variable)
    parser.on('callFunction', on_function)
    parser.on('callCellValue', on_cell)
    parser.on('callRangeValue', on_range)


def add_second_listeners(parser, log):
    """ registered after the overriding ones: the last value that is not None wins """
    def on_variable(name, valsetter):
        if name == 'x':
            valsetter(None)
            log.append('second V:x None')
        elif name == 'unknown':
            valsetter('second')
            valsetter(None)
            log.append('second V:unknown second,None')
        elif name == 'neg':
            valsetter(1)
            valsetter(2)
            valsetter(3)
            log.append('second V:neg 1,2,3')

    def on_function(name, args, valsetter):
        if name == 'FIRST':
            valsetter('second first')
        elif name == 'NARGS':
            valsetter(None)
        elif name == 'ZERO':
            valsetter(len(args))

    def on_cell(cell, valsetter):
        if cell.row.index == 1:
            valsetter('row 2')

    def on_range(start, end, valsetter):
        if start.row.index == end.row.index and start.col.index == end.col.index:
            valsetter('single cell range')

    parser.on('callVariable', on_variable)
    parser.on('callFunction', on_function)
    parser.on('callCellValue', on_cell)
    parser.on('callRangeValue', on_range)


class Boom(Exception):
    pass


def add_failing_listeners(parser):
    def on_variable(name, valsetter):
        if name == 'x':
            raise Boom('listener failed')
        if name == 'y':
            raise xlerror.NUM
        if name == 'unknown':
            valsetter(1)
            raise xlerror.NOT_AVAILABLE

    def on_function(name, args, valsetter):
        if name == 'ECHO':
            raise Boom('listener failed')
        if name == 'FIRST':
            raise xlerror.REF
        if name == 'SUM':
            raise RuntimeError('#VALUE!')

    def on_cell(cell, valsetter):
        if cell.col.index == 0:
            raise xlerror.NULL
        valsetter(1)

    def on_range(start, end, valsetter):
        raise Boom('no ranges')

    parser.on('callVariable', on_variable)
    parser.on('callFunction', on_function)
    parser.on('callCellValue', on_cell)
    parser.on('callRangeValue', on_range)


def main():
    # 1. a plain parser, no listeners at all ---------------------------------
    plain = install_variables(install_functions(Parser()))
    for f in FORMULAS:
        del CALLS[:]
        run('plain', plain, f)
        if CALLS:
            show('plain', 'custom calls of ' + repr(f), list(CALLS))

    # 2. recording listeners only, same formulas, on a second parser ---------
    rec_parser = install_variables(install_functions(Parser()))
    rec = Recorder(rec_parser)
    for f in FORMULAS:
        run('recorded', rec_parser, f, rec)

    # 3. overriding listeners (first the recorder, then the overriders) ------
    over = install_variables(install_functions(Parser()))
    rec = Recorder(over)
    log = []
    add_overriding_listeners(over, log)
    for f in FORMULAS:
        del log[:]
        del CALLS[:]
        run('override', over, f, rec)
        if log or CALLS:
            show('override', 'log of ' + repr(f), list(log) + list(CALLS))

    # 4. two setters per event: the last value that is not None wins -----------
    both = install_variables(install_functions(Parser()))
    rec = Recorder(both)
    log = []
    add_overriding_listeners(both, log)
    add_second_listeners(both, log)
    for f in ['x', 'unknown', 'neg', 'y', 'x + unknown + neg', 'FIRST(1, 2)', 'NARGS(1, 2)', 'ZERO()', 'ZERO(1, 2, 3)',
              'A1', 'A2', 'B1', 'B2', 'C1', 'C2', 'D4', 'A1:A1', 'B2:B2', 'A1:B2', 'B2:A1', 'SUM(A1:C3)', 'SUM(C3:A1)',
              'ECHO(x, unknown, neg, A1, A2, A1:A1)', 'UNKNOWN_VAR', 'NOPE(x)', 'x', 'unknown']:
        del log[:]
        run('two-setters', both, f, rec)
        show('two-setters', 'log of ' + repr(f), list(log))

    # 5. listeners that fail ----------------------------------------------------
    failing = install_variables(install_functions(Parser()))
    rec = Recorder(failing)
    add_failing_listeners(failing)
    for f in ['x', 'y', 'unknown', 'neg', 'x + 1', 'IFERROR(x, 1)', 'IFERROR(y, 1)', 'ECHO(1)', 'FIRST(1)', 'SUM(1, 2)',
              'NARGS(1)', 'NARGS(x)', 'NARGS(ECHO(1))', 'A1', 'B1', 'A1:B2', 'NOPE()', 'other', 'neg', 'NARGS(1)']:
        run('failing', failing, f, rec)

    # 6. once-listeners, removal of listeners, listeners that change the parser
    once = install_variables(install_functions(Parser()))
    rec = Recorder(once)
    once.once('callVariable', lambda name, valsetter: valsetter('once ' + name))
    once.once('callFunction', lambda name, args, valsetter: valsetter('once ' + name))
    for f in ['x', 'x', 'unknown', 'ECHO(1)', 'ECHO(1)', 'x & unknown']:
        run('once', once, f, rec)
    once.once('callVariable', lambda name, valsetter: valsetter('once ' + name))
    for f in ['ECHO(x, unknown, x)', 'ECHO(x, unknown, x)']:
        run('once', once, f, rec)

    def define_on_use(name, valsetter):
        # the variable is only stored: the call that is under way keeps what it read before the event
        once.set_variable(name, 'defined by listener')

    once.on('callVariable', define_on_use)
    for f in ['fresh', 'fresh', 'fresh2 & fresh2', 'x', 'x']:
        run('define-on-use', once, f, rec)
    once.off('callVariable', define_on_use)
    for f in ['fresh', 'fresh3', 'x']:
        run('after-off', once, f, rec)
    once.off('callVariable')
    once.off('callFunction')
    for f in ['fresh', 'fresh3', 'ECHO(fresh)']:
        run('all-off', once, f, None)

    def redefine_function(name, args, valsetter):
        once.set_function(name, f_count)

    once.on('callFunction', redefine_function)
    for f in ['ECHO(1, 2)', 'ECHO(1, 2)', 'SUM(1, 2)', 'SUM(1, 2)', 'NOPE(1)', 'NOPE(1)']:
        run('redefine', once, f, None)

    # 7. a value setter that is kept and used after its call is over ----------
    late = install_variables(install_functions(Parser()))
    kept = []
    late.on('callVariable', lambda name, valsetter: kept.append(valsetter))
    late.on('callFunction', lambda name, args, valsetter: kept.append(valsetter))
    for f in ['x', 'unknown', 'ECHO(x)', 'x']:
        run('late', late, f)
        for setter in kept:
            setter('too late')
            setter(None)
        show('late', 'setters kept', len(kept))
    show('late', 'distinct setters', len(set(id(s) for s in kept)) == len(kept))
    show('late', 'setters callable', all(callable(s) for s in kept))

    # 8. precedence of custom functions over built-ins, None as "not registered"
    prec = Parser()
    rec = Recorder(prec)
    for f in ['SUM(1, 2)', 'ABS(-1)', 'PI()']:
        run('builtin', prec, f, rec)
    prec.set_function('SUM', f_custom_sum).set_function('PI', f_zero).set_function('ABS', None)
    for f in ['SUM(1, 2)', 'SUM()', 'ABS(-1)', 'PI()', 'PI() + 1', 'SUM(SUM(1), 2)']:
        del CALLS[:]
        run('shadowed', prec, f, rec)
        show('shadowed', 'custom calls', list(CALLS))
    prec.set_function('NOTBUILTIN', None)
    run('shadowed', prec, 'NOTBUILTIN(1)', rec)
    prec.set_function('SUM', None)
    run('unshadowed', prec, 'SUM(1, 2)', rec)
    show('unshadowed', 'get_function', prec.get_function('PI') is f_zero)
    fresh = Parser()
    for f in ['SUM(1, 2)', 'PI()', 'ECHO(1)', 'x', 'TRUE', 'FALSE', 'NULL']:
        run('fresh-parser', fresh, f)
    fresh.set_variable('TRUE', 'redefined').set_variable('NULL', 0)
    for f in ['TRUE', 'FALSE', 'NULL', 'ISBLANK(NULL)']:
        run('fresh-parser', fresh, f)
    show('fresh-parser', 'get_variable', fresh.get_variable('TRUE'))

    # 9. the call_* methods directly ----------------------------------------------
    d = install_variables(install_functions(Parser()))
    rec = Recorder(d)
    log = []
    direct('direct', "call_function('SUM', [1, 2])", lambda: d.call_function('SUM', [1, 2]), rec)
    direct('direct', "call_function('SUM')", lambda: d.call_function('SUM'), rec)
    direct('direct', "call_function('SUM', None)", lambda: d.call_function('SUM', None), rec)
    direct('direct', "call_function('SUM', ())", lambda: d.call_function('SUM', ()), rec)
    direct('direct', "call_function('ECHO', [1, None, 'a'])", lambda: d.call_function('ECHO', [1, None, 'a']), rec)
    direct('direct', "call_function('ECHO', 'ab')", lambda: d.call_function('ECHO', 'ab'), rec)
    direct('direct', "call_function('NOPE')", lambda: d.call_function('NOPE'), rec)
    direct('direct', "call_function('NOPE', [1])", lambda: d.call_function('NOPE', [1]), rec)
    direct('direct', "call_function('RAISEDIV')", lambda: d.call_function('RAISEDIV'), rec)
    direct('direct', "call_function('RAISEVALUEERROR')", lambda: d.call_function('RAISEVALUEERROR'), rec)
    direct('direct', "call_function('RAISEMESSAGE')", lambda: d.call_function('RAISEMESSAGE'), rec)
    direct('direct', "call_function('NOTHING')", lambda: d.call_function('NOTHING'), rec)
    direct('direct', "call_function('ABS', [1, 2])", lambda: d.call_function('ABS', [1, 2]), rec)
    direct('direct', "call_function('sum', [1])", lambda: d.call_function('sum', [1]), rec)
    direct('direct', "call_function(None)", lambda: d.call_function(None), rec)
    direct('direct', "call_function('')", lambda: d.call_function(''), rec)
    for name in ['x', 'nothing', 'zero', 'err', 'unknown', 'TRUE', 'NULL', '', 'A1']:
        direct('direct', 'call_variable(%r)' % (name,), lambda: d.call_variable(name), rec)
    direct('direct', 'call_variable(None)', lambda: d.call_variable(None), rec)
    direct('direct', 'call_variable(1)', lambda: d.call_variable(1), rec)
    for label in ['A1', 'a1', '$B$2', 'zz10', 'AA$1']:
        direct('direct', 'call_cell_value(%r)' % (label,), lambda: d.call_cell_value(label), rec)
    direct('direct', "call_cell_value('nonsense')", lambda: d.call_cell_value('nonsense'), rec)
    for a, b in [('A1', 'B2'), ('B2', 'A1'), ('a2', 'b1'), ('$C$3', 'A1'), (None, 'A1'), ('A1', None), (None, None),
                 ('A1', 'A1'), ('B$1', '$A2')]:
        direct('direct', 'call_range_value(%r, %r)' % (a, b), lambda: d.call_range_value(a, b), rec)
    direct('direct', "call_range_value('A1', 'junk')", lambda: d.call_range_value('A1', 'junk'), rec)
    add_overriding_listeners(d, log)
    direct('direct+set', "call_function('SUM', [1, 2])", lambda: d.call_function('SUM', [1, 2]), rec)
    direct('direct+set', "call_function('ECHO', [1])", lambda: d.call_function('ECHO', [1]), rec)
    direct('direct+set', "call_function('NOPE', [1])", lambda: d.call_function('NOPE', [1]), rec)
    for name in ['x', 'y', 'unknown', 'UNKNOWN_VAR', 'zero', 'NULL', 'other']:
        direct('direct+set', 'call_variable(%r)' % (name,), lambda: d.call_variable(name), rec)
    for label in ['A1', 'b7', 'C3', 'D4']:
        direct('direct+set', 'call_cell_value(%r)' % (label,), lambda: d.call_cell_value(label), rec)
    for a, b in [('A1', 'B2'), ('B2', 'A1'), ('c1', 'a3'), (None, 'A1')]:
        direct('direct+set', 'call_range_value(%r, %r)' % (a, b), lambda: d.call_range_value(a, b), rec)
    show('direct+set', 'log', list(log))

    # 10. a parser inside a custom function, and the same formulas again on the first parser
    outer = install_functions(Parser())
    inner_parsers = []

    def f_eval(text):
        inner = install_variables(install_functions(Parser()))
        inner_parsers.append(inner)
        return inner.parse(text)['result']

    outer.set_function('EVAL', f_eval)
    for f in ['EVAL("1+1")', 'EVAL("x")', 'EVAL("unknown")', 'EVAL("ECHO(1, 2)")', 'EVAL("NOPE()")', 'EVAL(x)',
              'ECHO(EVAL("x"), EVAL("y"))']:
        run('nested', outer, f)
    for f in FORMULAS[:40]:
        run('plain-again', plain, f)

    # 11. every name listed in SUPPORTED_FORMULAS.md ------------------------------
    listed = []
    section = 'listed'
    with open(os.path.join(ROOT, 'SUPPORTED_FORMULAS.md')) as fh:
        for line in fh:
            line = line.strip()
            if line.startswith('#'):
                section = 'not-yet-supported' if 'Not Yet' in line else 'supported'
            elif line.startswith('* '):
                listed.append((section, line[2:].strip()))
    show('supported', 'number of names listed', len(listed))
    sup = Parser()
    rec = Recorder(sup)
    volatile = ('NOW', 'TODAY', 'RAND', 'RANDBETWEEN')
    for section, name in listed:
        show(section, name, (formulas.is_supported(name), name in sup.functions))
        if name in volatile:
            continue
        run(section, sup, name + '(1, 2)', rec)
        if section == 'supported':
            run(section, sup, name, rec)
            run(section, sup, name + '()', rec)

    print('evaluations: %d' % COUNT[0])


if __name__ == '__main__':
    main()
