# -*- coding: utf-8 -*-
"""
Probe for C04 refactoring 2 (formulas/operators.py: evaluate_arithmetic / evaluate_logic).
Calls the two functions directly over a cross product of operand kinds and operators, then
through formulas, and prints a deterministic transcript (one line per evaluation).
"""
import os
import sys
import random
import datetime

sys.path.insert(0, os.path.dirname(os.path.dirname(os.path.abspath(__file__))))

import hotxlfp  # noqa: E402
from hotxlfp.formulas import error as xlerror  # noqa: E402
from hotxlfp.formulas import operators  # noqa: E402

COUNT = [0]


def show(value):
    if isinstance(value, xlerror.XLError):
        return 'XLError(%r)' % str(value)
    if isinstance(value, list):
        return '[' + ', '.join(show(v) for v in value) + ']'
    if isinstance(value, tuple):
        return '(' + ', '.join(show(v) for v in value) + ')'
    if isinstance(value, dict):
        return '{' + ', '.join('%r: %s' % (k, show(value[k])) for k in sorted(value)) + '}'
    return '%s:%r' % (type(value).__name__, value)


class Odd(object):
    """an operand type the library knows nothing about (repr without an address)"""

    def __init__(self, tag):
        self.tag = tag

    def __repr__(self):
        return 'Odd(%r)' % self.tag


class OwnError(xlerror.XLError):
    pass


def section(title):
    print('## ' + title)


def call(fn, op, left, right):
    before = (show(left), show(right))
    try:
        outcome = show(fn(op, left, right))
    except BaseException as exc:
        outcome = 'RAISED %s(%s)' % (type(exc).__name__, exc)
    after = (show(left), show(right))
    COUNT[0] += 1
    print('%04d %s(%r, %s, %s) -> %s%s' % (COUNT[0], fn.__name__, op, before[0], before[1], outcome,
                                           '' if before == after else ' | OPERANDS CHANGED %s %s' % after))


VALUES = [
    0, 1, -3, 7, 2 ** 70, 0.0, -0.0, 2.5, -1e-9, 1e308, float('inf'), float('nan'), 1 + 2j,
    True, False, None,
    '', 'abc', 'hello world', '12', '-4', '1.5', ' 3 ', '1e3', '2020-01-31', '31/12/1999 10:30', '1899-12-31',
    datetime.datetime(2020, 2, 29, 12, 0), datetime.datetime(1900, 1, 1), datetime.datetime(1900, 2, 28),
    datetime.datetime(1900, 3, 1), datetime.datetime(1850, 6, 1), datetime.datetime(9999, 12, 31),
    [], [5], [1, 2, 3], [10, 20], [1, 'a', None, True, xlerror.NUM], [[1, 2], [3, 4]], ['2020-01-31', 0],
    [datetime.datetime(2000, 1, 1)],
    (1, 2), {'k': 1}, Odd('x'),
    xlerror.ERROR, xlerror.DIV_ZERO, xlerror.NAME, xlerror.NOT_AVAILABLE, xlerror.NULL, xlerror.NUM, xlerror.REF,
    xlerror.VALUE, xlerror.DATA, xlerror.XLError('#CUSTOM'), OwnError('#OWN'),
]

RIGHTS = [0, 2, -0.0, 2.5, True, None, '', 'abc', '12', '2020-01-31', datetime.datetime(2020, 2, 29, 12, 0),
          datetime.datetime(1900, 1, 1), [], [5], [1, 2, 3], [10, 20], (1, 2), Odd('y'),
          xlerror.NOT_AVAILABLE, xlerror.XLError('#CUSTOM')]

# ---------------------------------------------------------------------------------------------
section('evaluate_arithmetic: every operator over operand kinds')
for op in ['+', '-', '*', '/']:
    for left in VALUES:
        for right in RIGHTS:
            call(operators.evaluate_arithmetic, op, left, right)

section('evaluate_arithmetic: right operand sweep against a few left operands')
for op in ['+', '-', '*', '/']:
    for left in [3, None, '7', datetime.datetime(2001, 1, 1), [4, 5, 6]]:
        for right in VALUES:
            call(operators.evaluate_arithmetic, op, left, right)

section('evaluate_arithmetic: operators it has no table for')
for op in ['^', '&', '=', '<>', '<', '>', '<=', '>=', '%', '', None, 'plus', '++', 1]:
    for left, right in [(1, 2), (None, None), ('a', 1), (1, 'a'), ([1, 2], 1), (1, [1, 2]), ([1], [2]),
                        (xlerror.NUM, 1), (1, xlerror.NUM), (Odd('x'), 1), (1, Odd('x')),
                        (datetime.datetime(2000, 1, 1), 1)]:
        call(operators.evaluate_arithmetic, op, left, right)

# ---------------------------------------------------------------------------------------------
section('evaluate_logic: every operator over operand kinds')
LOGIC_VALUES = [v for v in VALUES if not isinstance(v, dict)]
LOGIC_RIGHTS = [0, 2, 2.5, True, False, None, '', 'abc', 'ABC', '12', datetime.datetime(2020, 2, 29, 12, 0), [1, 2, 3],
                xlerror.NOT_AVAILABLE, xlerror.XLError('#CUSTOM')]
for op in ['=', '<>', '<', '>', '<=', '>=']:
    for left in LOGIC_VALUES:
        for right in LOGIC_RIGHTS:
            call(operators.evaluate_logic, op, left, right)

section('evaluate_logic: operators outside the comparisons')
for op in ['+', '-', '*', '/', '&', '==', '!=', '', None]:
    for left, right in [(1, 2), (None, None), ('a', 1), ([1, 2], 1), (xlerror.NUM, 1), (1, xlerror.NUM),
                        (xlerror.NUM, xlerror.REF)]:
        call(operators.evaluate_logic, op, left, right)

# ---------------------------------------------------------------------------------------------
section('error operands are handed on as the very same object')
for fn in (operators.evaluate_arithmetic, operators.evaluate_logic):
    own_left, own_right = OwnError('#L'), OwnError('#R')
    for op in (['+', '-', '*', '/'] if fn is operators.evaluate_arithmetic else ['=', '<>', '<', '>', '<=', '>=']):
        COUNT[0] += 1
        print('%04d %s %r left-wins=%r right-only=%r shared=%r' % (
            COUNT[0], fn.__name__, op,
            fn(op, own_left, own_right) is own_left,
            fn(op, 1, own_right) is own_right,
            fn(op, xlerror.NUM, 1) is xlerror.NUM))

# ---------------------------------------------------------------------------------------------
section('array operands (ExcelArrayOps goes back through evaluate_arithmetic)')
for op, name in [('+', '__add__'), ('+', '__radd__'), ('-', '__sub__'), ('-', '__rsub__'), ('*', '__mul__'),
                 ('*', '__rmul__'), ('/', '__truediv__'), ('/', '__rtruediv__')]:
    for arr in [[], [1], [1, 2, 3], [None, '2', 'x', True, xlerror.NUM, datetime.datetime(2000, 1, 1), [1, 2]]]:
        for other in [2, 0, None, 'x', '3', [7], [1, 2, 3], [1, 2], [], xlerror.REF,
                      [9, 9, 9, 9, 9, 9, 9], datetime.datetime(2000, 1, 1)]:
            before = show(arr)
            try:
                outcome = show(getattr(operators.ExcelArrayOps(arr), name)(other))
            except BaseException as exc:
                outcome = 'RAISED %s(%s)' % (type(exc).__name__, exc)
            COUNT[0] += 1
            print('%04d ExcelArrayOps(%s).%s(%s) -> %s%s' % (COUNT[0], before, name, show(other), outcome,
                                                           '' if before == show(arr) else ' | ARRAY CHANGED'))

# ---------------------------------------------------------------------------------------------
section('the same code reached through formulas')
PARSER = hotxlfp.Parser()
EVENTS = []
PARSER.on('callVariable', lambda name, setter: EVENTS.append(('callVariable', name)))
PARSER.on('callFunction', lambda name, args, setter: EVENTS.append(('callFunction', name, show(args))))
PARSER.set_variable('blank', None)
PARSER.set_variable('dte', datetime.datetime(2020, 2, 29, 12, 0))
PARSER.set_variable('lst', [1, 2, 3])
PARSER.set_variable('odd', Odd('x'))
PARSER.set_variable('own', OwnError('#OWN'))
PARSER.set_variable('cplx', 1 + 2j)
PARSER.set_variable('inf', float('inf'))


def run(formula):
    del EVENTS[:]
    try:
        outcome = show(PARSER.parse(formula))
    except BaseException as exc:
        outcome = 'RAISED %s(%s)' % (type(exc).__name__, exc)
    COUNT[0] += 1
    print('%04d %r -> %s | events=%r' % (COUNT[0], formula, outcome, EVENTS))


ATOMS = ['1', '0', '2.5', '-3', '"12"', '"abc"', '""', 'TRUE', 'FALSE', 'NULL', 'blank', 'dte', 'lst', '{4,5,6}',
         '{7}', '"2020-01-31"', '#N/A', '#DIV/0!', 'own', 'odd', 'cplx', 'inf', 'nosuch', 'SUM(1,2)', '1/0']
for op in ['+', '-', '*', '/', '=', '<>', '<', '>', '<=', '>=']:
    for left in ATOMS:
        for right in ['2', '0', 'blank', '"12"', 'dte', 'lst', '#REF!']:
            run(left + op + right)

section('precedence and grouping on top of the two functions')
RNG = random.Random(4)
LEAVES = ['0', '1', '2', '3', '7', '10', '1.5', '.25', '50%', '"4"', '"abc"', '""', 'TRUE', 'FALSE', 'NULL', 'blank',
          'dte', 'lst', '{1,2,3}', '#N/A', 'SUM(1,2)']
OPS = ['+', '-', '*', '/', '+', '-', '*', '/', '=', '<>', '<', '>', '<=', '>=']


def tree(depth):
    if depth == 0 or RNG.random() < 0.2:
        return RNG.choice(LEAVES)
    if RNG.random() < 0.12:
        return '(-' + tree(depth - 1) + ')'
    return '(' + tree(depth - 1) + RNG.choice(OPS) + tree(depth - 1) + ')'


for _ in range(200):
    run(tree(RNG.choice([1, 2, 3, 4])))
for f in ['1+2*3', '(1+2)*3', '1-2-3', '1-(2-3)', '8/4/2', '8/(4/2)', '2*3=6', '6=2*3', '1+1=2', '1<2+3', '(1<2)+3',
          '1=1=1', '1<2<3', '3>2>1', '1/0=1', '1=1/0', '1/0+#N/A', '#N/A+1/0', '-1+2', '-(1+2)', '1--1', '1+', '*1']:
    run(f)

# ---------------------------------------------------------------------------------------------
section('the conversion table is left as it was')
TABLE = operators.IMPLICIT_DATA_TYPE_CONVERSIONS


def type_name(t):
    return t.__name__ if isinstance(t, type) else '/'.join(x.__name__ for x in t)


for op in sorted(TABLE):
    for ltype in sorted(TABLE[op], key=type_name):
        for rtype in sorted(TABLE[op][ltype], key=type_name):
            entry = TABLE[op][ltype][rtype]
            print('table %r %s %s keys=%r' % (op, type_name(ltype), type_name(rtype), sorted(entry)))
print('public=%r' % sorted(n for n in dir(operators) if not n.startswith('_')))
print('evaluations=%d' % COUNT[0])
