# -*- coding: utf-8 -*-
"""
Probe for C04 refactoring 4 (grammarparser/parser.py: the grammar actions for
+ - * / &, unary minus and number literals).

Prints one line per evaluation: the formula, repr() of the outcome (or the
exception type and message) and the events seen. Deterministic: no clock, seeded
randomness only, no memory addresses.
"""
import os
import sys
import datetime
import random

sys.path.insert(0, os.path.dirname(os.path.dirname(os.path.abspath(__file__))))

import hotxlfp  # noqa: E402
from hotxlfp import Parser  # noqa: E402
from hotxlfp.formulas import error  # noqa: E402
from hotxlfp.grammarparser.parser import FormulaParser  # noqa: E402

COUNT = [0]
TRACE = []  # what the stand-in objects were asked to do, in order


class Traced(object):
    """a host value that reports when it is turned into text, negated or used in arithmetic"""

    def __init__(self, name):
        self.name = name

    def __str__(self):
        TRACE.append('str(%s)' % self.name)
        return '<' + self.name + '>'

    def __repr__(self):
        return 'Traced(%r)' % self.name

    def __neg__(self):
        TRACE.append('neg(%s)' % self.name)
        return 'minus-' + self.name


class Grumpy(object):
    """a host value whose conversions fail"""

    def __repr__(self):
        return 'Grumpy()'

    def __str__(self):
        TRACE.append('str(grumpy)')
        raise ValueError('no text')

    def __neg__(self):
        TRACE.append('neg(grumpy)')
        raise error.NUM


def make_parser(events=None):
    p = Parser()
    p.set_variable('blank', None)
    p.set_variable('one', 1)
    p.set_variable('half', 0.5)
    p.set_variable('neg', -7)
    p.set_variable('zero', 0)
    p.set_variable('negzero', -0.0)
    p.set_variable('txt', 'abc')
    p.set_variable('emptytxt', '')
    p.set_variable('numtxt', '12')
    p.set_variable('day', datetime.datetime(2020, 1, 15))
    p.set_variable('arr', [1, 2, 3])
    p.set_variable('arrb', [10, 20, 30])
    p.set_variable('arrmix', [1, 'x', None, True, '4'])
    p.set_variable('empty', [])
    p.set_variable('nested', [[1, 2], [3, 4]])
    p.set_variable('err', error.NUM)
    p.set_variable('errb', error.REF)
    p.set_variable('cplx', 1 + 2j)
    p.set_variable('obj', {'a': 1})
    p.set_variable('tup', (1, 2))
    p.set_variable('big', 10 ** 30)
    p.set_variable('inf', float('inf'))
    p.set_variable('ta', Traced('a'))
    p.set_variable('tb', Traced('b'))
    p.set_variable('grumpy', Grumpy())
    p.set_function('BLANK', lambda: None)
    p.set_function('FAIL', lambda *a: error.NOT_AVAILABLE)
    p.set_function('ECHO', lambda *a: a[0] if len(a) == 1 else list(a))
    if events is not None:
        def on_var(name, setter):
            events.append(('callVariable', name))

        def on_fn(name, args, setter):
            events.append(('callFunction', name, repr(args)))

        def on_cell(cell, setter):
            events.append(('callCellValue', cell.label))
            setter({'A1': 4, 'B2': 'cell', 'C3': None}.get(cell.label))

        def on_range(start, end, setter):
            events.append(('callRangeValue', start.label, end.label))
            setter([1, 2, 3])
        p.on('callVariable', on_var)
        p.on('callFunction', on_fn)
        p.on('callCellValue', on_cell)
        p.on('callRangeValue', on_range)
    return p


def parse_line(p, formula, events=None):
    if events is not None:
        del events[:]
    del TRACE[:]
    COUNT[0] += 1
    try:
        out = repr(p.parse(formula))
    except BaseException as e:  # noqa
        out = 'raised %s: %s' % (type(e).__name__, e)
    tail = '' if events is None else ' events=%r' % (events,)
    if TRACE:
        tail += ' trace=%r' % (TRACE,)
    print('%04d parse %r => %s%s' % (COUNT[0], formula, out, tail))


# ---------------------------------------------------------------------------
# 1. number literals: every alternative of the rule, and near misses
# ---------------------------------------------------------------------------
NUMBERS = [
    '0', '1', '7', '007', '10', '123456789', '123456789012345678901234567890', '00', '0000',
    '.5', '.0', '.05', '.50', '.000', '.123456789012345678901234567890', '. 5', '.  25',
    '1.5', '0.5', '1.0', '1.50', '001.500', '10.01', '1 . 5', '1. 5', '1 .5', '3.14159265358979', '0.1', '0.30000000000000004',
    '123456789012345678901234567890.5', '1.000000000000000000001',
    '2^3', '2^0', '0^0', '0^1', '1^0', '10^2', '2^10', '2 ^ 3', '2^ 3', '2 ^3', '2^64', '2^100', '10^400', '007^2', '2^003', '3^2', '9^2',
    '50%', '100%', '0%', '1%', '7%', '50 %', '250%', '12345%', '007%', '1%%', '50%%',
    '1.', '1..5', '.', '..5', '1.5.5', '.5.5', '1.5%', '.5%', '1.5^2', '2^1.5', '2^.5', '2^3^2', '2^3%', '2^-1', '2^(3)', '(2)^3', '2^', '^2', '%', '5 5',
    '1e5', '1E5', '0x10', '1_000', '1,5', '1;5',
    '-1', '-.5', '-1.5', '-2^2', '-50%', '--1', '---1', '- 1', '-  .5', '-(1)', '-(.5)', '(-1.5)', '-(2^2)', '(-2)^2', '-(50%)', '-0', '-0.0', '-.0', '-0%', '-0^0',
    '+1', '+.5',
]

# ---------------------------------------------------------------------------
# 2. unary minus on every kind of operand
# ---------------------------------------------------------------------------
NEGATIONS = [
    '-one', '-half', '-neg', '-zero', '-negzero', '-blank', '-txt', '-emptytxt', '-numtxt', '-"3"', '-"abc"', '-""', '-TRUE', '-FALSE', '-NULL',
    '-day', '-arr', '-empty', '-nested', '-err', '-errb', '-cplx', '-obj', '-tup', '-big', '-inf', '-ta', '-tb', '-grumpy', '--ta', '-(-ta)',
    '-#N/A', '-#REF!', '-#DIV/0!', '-(1/0)', '-(-(1/0))', '-undefined', '-SUM(1,2)', '-BLANK()', '-FAIL()', '-ECHO(5)', '-ECHO(1,2)', '-NOSUCH()',
    '-A1', '-B2', '-C3', '-A1:B2', '-{1,2}', '-{1}', '-(1<2)', '-(1>2)', '-("a"&"b")', '-(1&2)', '-1&2', '-(1+2)', '-1+2', '-1*2', '-(1*2)',
    '-1/2', '-1-2', '-1<2', '-1=-1', '1-1', '1--1', '1---1', '1+-1', '1*-1', '1/-1', '1&-1', '1<-1', '1=-1', '2*-3*-4', '-2*-3', '-one*-one',
    '-one-one', '-one--one', '-err+1', '1+-err', '-err&"a"', '-ta&tb', '-(ta&tb)', '- ta', '-\tone', '-\none',
]

# ---------------------------------------------------------------------------
# 3. the & operator on every pair of operand kinds; + - * / go to the arithmetic evaluation
# ---------------------------------------------------------------------------
OPERANDS = ['1', '2.5', '"x"', '""', 'TRUE', 'blank', 'day', 'arr', 'empty', 'err', 'errb', '#N/A', '(1/0)', 'cplx', 'obj', 'ta', 'tb', 'grumpy',
            'big', 'negzero', 'BLANK()', 'FAIL()', 'A1', 'C3', '{1,2}', '50%', '.5', '2^3', '-1']
PAIRS = []
for a in OPERANDS:
    for b in OPERANDS:
        PAIRS.append(a + '&' + b)
SIGNS = []
for sign in ('+', '-', '*', '/'):
    for a in OPERANDS:
        for b in ('1', '"x"', 'blank', 'err', 'arr', 'ta', '0', 'day'):
            SIGNS.append(a + sign + b)
            SIGNS.append(b + sign + a)

# ---------------------------------------------------------------------------
# 4. precedence, grouping, parentheses
# ---------------------------------------------------------------------------
FORMULAS = [
    '', ' ', '1+2', '1+2*3', '(1+2)*3', '1-2-3', '1-(2-3)', '(1-2)-3', '8/4/2', '8/(4/2)', '(8/4)/2', '2*3+4*5', '2*(3+4)*5', '(2*3)+(4*5)',
    '-2+3', '-(2+3)', '--2', '-2*-3', '1+2^3', '2^3+1', '2^3*2', '2*2^3', '-1-1', '1--1', '1+-1', '1-+1', '1++1',
    '50%+1', '1+50%', '2*50%', '50%*2', '50%&1', '1&50%', '.5+.5', '.5&.5', '1.5*2', '2*1.5', '1.5&1.5', '1.5=1.5', '.5<1.5', '2^3=8', '2^3&2^3', '50%=.5', '50%=0.5',
    '1/0', '0/0', '1/0+1', '1+1/0', '(1/0)', '((1))', '(((1)))', '((1)+(2))', '(1)+(2)', '((1)+2)', '(1+(2))', '((1+2))', '(((1+2)))*(((3)))',
    '1<2', '2<1', '1=1', '1<>1', '1>=1', '1<=0', '1+1=2', '2=1+1', '1+1<3-1', '1<2=TRUE', '1<2<3', '3>2>1', '(1<2)<3', '1<(2<3)', '(3>2)>1', '3>(2>1)',
    '1=1=1', '(1=1)=1', '1=(1=1)', '1<>2<>3', '1&2', '1&2+3', '1+2&3', '(1+2)&3', '1+(2&3)', '1&2=12', '"1"&"2"="12"', '1&2*3', '(1&2)*3', '1&(2*3)', '2*3&1',
    '(2*3)&1', '2*(3&1)', '"a"&"b"&"c"', '("a"&"b")&"c"', '"a"&("b"&"c")', '"a"&1/0', '1/0&"x"', '1&2&3', '1&2-3', '1-2&3', '1&2/3', '1/2&3', '1&-2', '-1&2',
    '1&2<3', '1<2&3', '(1<2)&3', '1<(2&3)', '1&2=1&2', '(1&2)=(1&2)', '1&(2=1)&2', '1&2<>1&3', '1&2>=1&2', '1&2<=1&1',
    '1 + 2 * 3 - 4 / 5', ' ( 1 + 2 ) * ( 3 - 4 ) / 5 ', '((((1+2))*((3-4)))/5)', '1+2*3-4/5&6<7=TRUE', '(((1+(2*3))-(4/5))&6)<7=TRUE',
    '-1+-2*-3--4/-5', '(-1)+((-2)*(-3))-((-4)/(-5))', '10-5-3-1', '((10-5)-3)-1', '10-(5-(3-1))', '100/10/5*2', '((100/10)/5)*2', '100/(10/(5*2))',
    '2*3&4*5', '(2*3)&(4*5)', '2*(3&4)*5', '1&2&3+4', '1+2<3+4=5+6>7', '((1+2)<(3+4))=((5+6)>7)', '1=2=3<4', '1<2>3<=4>=5=6<>7',
    '-2*3', '-(2*3)', '(-2)*3', '-2/4', '-(2/4)', '-2+4', '-(2+4)', '-2&3', '-(2&3)', '(-2)&3', '-2<1', '-(2<1)', '-1^2', '(-1)^2',
    'IF(1<2,1+2*3,(1+2)*3)', 'IF(1>2,1+2*3,(1+2)*3)', 'SUM(1,2)&SUM(3,4)', 'SUM(1,2)<SUM(3,4)', 'ABS(-1-2)', '-ABS(-3)*2', 'SUM(-1,-2)--3',
    'SUM(1&2,3)', 'SUM(-1,2^3,50%,.5,1.5)', 'SUM({1,2,3}*2)', 'SUM(arr*arrb)', 'SUM(arr)&SUM(arrb)', 'CONCATENATE(1&2,-3)', 'ECHO(1&2)', 'ECHO(-ta)', 'ECHO(ta&tb)',
    'ECHO(ta&tb,tb&ta)', 'ECHO(-ta,-tb)', 'ECHO(tb&ta)&ECHO(-ta)', 'ta&tb&ta', 'ta&(tb&ta)', '(ta&tb)&ta', 'ta&err&tb', 'err&ta', 'ta&err', 'grumpy&ta', 'ta&grumpy',
    'grumpy&err', 'err&grumpy', 'blank&ta', 'ta&blank', 'ta+1', '1+ta', 'ta=ta', 'ta<tb', '-grumpy+1', '-ta+1', '-ta&-tb', 'ta&1+2', 'ta&-1',
    'A1+1', 'A1&B2', 'A1&C3', 'C3&C3', '-A1&A1', 'A1*2&B2', 'SUM(A1:B2)&"!"', 'A1:B2&"x"', 'A1:B2+1', '$A$1&A$1&$A1', 'a1&b2',
    'one&one', 'one&half', 'neg&neg', 'zero&negzero', 'txt&numtxt', 'day&""', 'arr&arr', 'empty&empty', 'nested&""', 'cplx&cplx', 'obj&tup', 'big&inf', 'TRUE&FALSE', 'NULL&NULL',
    'undefined&1', '1&undefined', '1&', '&1', '1&&2', '1+', '+1', '*2', '1 2', '(1+2', '1+2)', '()', '1+()', '1&()', 'SUM()+1', 'SUM()&1', 'NOSUCH(1)&1', '1&NOSUCH(1)',
    '"unterminated', '1+"a', "'single'&'quoted'", '"a""b"', '"a"&\'b\'', '"%"&50%', '"."&.5', '"^"&2^3', '"-"&-1', '"&"&"&"',
    '#N/A&#REF!', '#REF!&#N/A', '#VALUE!+#NUM!', '#NUM!-#VALUE!', '#NOPE!&1', '1&#NOPE!', '#NULL!', '-#NULL!&1',
    '1+2+3+4+5+6+7+8+9+10', '1*2*3*4*5*6*7*8*9*10', '1&2&3&4&5&6&7&8&9&10', '1-2+3-4+5-6+7-8+9-10', '1/2*3/4*5/6', '((((((((((1))))))))))', '-(-(-(-(-(1)))))', '-----1',
    '1+2*3^2', '2^2*3+1', '2^2&3^2', '50%*50%', '50%/50%', '50%-50%', '50%<51%', '.5*.5', '.5/.5', '1.5-1.5', '1.5/1.5&.5', '2^3-2^3', '2^3/2^3', '2^3<3^2',
]

events = []
p1 = make_parser(events)
p2 = make_parser()

for group in (NUMBERS, NEGATIONS, PAIRS, SIGNS, FORMULAS):
    for f in group:
        parse_line(p1, f, events)
# again on the same parser (nothing may linger), and on a second parser without listeners
for group in (NUMBERS, NEGATIONS, FORMULAS):
    for f in group[::2]:
        parse_line(p1, f, events)
    for f in group:
        parse_line(p2, f)
for f in PAIRS[::7] + SIGNS[::5]:
    parse_line(p2, f)

# ---------------------------------------------------------------------------
# 5. the grammar parser on its own, with recording callbacks
# ---------------------------------------------------------------------------
calls = []


def cb_function(name, args=None):
    calls.append(('function', name, repr(args)))
    return 3 if name == 'THREE' else None


def cb_variable(name):
    calls.append(('variable', name))
    return {'x': 2, 'y': 'why', 'e': error.NUM, 'n': None, 't': Traced('t')}.get(name)


def cb_cell(label):
    calls.append(('cell', label))
    return 5


def cb_range(a, b):
    calls.append(('range', a, b))
    return [1, 2]


def cb_error(name):
    calls.append(('error', name))
    raise error.from_message(name)


fp = FormulaParser(call_function=cb_function, call_variable=cb_variable, call_cell_value=cb_cell,
                   call_range_value=cb_range, throw_error=cb_error)
for f in ['1', '.5', '1.5', '2^3', '50%', '-1', '-.5', '-2^3', '-50%', '1&2', 'x&y', 'y&x', 'x&n', 'n&n', 'e&x', 'x&e', '-x', '-y', '-e', '-n', '-t', 't&t',
          'x+y', 'x*x', 'x-n', 'n/x', 'x/n', 'THREE()&x', '-THREE()', 'OTHER(1&2,-x)', 'A1&x', '-A1', 'A1:B2&x', '-A1:B2', '1+', '#N/A', 'x&#N/A', '(x)&(y)',
          '((x&y))', '-(x&y)', '-(x)&y', '1+2*3', '(1+2)*3', '1&2+3', '2^3^2', '1.5.5', '5%%', '']:
    del calls[:]
    del TRACE[:]
    COUNT[0] += 1
    try:
        out = repr(fp.parse(f))
    except BaseException as e:  # noqa
        out = 'raised %s: %s' % (type(e).__name__, e)
    print('%04d grammar %r => %s calls=%r trace=%r' % (COUNT[0], f, out, calls, TRACE))
error.clear_tracebacks()

# ---------------------------------------------------------------------------
# 6. random expression trees: fully parenthesised and parenthesis-free renderings
# ---------------------------------------------------------------------------
rng = random.Random(4004)
LEAVES = ['1', '2', '3', '0', '7', '10', '2.5', '.5', '50%', '2^3', '"4"', '"xy"', 'TRUE', 'FALSE', 'blank', 'one', 'neg', 'arr', 'err', 'numtxt', '""', 'ta']
BINOPS = ['+', '-', '*', '/', '&', '&', '<', '>', '<=', '>=', '=', '<>']
AMP_LEAVES = [leaf for leaf in LEAVES if leaf != 'neg']


def gen(depth):
    if depth == 0 or rng.random() < 0.25:
        return rng.choice(LEAVES)
    if rng.random() < 0.2:
        return ('neg', gen(depth - 1))
    op = rng.choice(BINOPS)
    if op == '&':
        # text such as "7-3" would be read as a date of the current year by the arithmetic
        # operators: keep negative numbers out of concatenations (the fixed lists above cover them)
        return (op, rng.choice(AMP_LEAVES), rng.choice(AMP_LEAVES))
    return (op, gen(depth - 1), gen(depth - 1))


def full(t):
    if isinstance(t, str):
        return t
    if t[0] == 'neg':
        return '(-' + full(t[1]) + ')'
    return '(' + full(t[1]) + t[0] + full(t[2]) + ')'


def flat(t):
    # no parentheses at all: the grammar's own precedence and grouping decide the reading
    if isinstance(t, str):
        return t
    if t[0] == 'neg':
        return '-' + flat(t[1])
    return flat(t[1]) + t[0] + flat(t[2])


for i in range(200):
    tree = gen(3)
    parse_line(p1 if i % 2 else p2, full(tree), events if i % 2 else None)
    parse_line(p2 if i % 2 else p1, flat(tree), None if i % 2 else events)

COUNT[0] += 1
print('%04d error singletons clean => %r' % (COUNT[0], [(str(e), e.__traceback__, e.__context__) for e in
      (error.ERROR, error.DIV_ZERO, error.NAME, error.NOT_AVAILABLE, error.NULL, error.NUM, error.REF, error.VALUE, error.DATA)]))
print('total evaluations: %d' % COUNT[0])
