# -*- coding: utf-8 -*-
"""
Probe for C08 refactoring 4: the error lookup tables (error.from_message, error.clear_tracebacks,
ERROR.TYPE) and the way Parser.parse reports an error that reaches the top.
Prints a deterministic transcript, one line per evaluation.
"""
from __future__ import print_function
import os
import sys
import datetime
import random

sys.path.insert(0, os.path.dirname(os.path.dirname(os.path.abspath(__file__))))

import hotxlfp  # noqa: E402
from hotxlfp import Parser  # noqa: E402
from hotxlfp.formulas import error, information, logic  # noqa: E402
from hotxlfp import formulas as formulas_pkg  # noqa: E402

COUNT = [0]
SHARED = [('ERROR', error.ERROR), ('DIV_ZERO', error.DIV_ZERO), ('NAME', error.NAME),
          ('NOT_AVAILABLE', error.NOT_AVAILABLE), ('NULL', error.NULL), ('NUM', error.NUM),
          ('REF', error.REF), ('VALUE', error.VALUE), ('DATA', error.DATA)]
CODES = [str(e) for _, e in SHARED]


def show(kind, what, outcome):
    COUNT[0] += 1
    print('%04d %s %s -> %s' % (COUNT[0], kind, what, outcome))


def name_of(value):
    """ which shared instance (by identity) a value is, else its repr """
    for n, e in SHARED:
        if value is e:
            return '<shared %s %r>' % (n, value)
    return repr(value)


def outcome_of(fn, *args):
    try:
        return name_of(fn(*args))
    except BaseException as e:  # noqa
        return 'raised %s(%s)' % (type(e).__name__, str(e))


def tb_state():
    return ''.join('-' if (e.__traceback__ is None and e.__context__ is None) else 'T' for _, e in SHARED)


class StrIs(object):
    def __init__(self, text):
        self.text = text

    def __str__(self):
        return self.text

    def __repr__(self):
        return 'StrIs(%r)' % self.text


class StrFails(object):
    def __str__(self):
        raise ValueError('no text')

    def __repr__(self):
        return 'StrFails()'


class StrNotText(object):
    def __str__(self):
        return 5

    def __repr__(self):
        return 'StrNotText()'


class HashLike(object):
    """ hashes like a shared error, compares as told """
    def __init__(self, like, equal):
        self.like = like
        self.equal = equal

    def __hash__(self):
        return hash(self.like)

    def __eq__(self, other):
        return self.equal

    def __ne__(self, other):
        return not self.equal

    def __repr__(self):
        return 'HashLike(%s, %r)' % (str(self.like), self.equal)


class HashFails(object):
    def __hash__(self):
        raise RuntimeError('no hash')

    def __repr__(self):
        return 'HashFails()'


class SubError(error.XLError):
    pass


def probe_from_message():
    inputs = []
    for code in CODES:
        inputs.extend([code, code.lower(), ' ' + code, code + ' ', code[1:], code + code,
                       error.XLError(code), SubError(code), ValueError(code), KeyError(code),
                       RuntimeError(code, 'extra'), StrIs(code), [code], (code,), code.encode('ascii')])
    inputs.extend([e for _, e in SHARED])
    inputs.extend([None, '', 0, 1, 1.5, True, False, [], {}, (), 'text', '#', '#N/A!', '#NA', '#DIV/0', '#VALUE',
                   '#GETTING_DATA!', u'#N/A', Exception(), Exception(''), ZeroDivisionError('division by zero'),
                   TypeError('bad'), SyntaxError('Function not found for X'), KeyError('#N/A'), error.XLError(),
                   error.XLError('#N/A', 1), error.XLError(None), error.XLError(error.NUM), StrIs('x'),
                   StrFails(), StrNotText(), datetime.datetime(2020, 1, 1), float('nan'), object, len])
    for value in inputs:
        show('from_message', repr(value), outcome_of(error.from_message, value))
    # no argument / too many
    show('from_message', 'no args', outcome_of(error.from_message))
    show('from_message', 'two args', outcome_of(error.from_message, '#N/A', '#NUM!'))
    show('from_message', 'keyword', outcome_of(lambda: error.from_message(message='#REF!')))


def probe_clear_tracebacks():
    show('tb', 'initial', tb_state())
    for n, e in SHARED:
        try:
            raise e
        except error.XLError:
            pass
        show('tb', 'after raising ' + n, tb_state())
    show('tb', 'clear returns', repr(error.clear_tracebacks()))
    show('tb', 'after clear', tb_state())
    # chained: raising one error while handling another sets __context__
    try:
        try:
            raise error.NUM
        except error.XLError:
            raise error.REF
    except error.XLError:
        pass
    show('tb', 'after chained raise', tb_state())
    show('tb', 'context of REF', name_of(error.REF.__context__))
    error.clear_tracebacks()
    show('tb', 'after clear 2', tb_state())
    error.clear_tracebacks()
    show('tb', 'clear twice', tb_state())
    fresh = error.XLError('#NUM!')
    try:
        raise fresh
    except error.XLError:
        pass
    error.clear_tracebacks()
    show('tb', 'a private instance is left alone', repr(fresh.__traceback__ is not None))
    show('tb', 'args kept', repr([e.args for _, e in SHARED]))


def probe_error_type_direct():
    values = [e for _, e in SHARED]
    values += [error.XLError(c) for c in CODES] + [SubError('#NUM!')]
    values += [None, 0, 1, 2, 7, 8, 1.0, True, False, '', '#N/A', '#DIV/0!', 'text', (), (1, 2), (error.NUM,),
               frozenset(), datetime.datetime(2020, 1, 1), 2j, float('nan'), len, object]
    values += [[], [error.NUM], {}, {'a': 1}, set(), bytearray(b'x'), HashFails()]
    for _, e in SHARED:
        values += [HashLike(e, True), HashLike(e, False)]
    for v in values:
        show('ERROR_TYPE', repr(v), outcome_of(information.ERROR_TYPE, v))
    show('ERROR_TYPE', 'no args', outcome_of(information.ERROR_TYPE))
    show('ERROR_TYPE', 'two args', outcome_of(information.ERROR_TYPE, error.NUM, error.REF))
    show('ERROR_TYPE', 'keyword', outcome_of(lambda: information.ERROR_TYPE(error_val=error.REF)))
    show('ERROR_TYPE', 'registered', repr(formulas_pkg.get_for('ERROR.TYPE') is information.ERROR_TYPE))
    show('ERROR_TYPE', 'name', repr((information.ERROR_TYPE.__name__, information.ERROR_TYPE.__doc__)))
    for v in values[:12]:
        show('observers', repr(v), repr((information.ISERROR(v), information.ISERR(v), information.ISNA(v),
                                         name_of(logic.IFERROR(v, 'alt')), name_of(logic.IFNA(v, 'alt')))))


CELLS = {'A1': 1, 'A2': None, 'A3': 'abc', 'A4': error.DIV_ZERO, 'A5': error.NOT_AVAILABLE, 'A6': error.NULL,
         'A7': error.DATA, 'A8': error.ERROR, 'A9': '#N/A', 'A10': error.XLError('#NUM!'),
         'A11': error.XLError('#WEIRD'), 'A12': [1, error.REF], 'A13': SubError('#VALUE!')}


def raiser(exc):
    def fn(*args):
        raise exc
    return fn


def make_parser():
    p = Parser()
    events = []

    def on_cell(cell, done):
        events.append(('cell', cell.label))
        done(CELLS.get(cell.label))

    def on_range(start, end, done):
        events.append(('range', start.label, end.label))
        done([CELLS.get('A%d' % (r + 1)) for r in range(start.row.index, end.row.index + 1)])

    def on_function(name, args, done):
        events.append(('fn', name, [name_of(a) for a in args]))

    def on_variable(name, done):
        events.append(('var', name))

    p.on('callCellValue', on_cell).on('callRangeValue', on_range)
    p.on('callFunction', on_function).on('callVariable', on_variable)
    for n, e in SHARED:
        p.set_variable('V_' + n, e)
        p.set_function('RET_' + n, (lambda err: (lambda *a: err))(e))
        p.set_function('RAISE_' + n, raiser(e))
    p.set_variable('V_FRESH', error.XLError('#REF!'))
    p.set_variable('V_WEIRD', error.XLError('#WEIRD'))
    p.set_variable('V_SUB', SubError('#NAME?'))
    p.set_variable('V_EMPTYERR', error.XLError())
    p.set_variable('V_LIST', [error.NUM, 1])
    p.set_variable('V_HASHLIKE', HashLike(error.NUM, True))
    p.set_function('RET_FRESH', lambda *a: error.XLError('#NUM!'))
    p.set_function('RET_WEIRD', lambda *a: error.XLError('#WEIRD'))
    p.set_function('RET_SUB', lambda *a: SubError('#DIV/0!'))
    p.set_function('RAISE_FRESH', raiser(error.XLError('#NULL!')))
    p.set_function('RAISE_WEIRD', raiser(error.XLError('#WEIRD')))
    p.set_function('RAISE_VALUEERR', raiser(ValueError('math domain error')))
    p.set_function('RAISE_CODEMSG', raiser(ValueError('#NUM!')))
    p.set_function('RAISE_KEYCODE', raiser(KeyError('#N/A')))
    p.set_function('RAISE_ZERO', raiser(ZeroDivisionError('division by zero')))
    p.set_function('RAISE_STRFAIL', raiser(type('Odd', (Exception,), {'__str__': lambda self: '#REF!'})()))
    p.set_function('GIVE', lambda *a: a[0] if a else None)
    p.set_function('LISTOF', lambda *a: list(a))
    return p, events


ERROR_LITERALS = ['#DIV/0!', '#N/A', '#NAME?', '#NULL!', '#NUM!', '#REF!', '#VALUE!', '#ERROR!']


def formulas():
    out = ['', ' ', '1', '"#N/A"', '"#DIV/0!"', '="x"', '1+', ')', '((', 'A1', 'A2', 'A3', 'nosuchvar', 'NOSUCH()', 'NOSUCH(1,2)']
    sources = list(ERROR_LITERALS)
    sources += ['V_' + n for n, _ in SHARED] + ['RET_%s()' % n for n, _ in SHARED] + ['RAISE_%s()' % n for n, _ in SHARED]
    sources += ['A4', 'A5', 'A6', 'A7', 'A8', 'A9', 'A10', 'A11', 'A12', 'A13', 'V_FRESH', 'V_WEIRD', 'V_SUB', 'V_EMPTYERR',
                'V_LIST', 'V_HASHLIKE', 'RET_FRESH()', 'RET_WEIRD()', 'RET_SUB()', 'RAISE_FRESH()', 'RAISE_WEIRD()',
                'RAISE_VALUEERR()', 'RAISE_CODEMSG()', 'RAISE_KEYCODE()', 'RAISE_ZERO()', 'RAISE_STRFAIL()',
                '1/0', 'SQRT(-1)', 'NA()', '"a"+1', '-"a"', 'LN(0)', 'LOG(-1)', 'ACOS(2)', 'MATCH(9,{1,2},0)', 'VLOOKUP(9,{1,2},1,FALSE)',
                'SUM(1,#REF!)', 'GIVE(GIVE(1/0))', 'GIVE(RAISE_NUM())', 'IF(1/0,1,2)', 'AND(TRUE,NA())', 'nosuchvar', 'NOSUCH()',
                '{1,2}+{1,2,3}', '1', '"text"', 'A2', 'TRUE', '{1,2}', 'NULL', 'ERROR.TYPE(1)']
    wrappers = ['%s', 'ERROR.TYPE(%s)', 'ISERROR(%s)', 'ISERR(%s)', 'ISNA(%s)', 'IFERROR(%s,"alt")', 'IFNA(%s,"alt")',
                '%s+1', '-%s', '%s&"x"', '%s=1', 'ERROR.TYPE(%s+1)', 'ERROR.TYPE(GIVE(%s))', 'IFERROR(ERROR.TYPE(%s),"no type")',
                'ERROR.TYPE(IFERROR(%s,#NUM!))', 'ISERROR(%s)=OR(ISERR(%s),ISNA(%s))', 'ERROR.TYPE(LISTOF(%s))', 'SUM(ERROR.TYPE(%s),100)']
    for src in sources:
        for w in wrappers:
            out.append(w.replace('%s', src))
    out += ['ERROR.TYPE()', 'ERROR.TYPE(1,2)', 'ERROR.TYPE(#N/A,#N/A)', 'ERROR.TYPE(,)', 'ERROR.TYPE({1,2})', 'ERROR.TYPE({#N/A})',
            'ERROR.TYPE(A4:A6)', 'ERROR.TYPE(A4)+ERROR.TYPE(A5)', 'ERROR.TYPE(ERROR.TYPE(1))', 'ERROR.TYPE(ERROR.TYPE(ERROR.TYPE(1)))',
            'error.type(#N/A)', 'Error.Type(1/0)', 'IFERROR(1/0)', 'IFERROR()', 'IFNA(#N/A)', 'ISERROR()', 'ISERROR(1,2)',
            'IFERROR(#N/A,#REF!)', 'IFERROR(#N/A,1/0)', 'IFNA(#N/A,#NUM!)', 'IFNA(#REF!,#NUM!)', 'IFERROR(IFNA(#N/A,#NULL!),"z")',
            '#N/A+#REF!', '#REF!+#N/A', '#N/A&#REF!', '#REF!=#N/A', '-#NULL!', '(#NUM!)', '{#NUM!}', 'SUM({1,#NUM!})', '#GETTING_DATA',
            '#getting_data', '#n/a', '#Ref!', 'V_DATA+1', 'ERROR.TYPE(V_DATA)', 'ISERR(V_DATA)']
    return out


def run_formulas(tag, parser, events, selection):
    for f in selection:
        del events[:]
        out = parser.parse(f)
        show(tag, repr(f), 'result=%s error=%r keys=%r tb=%s events=%r' % (
            name_of(out['result']), out['error'], sorted(out), tb_state(), events))


def probe_parser_edges():
    p, events = make_parser()
    # non-text expressions: whatever happens must happen identically
    for expr in [None, 0, 1, b'1+1', ['1'], 1.5, True, StrIs('1+1')]:
        show('parse-odd', repr(expr), outcome_of(lambda: sorted(p.parse(expr).items(), key=lambda kv: kv[0])))
        show('parse-odd', 'tb', tb_state())
    # the callbacks called directly: errors are raised, the shared instances pick up a traceback until cleared
    show('direct', "call_function('NOSUCH')", outcome_of(p.call_function, 'NOSUCH'))
    show('direct', 'tb', tb_state())
    show('direct', "call_variable('nosuch')", outcome_of(p.call_variable, 'nosuch'))
    show('direct', "_throw_error('#NUM!')", outcome_of(p._throw_error, '#NUM!'))
    show('direct', "_throw_error('junk')", outcome_of(p._throw_error, 'junk'))
    show('direct', '_throw_error(error.REF)', outcome_of(p._throw_error, error.REF))
    show('direct', 'tb', tb_state())
    show('direct', "parse('1') clears", repr(p.parse('1')) + ' tb=' + tb_state())
    show('direct', "call_function('ERROR.TYPE', [error.REF])", outcome_of(p.call_function, 'ERROR.TYPE', [error.REF]))
    show('direct', "call_function('ERROR.TYPE', [[1]])", outcome_of(p.call_function, 'ERROR.TYPE', [[1]]))
    show('direct', "call_function('ERROR.TYPE', [])", outcome_of(p.call_function, 'ERROR.TYPE', []))
    show('direct', "call_function('ERROR.TYPE')", outcome_of(p.call_function, 'ERROR.TYPE'))
    error.clear_tracebacks()
    show('direct', 'instance attrs', repr(sorted(k for k in vars(p) if not k.startswith('__'))))
    # a listener that replaces a function's value with an error / replaces an error with a value
    q = Parser()
    q.on('callFunction', lambda name, args, done: done(error.NUM) if name == 'SUM' else done('fixed') if name == 'NA' else None)
    for f in ['SUM(1,2)', 'SUM(1,2)+1', 'ERROR.TYPE(SUM(1))', 'NA()', 'ISNA(NA())', 'IFERROR(SUM(1),"e")', 'ERROR.TYPE(NA())']:
        show('override', repr(f), repr(q.parse(f)) + ' tb=' + tb_state())


def main():
    probe_from_message()
    probe_clear_tracebacks()
    probe_error_type_direct()
    p1, ev1 = make_parser()
    fs = formulas()
    run_formulas('p1', p1, ev1, fs)
    rnd = random.Random(20240608)
    shuffled = list(fs)
    rnd.shuffle(shuffled)
    run_formulas('p1-again', p1, ev1, shuffled[:400])
    p2, ev2 = make_parser()
    run_formulas('p2', p2, ev2, shuffled[400:800])
    run_formulas('p1-interleaved', p1, ev1, shuffled[800:900])
    probe_parser_edges()
    probe_from_message()  # the tables are still what they were
    show('tb', 'final', tb_state())
    print('total %d' % COUNT[0])


if __name__ == '__main__':
    main()
