# -*- coding: utf-8 -*-
"""
Probe for C16 refactoring 1 (one-argument elementary functions routed through a shared helper).
Prints a deterministic transcript: one line per evaluation.
"""
import os
import sys

sys.path.insert(0, os.path.dirname(os.path.dirname(os.path.abspath(__file__))))

import hotxlfp  # noqa: E402
from hotxlfp import formulas  # noqa: E402
from hotxlfp.formulas import error, mathtrig, utils  # noqa: E402

COUNT = [0]


def show(label, outcome):
    COUNT[0] += 1
    line = '%04d %s => %s' % (COUNT[0], label, outcome)
    print(line.encode('ascii', 'backslashreplace').decode('ascii'))  # keep the transcript pure ASCII


def outcome_of(thunk):
    try:
        value = thunk()
    except BaseException as e:  # noqa
        return 'RAISED %s: %s' % (type(e).__name__, e)
    return 'RETURNED %s %r' % (type(value).__name__, value)


class Opaque(object):
    def __repr__(self):
        return '<Opaque>'


class IntLike(int):
    """ an int subclass: still one of the number types """
    def __repr__(self):
        return 'IntLike(%d)' % int(self)


class FloatLike(float):
    def __repr__(self):
        return 'FloatLike(%r)' % float(self)


UNARY = ['ABS', 'ACOS', 'ACOSH', 'ACOT', 'ACOTH', 'SIN', 'SINH', 'ASIN', 'ASINH', 'COS', 'COSH', 'COT',
         'TAN', 'TANH', 'ATAN', 'ATANH', 'SQRT', 'EXP', 'LN', 'RADIANS', 'DEGREES']

# ---------------------------------------------------------------------------------------------
# 1. through the formula parser, recording the events
# ---------------------------------------------------------------------------------------------
FORMULA_ARGS = [
    '0', '1', '-1', '0.5', '-0.5', '2', '-2', '1.5', '10', '100', '710', '-710', '1000000',
    '"1"', '"0.5"', '"-2"', '" 3 "', '"1e2"', '"abc"', '""', '"inf"', '"nan"', '"1_0"',
    'TRUE', 'FALSE', 'NULL', '#N/A', '#DIV/0!', '#VALUE!', '#NUM!', '#REF!', '#NAME?', '#NULL!',
    '{1,2}', '{1}', '{"a"}', 'A1', 'B2', 'C3', 'A1:B2', 'myvar', 'unknownvar', '1/0', 'PI()', 'PI()/2',
    'PI()/4', '-PI()', '2^0.5', '10^400', '1%', '', ',', '1,2', '1,', ',1', '1;2', 'SQRT(-1)', 'LN(0)', 'ABS("x")',
]


def make_parser(override=None):
    p = hotxlfp.Parser()
    log = []

    def on_function(name, args, setter):
        log.append('callFunction(%s, %r)' % (name, args))
        if override is not None and name in override:
            setter(override[name])

    def on_cell(cell, setter):
        log.append('callCellValue(%s)' % cell.label)
        setter({'A1': 0.25, 'B2': '0.75', 'C3': None}.get(cell.label))

    def on_range(start, end, setter):
        log.append('callRangeValue(%s, %s)' % (start.label, end.label))
        setter([[0.25, 1], [2, '0.75']])

    def on_variable(name, setter):
        log.append('callVariable(%s)' % name)

    p.on('callFunction', on_function)
    p.on('callCellValue', on_cell)
    p.on('callRangeValue', on_range)
    p.on('callVariable', on_variable)
    p.set_variable('myvar', 0.125)
    return p, log


parser, events = make_parser()
for fname in UNARY:
    for arg in FORMULA_ARGS:
        formula = '%s(%s)' % (fname, arg)
        del events[:]
        res = parser.parse(formula)
        show('parse %r' % formula, '%r events=%s' % (res, events))

# a listener replacing the value of a call
parser2, events2 = make_parser(override={'SIN': 42, 'LN': error.NUM, 'ABS': 'text'})
for formula in ['SIN(1)', 'LN(-1)', 'ABS(-3)', 'COS(SIN(0))', 'EXP(LN(5))', 'SQRT(ABS(-4))', 'ABS(SIN("x"))']:
    del events2[:]
    res = parser2.parse(formula)
    show('parse(override) %r' % formula, '%r events=%s' % (res, events2))

# user functions shadowing and nesting
parser3, events3 = make_parser()
parser3.set_function('SIN', lambda x: 'user-sin')
for formula in ['SIN(1)', 'COS(SIN(1))', 'ASIN(SIN(0.3))', 'sin(1)', 'Cos(0)']:
    del events3[:]
    res = parser3.parse(formula)
    show('parse(userfn) %r' % formula, '%r events=%s' % (res, events3))

# the identities of the property, through the parser
IDENTITIES = [
    'SIN(0.7)^2+COS(0.7)^2', 'TAN(0.7)-SIN(0.7)/COS(0.7)', 'COT(0.7)-1/TAN(0.7)', 'EXP(LN(3.5))', 'LN(EXP(3.5))',
    'ASIN(SIN(0.4))', 'ACOS(COS(0.4))', 'ATAN(TAN(0.4))', 'ASINH(SINH(0.4))', 'ACOSH(COSH(0.4))',
    'ATANH(TANH(0.4))', 'ACOT(COT(0.4))', 'ACOTH(1/TANH(0.4))', 'DEGREES(RADIANS(33))', 'RADIANS(180)-PI()',
    'SQRT(16)', 'SQRT(2)^2', 'ABS(-0)', 'ABS(0-0.0)', 'SINH(1)-(EXP(1)-EXP(-1))/2', 'COSH(1)-(EXP(1)+EXP(-1))/2',
    'SIN("0.5")+COS(TRUE)', 'ABS(TRUE)+ABS(FALSE)', 'SQRT("abc")&"x"', 'ACOS(2)', 'ASIN(-2)', 'ATANH(1)', 'ATANH(-1)',
    'ACOSH(0.5)', 'ACOTH(1)', 'ACOTH(0.5)', 'COT(0)', 'LN(0)', 'LN(-1)', 'SQRT(-4)', 'EXP(1000)', 'EXP(-1000)',
    'SINH(1000)', 'COSH(1000)', 'TANH(1000)', 'ACOT(0)', 'ACOT(-1)', 'TAN(PI()/2)', 'SIN(PI())', 'COS(PI())',
]
for formula in IDENTITIES:
    del events[:]
    res = parser.parse(formula)
    show('parse %r' % formula, '%r events=%s' % (res, events))

# ---------------------------------------------------------------------------------------------
# 2. the functions called directly with python values
# ---------------------------------------------------------------------------------------------
CUSTOM_ERROR = error.XLError('#CUSTOM!')
DIRECT_VALUES = [
    None, True, False, 0, -0.0, 1, -1, 0.5, -0.5, 1.0, 2, 1.5, -1.5, 710, 710.0, -710, 1e308, -1e308, 5e-324, 1e-320,
    float('inf'), float('-inf'), float('nan'), 10 ** 400, -10 ** 400, 2 ** 53 + 1,
    '1', ' 1 ', '-1', '0', '0.5', '.5', '1e3', '1_0', '0x10', 'inf', '-inf', 'nan', 'Infinity', '', ' ', 'abc', 'TRUE',
    '1,5', u'١', '١.٥',
    [1], (1,), [], {}, b'1', 1j, 0j, complex(2, 0), Opaque(), IntLike(0), IntLike(3), FloatLike(0.25), FloatLike(-2.5),
    error.NUM, error.VALUE, error.DIV_ZERO, error.NOT_AVAILABLE, error.NAME, error.REF, error.NULL, error.ERROR,
    error.DATA, CUSTOM_ERROR,
]
for fname in UNARY:
    fn = formulas.get_for(fname)
    assert fn is getattr(mathtrig, fname)
    for value in DIRECT_VALUES:
        show('%s(%r)' % (fname, value), outcome_of(lambda: fn(value)))
    # error values come back as the very same object
    for err in (error.NUM, CUSTOM_ERROR):
        show('%s(%r) is same object' % (fname, err), repr(fn(err) is err))
    # unusual ways of calling
    show('%s()' % fname, outcome_of(lambda: fn()))
    show('%s(1, 2)' % fname, outcome_of(lambda: fn(1, 2)))
    show('%s(number=0.5)' % fname, outcome_of(lambda: fn(number=0.5)))
    show('%s(value=0.5)' % fname, outcome_of(lambda: fn(value=0.5)))
    show('%s.__name__' % fname, repr(fn.__name__))

# the functions still look up utils.parse_number / math at call time
saved = utils.parse_number
try:
    utils.parse_number = lambda v: 0.5
    for fname in UNARY:
        show('%s("zzz") with parse_number patched' % fname, outcome_of(lambda: formulas.get_for(fname)('zzz')))
finally:
    utils.parse_number = saved

print('total evaluations: %d' % COUNT[0])
