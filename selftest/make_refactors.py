#!/usr/bin/env python3
"""
Writes selftest/refactors/*.diff: behaviour-preserving edits of /repo (renamed locals, reordered independent statements,
if/else flipped with negated test, equivalent expressions).  tools/run_refactors.py applies each to a scratch worktree and
runs the listed checks, which must all stay green (exit 0): a VIOLATION here is a false alarm of ours.
"""
import os, subprocess, tempfile, shutil
HERE = os.path.dirname(os.path.abspath(__file__))
OUT = os.path.join(HERE, 'refactors')

EDITS = {
 'r01_right_reordered': ('C15', 'hotxlfp/formulas/text.py',
   "    return text[-num_chars:] if num_chars else ''\n",
   "    if num_chars == 0:\n        return ''\n    tail = text[-num_chars:]\n    return tail\n"),
 'r02_left_explicit_slice': ('C15', 'hotxlfp/formulas/text.py',
   "    return text[:num_chars]\n",
   "    count = num_chars\n    return text[0:count]\n"),
 'r03_switch_renamed': ('C12', 'hotxlfp/formulas/logic.py',
   "    argc = len(args)\n    default_clause = utils.DEFAULT if (argc % 2 == 0) else args[-1]\n    for i in range(0, argc - 1, 2):\n",
   "    count = len(args)\n    default_clause = args[-1] if (count % 2 != 0) else utils.DEFAULT\n    for i in range(0, count - 1, 2):\n"),
 'r04_if_flipped': ('C12', 'hotxlfp/formulas/logic.py',
   "    return then if test else otherwise\n",
   "    return otherwise if not test else then\n"),
 'r05_serial_days': ('C13', 'hotxlfp/formulas/utils.py',
   "    if date < -2203891200000:\n        return (date - d1900) / 86400000 + 1\n    return (date - d1900) / 86400000 + 2\n",
   "    days = (date - d1900) / 86400000\n    if days >= 59:\n        return days + 2\n    return days + 1\n"),
 'r06_logic_errors_reordered_names': ('C08', 'hotxlfp/formulas/operators.py',
   "def evaluate_logic(op, lval, rval):\n    if isinstance(lval, error.XLError):\n        return lval\n    if isinstance(rval, error.XLError):\n        return rval\n",
   "def evaluate_logic(op, lval, rval):\n    left_is_error = isinstance(lval, error.XLError)\n    if left_is_error:\n        return lval\n    elif isinstance(rval, error.XLError):\n        return rval\n"),
 'r07_off_comprehension': ('C20', 'hotxlfp/tinyemitter.py',
   "        if events and callback is not None:\n            for event in events:\n                if event.fn != callback and ((not hasattr(event.fn, '_')) or event.fn._ != callback):\n                    live_events.append(event)\n",
   "        if events and callback is not None:\n            live_events = [event for event in events\n                           if event.fn != callback and ((not hasattr(event.fn, '_')) or event.fn._ != callback)]\n"),
 'r08_index_checks_swapped': ('C18', 'hotxlfp/formulas/lookupandreference.py',
   "    if row_num is None:\n        row_num = DEFAULT\n    if column_num is None:\n        column_num = DEFAULT\n",
   "    if column_num is None:\n        column_num = DEFAULT\n    if row_num is None:\n        row_num = DEFAULT\n"),
 'r09_call_function_renamed': ('C09', 'hotxlfp/parser.py',
   "        fn = self.functions.get(name)\n        result = {'value': None}  # get around 2.7 not having nonlocal\n        if fn is None and formulas.is_supported(name):\n            fn = formulas.get_for(name)\n        if fn is None:\n            raise formulaserror.NAME\n",
   "        result = {'value': None}  # get around 2.7 not having nonlocal\n        fn = self.functions.get(name)\n        if fn is None:\n            if formulas.is_supported(name):\n                fn = formulas.get_for(name)\n        if fn is None:\n            raise formulaserror.NAME\n"),
 'r10_odd_rewritten': ('C17', 'hotxlfp/formulas/mathtrig.py',
   "    tmp = math.ceil(abs(number))\n    tmp = tmp if (tmp % 2) == 1 else tmp + 1\n    return tmp if number >= 0 else -tmp\n",
   "    magnitude = math.ceil(abs(number))\n    if magnitude % 2 == 0:\n        magnitude = magnitude + 1\n    if number < 0:\n        return -magnitude\n    return magnitude\n"),
 'r11_amp_helper_inline': ('C06', 'hotxlfp/grammarparser/parser.py',
   "                p[0] = ''.join('' if v is None else str(v) for v in (p[1], p[3]))\n",
   "                left = '' if p[1] is None else str(p[1])\n                right = '' if p[3] is None else str(p[3])\n                p[0] = left + right\n"),
 'r12_cell_label_uppercase_order': ('C10', 'hotxlfp/parser.py',
   "        label = label.upper()\n        row, col = extract_label(label)\n        result = {'value': None}  # get around 2.7 not having nonlocal\n",
   "        result = {'value': None}  # get around 2.7 not having nonlocal\n        label = label.upper()\n        row, col = extract_label(label)\n"),
 'r13_atan2_nested_if': ('C16', 'hotxlfp/formulas/mathtrig.py',
   "    if x_num == 0 and y_num == 0:\n        return error.DIV_ZERO\n",
   "    if x_num == 0:\n        if y_num == 0:\n            return error.DIV_ZERO\n"),
 'r14_from_message_local': ('C01', 'hotxlfp/formulas/error.py',
   "    return errdict.get(text, ERROR)\n",
   "    if text in errdict:\n        return errdict[text]\n    return ERROR\n"),
 'r15_parse_extract_method': ('C02', 'hotxlfp/parser.py',
   "        except Exception as e:\n            if self.debug:\n                traceback.print_exc()\n            error = str(formulaserror.from_message(e))\n\n        if isinstance(result, formulaserror.XLError):",
   "        except Exception as e:\n            error = self._error_text(e)\n\n        if isinstance(result, formulaserror.XLError):"),
 'r15b_parse_extract_method_helper': ('C02', 'hotxlfp/parser.py',
   "    def set_function(self, name, f):\n",
   "    def _error_text(self, e):\n        if self.debug:\n            traceback.print_exc()\n        return str(formulaserror.from_message(e))\n\n    def set_function(self, name, f):\n"),
 'r16_column_memo_correct': ('C19', 'hotxlfp/helper/cell.py',
   "def column_label_to_index(label):\n    result = 0\n    if isinstance(label, string_types):\n        label = label.upper()\n",
   "_COLUMN_INDEX = {}\n\n\ndef column_label_to_index(label):\n    if isinstance(label, string_types) and label.upper() in _COLUMN_INDEX:\n        return _COLUMN_INDEX[label.upper()]\n    result = _column_label_to_index(label)\n    if isinstance(label, string_types):\n        _COLUMN_INDEX[label.upper()] = result\n    return result\n\n\ndef _column_label_to_index(label):\n    result = 0\n    if isinstance(label, string_types):\n        label = label.upper()\n"),
 'r18_match_hoisted_lower': ('C18', 'hotxlfp/formulas/lookupandreference.py',
   "    index = None\n    index_value = None\n    for idx in range(len(lookup_array)):\n        if match_type == 1:\n            if lookup_array[idx] == lookup_value:",
   "    index = None\n    index_value = None\n    pattern = lookup_value.lower() if isinstance(lookup_value, string_types) else None\n    for idx in range(len(lookup_array)):\n        if match_type == 1:\n            if lookup_array[idx] == lookup_value:"),
 'r18b_match_hoisted_lower_use': ('C18', 'hotxlfp/formulas/lookupandreference.py',
   "utils.wildcard_match(lookup_array[idx].lower(), lookup_value.lower()):",
   "utils.wildcard_match(lookup_array[idx].lower(), pattern):"),
 'r19_criteria_pairs_helper': ('C11', 'hotxlfp/formulas/statistical.py',
   "        return error.VALUE  # not an array: never walk an arbitrary (possibly never-ending) iterable\n    range_and_preds = list(zip(criteria[::2], (utils.parse_criteria(criterion) for criterion in criteria[1::2])))\n    b = None\n",
   "        return error.VALUE  # not an array: never walk an arbitrary (possibly never-ending) iterable\n    range_and_preds = _criteria_pairs(criteria)\n    b = None\n"),
 'r19b_criteria_pairs_helper_def': ('C11', 'hotxlfp/formulas/statistical.py',
   "@dispatcher.register_for('MAXIFS')\n",
   "def _criteria_pairs(criteria):\n    return [(criteria[i], utils.parse_criteria(criteria[i + 1])) for i in range(0, len(criteria), 2)]\n\n\n@dispatcher.register_for('MAXIFS')\n"),
 'r20_emit_list_copy': ('C20', 'hotxlfp/tinyemitter.py',
   "        listeners = self._e[name][:]\n",
   "        listeners = list(self._e[name])\n"),
 'r22_emit_keywords_passthrough': ('C20', 'hotxlfp/tinyemitter.py',
   "    def emit(self, name, *args):\n        listeners = self._e[name][:]\n        for listener in listeners:\n            listener.fn(*args, **listener.ctx)\n        return self\n",
   "    def emit(self, name, *args, **kwargs):\n        listeners = self._e[name][:]\n        for listener in listeners:\n            keywords = dict(kwargs)\n            keywords.update(listener.ctx)\n            listener.fn(*args, **keywords)\n        return self\n"),
 'r27_not_found_sentinel_attribute': ('C10', 'hotxlfp/parser.py',
   "        not_found = lambda : 0\n        value = self.variables.get(name, not_found)\n",
   "        not_found = self._not_found\n        value = self.variables.get(name, not_found)\n"),
 'r27b_not_found_sentinel_attribute_init': ('C10', 'hotxlfp/parser.py',
   "        self.debug = debug\n",
   "        self.debug = debug\n        self._not_found = object()  # marks a variable nobody supplied\n"),
}

# edits applied together with another one (same refactoring, two hunks)
GROUPS = {'r15_parse_extract_method': ['r15b_parse_extract_method_helper'], 'r18_match_hoisted_lower': ['r18b_match_hoisted_lower_use'],
          'r27_not_found_sentinel_attribute': ['r27b_not_found_sentinel_attribute_init'], 'r19_criteria_pairs_helper': ['r19b_criteria_pairs_helper_def']}


def main():
    os.makedirs(OUT, exist_ok=True)
    grouped = set(x for v in GROUPS.values() for x in v)
    for name, (prop, path, old, new) in EDITS.items():
        if name in grouped:
            continue
        wt = tempfile.mkdtemp(prefix='rf_')
        shutil.rmtree(wt)
        subprocess.check_call(['git', '-C', '/repo', 'worktree', 'add', '-q', '--detach', wt, 'HEAD'])
        try:
            p = os.path.join(wt, path)
            s = open(p).read()
            assert s.count(old) == 1, (name, s.count(old))
            open(p, 'w').write(s.replace(old, new))
            for extra in GROUPS.get(name, ()):
                _, path2, old2, new2 = EDITS[extra]
                p2 = os.path.join(wt, path2)
                s2 = open(p2).read()
                assert s2.count(old2) == 1, (extra, s2.count(old2))
                open(p2, 'w').write(s2.replace(old2, new2))
            r = subprocess.run('/venv/bin/python -m pytest -q -p no:cacheprovider 2>&1 | tail -1', shell=True, cwd=wt, stdout=subprocess.PIPE, universal_newlines=True)
            assert '165 passed' in r.stdout, (name, r.stdout)
            d = subprocess.run(['git', '-C', wt, 'diff', '--', 'hotxlfp'], stdout=subprocess.PIPE, universal_newlines=True).stdout
            open(os.path.join(OUT, '%s.%s.diff' % (name, prop)), 'w').write(d)
            print('wrote', name, prop)
        finally:
            subprocess.call(['git', '-C', '/repo', 'worktree', 'remove', '--force', wt])


main()
