#!/usr/bin/env python3
"""
Writes selftest/refactors/*.diff: behaviour-preserving edits of /repo (renamed locals, reordered independent statements,
if/else flipped with negated test, equivalent expressions).  tools/run_refactors.py applies each to a scratch worktree and
runs the listed checks, which must all stay green (exit 0): a VIOLATION here is a false alarm of ours.
"""
import os, subprocess, tempfile, shutil
HERE = os.path.dirname(os.path.abspath(__file__))
OUT = os.path.join(HERE, 'refactors')

EDITS = {
 'r01_right_reordered': ('C15', 'hotxlfp/formulas/text.py',
   "    return text[-num_chars:] if num_chars else ''\n",
   "    if num_chars == 0:\n        return ''\n    tail = text[-num_chars:]\n    return tail\n"),
 'r02_left_explicit_slice': ('C15', 'hotxlfp/formulas/text.py',
   "    return text[:num_chars]\n",
   "    count = num_chars\n    return text[0:count]\n"),
 'r03_switch_renamed': ('C12', 'hotxlfp/formulas/logic.py',
   "    argc = len(args)\n    default_clause = utils.DEFAULT if (argc % 2 == 0) else args[-1]\n    for i in range(0, argc - 1, 2):\n",
   "    count = len(args)\n    default_clause = args[-1] if (count % 2 != 0) else utils.DEFAULT\n    for i in range(0, count - 1, 2):\n"),
 'r04_if_flipped': ('C12', 'hotxlfp/formulas/logic.py',
   "    return then if test else otherwise\n",
   "    return otherwise if not test else then\n"),
 'r05_serial_days': ('C13', 'hotxlfp/formulas/utils.py',
   "    if date < -2203891200000:\n        return (date - d1900) / 86400000 + 1\n    return (date - d1900) / 86400000 + 2\n",
   "    days = (date - d1900) / 86400000\n    if days >= 59:\n        return days + 2\n    return days + 1\n"),
 'r06_logic_errors_reordered_names': ('C08', 'hotxlfp/formulas/operators.py',
   "def evaluate_logic(op, lval, rval):\n    if isinstance(lval, error.XLError):\n        return lval\n    if isinstance(rval, error.XLError):\n        return rval\n",
   "def evaluate_logic(op, lval, rval):\n    left_is_error = isinstance(lval, error.XLError)\n    if left_is_error:\n        return lval\n    elif isinstance(rval, error.XLError):\n        return rval\n"),
 'r07_off_comprehension': ('C20', 'hotxlfp/tinyemitter.py',
   "        if events and callback:\n            for event in events:\n                if event.fn != callback and ((not hasattr(event.fn, '_')) or event.fn._ != callback):\n                    live_events.append(event)\n",
   "        if events and callback:\n            live_events = [event for event in events\n                           if event.fn != callback and ((not hasattr(event.fn, '_')) or event.fn._ != callback)]\n"),
 'r08_index_checks_swapped': ('C18', 'hotxlfp/formulas/lookupandreference.py',
   "    if row_num is None:\n        row_num = DEFAULT\n    if column_num is None:\n        column_num = DEFAULT\n",
   "    if column_num is None:\n        column_num = DEFAULT\n    if row_num is None:\n        row_num = DEFAULT\n"),
 'r09_call_function_renamed': ('C09', 'hotxlfp/parser.py',
   "        fn = self.functions.get(name)\n        result = {'value': None}  # get around 2.7 not having nonlocal\n        if fn is None and formulas.is_supported(name):\n            fn = formulas.get_for(name)\n        if fn is None:\n            raise formulaserror.NAME\n",
   "        result = {'value': None}  # get around 2.7 not having nonlocal\n        fn = self.functions.get(name)\n        if fn is None:\n            if formulas.is_supported(name):\n                fn = formulas.get_for(name)\n        if fn is None:\n            raise formulaserror.NAME\n"),
 'r10_odd_rewritten': ('C17', 'hotxlfp/formulas/mathtrig.py',
   "    tmp = math.ceil(abs(number))\n    tmp = tmp if (tmp % 2) == 1 else tmp + 1\n    return tmp if number >= 0 else -tmp\n",
   "    magnitude = math.ceil(abs(number))\n    if magnitude % 2 == 0:\n        magnitude = magnitude + 1\n    if number < 0:\n        return -magnitude\n    return magnitude\n"),
 'r11_amp_helper_inline': ('C06', 'hotxlfp/grammarparser/parser.py',
   "                p[0] = ''.join('' if v is None else str(v) for v in (p[1], p[3]))\n",
   "                left = '' if p[1] is None else str(p[1])\n                right = '' if p[3] is None else str(p[3])\n                p[0] = left + right\n"),
 'r12_cell_label_uppercase_order': ('C10', 'hotxlfp/parser.py',
   "        label = label.upper()\n        row, col = extract_label(label)\n        result = {'value': None}  # get around 2.7 not having nonlocal\n",
   "        result = {'value': None}  # get around 2.7 not having nonlocal\n        label = label.upper()\n        row, col = extract_label(label)\n"),
 'r13_atan2_nested_if': ('C16', 'hotxlfp/formulas/mathtrig.py',
   "    if x_num == 0 and y_num == 0:\n        return error.DIV_ZERO\n",
   "    if x_num == 0:\n        if y_num == 0:\n            return error.DIV_ZERO\n"),
 'r14_from_message_local': ('C01', 'hotxlfp/formulas/error.py',
   "    return errdict.get(str(message), ERROR)\n",
   "    key = str(message)\n    if key in errdict:\n        return errdict[key]\n    return ERROR\n"),
}


def main():
    os.makedirs(OUT, exist_ok=True)
    for name, (prop, path, old, new) in EDITS.items():
        wt = tempfile.mkdtemp(prefix='rf_')
        shutil.rmtree(wt)
        subprocess.check_call(['git', '-C', '/repo', 'worktree', 'add', '-q', '--detach', wt, 'HEAD'])
        try:
            p = os.path.join(wt, path)
            s = open(p).read()
            assert s.count(old) == 1, (name, s.count(old))
            open(p, 'w').write(s.replace(old, new))
            r = subprocess.run('/venv/bin/python -m pytest -q -p no:cacheprovider 2>&1 | tail -1', shell=True, cwd=wt, stdout=subprocess.PIPE, universal_newlines=True)
            assert '165 passed' in r.stdout, (name, r.stdout)
            d = subprocess.run(['git', '-C', wt, 'diff', '--', 'hotxlfp'], stdout=subprocess.PIPE, universal_newlines=True).stdout
            open(os.path.join(OUT, '%s.%s.diff' % (name, prop)), 'w').write(d)
            print('wrote', name, prop)
        finally:
            subprocess.call(['git', '-C', '/repo', 'worktree', 'remove', '--force', wt])


main()
