#!/bin/sh
# Build the offline overlay interpreter used by every check (idempotent).
set -e
cd "$(dirname "$0")"
if [ ! -x .venv/bin/python ] || ! .venv/bin/python -c "import z3, jsonschema, ply, dateutil" 2>/dev/null; then
  rm -rf .venv
  /venv/bin/python -m venv .venv
  PIP_NO_INDEX=1 .venv/bin/python -m pip install -q --no-index --find-links /opt/veriftools/wheels z3-solver jsonschema >/dev/null
  # ply / dateutil / six come from the repository's own venv (path only; its .pth files are not processed,
  # so the editable hotxlfp install is NOT visible: checks import hotxlfp from a scratch copy of /repo)
  echo "/venv/lib/python3.12/site-packages" > .venv/lib/python3.12/site-packages/zz_repo_deps.pth
fi
.venv/bin/python -c "import z3, jsonschema, ply, dateutil; print('setup ok: z3', z3.get_version_string())"
