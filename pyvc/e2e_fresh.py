# -*- coding: utf-8 -*-
"""
Oracle for history / interference independence: the outcome of each formula in a process that has evaluated nothing else.
Run as:  python -m pyvc.e2e_fresh <scratch dir>   with a JSON list of formulas on stdin; prints a JSON object formula -> repr(outcome).
Each formula is evaluated in a forked child that imports hotxlfp itself (this process never imports it), so no module-level table,
memo or cache can carry anything from one formula to the next.
"""
import json
import os
import sys


def setup(p):
    """ the registrations every parser of the interference runs carries (data only: the children cannot share host callables) """
    import datetime
    p.set_variable('x', 3)
    p.set_variable('t', True)
    p.set_variable('f1', 1.0)
    p.set_variable('i1', 1)
    p.set_variable('z0', 0)
    p.set_variable('zf', 0.0)
    p.set_variable('lst', [5, 1, 4, [2, 9]])
    p.set_variable('words', ['apple', 'Banana', 'cherry'])
    p.set_variable('when', datetime.datetime(2020, 1, 31, 12))
    return p


def main():
    scratch = sys.argv[1]
    formulas = json.load(sys.stdin)
    out = {}
    for f in formulas:
        r, w = os.pipe()
        pid = os.fork()
        if pid == 0:
            os.close(r)
            try:
                sys.path.insert(0, scratch)
                sys.dont_write_bytecode = True
                import hotxlfp
                res = repr(setup(hotxlfp.Parser()).parse(f))
            except BaseException as ex:
                res = 'RAISED %s' % type(ex).__name__
            os.write(w, res.encode('utf-8'))
            os._exit(0)
        os.close(w)
        data = b''
        while True:
            chunk = os.read(r, 65536)
            if not chunk:
                break
            data += chunk
        os.close(r)
        os.waitpid(pid, 0)
        out[f] = data.decode('utf-8')
    json.dump(out, sys.stdout)


if __name__ == '__main__':
    main()
