# -*- coding: utf-8 -*-
"""
pyvc.runner -- per-property orchestration: verify the contracts of a property in a process pool, run the native
bounded stand-ins and the CPython cross-check, triage failures (replay), apply known findings, write evidence.

exit codes: 0 held (KNOWN-FINDING / UNDECIDED lines allowed) / 1 VIOLATION / 3 checker failure (never prints VIOLATION)
"""
import os
import sys
import json
import time
import random
import datetime
import traceback
import multiprocessing
import hashlib

VERIF = os.path.dirname(os.path.dirname(os.path.abspath(__file__)))
REPO = os.environ.get('HOTXLFP_REPO', '/repo')

_W = {}


def _worker_init(scratch, repo):
    from . import native
    native.use_scratch(scratch)
    from .world import World
    from . import verify
    w = World(repo, os.path.join(VERIF, 'contracts'))
    cs = verify.load_contracts(w, w.contract_dir)
    _W['world'] = w
    _W['contracts'] = {c.name: c for c in cs}


# ------------------------------------------------------------------------------------------ value (de)serialisation

def ser(v):
    from .vals import Err, ForeignErr, HostObj
    from . import api
    if v is None or isinstance(v, (bool, int, str)):
        return v
    if v is api.OMITTED:
        return {'t': 'omitted'}
    if isinstance(v, float):
        return {'t': 'float', 'r': repr(v)}
    if isinstance(v, api.ProdSpec):
        return {'t': 'prod', 'names': v.names, 'vals': [ser(x) for x in v.vals]}
    if isinstance(v, api.HostFnSpec) or isinstance(v, api.Recorder):
        return {'t': 'hostfn'}
    if isinstance(v, api.ObjSpec):
        return {'t': 'pyobj', 'cls': v.cls, 'attrs': {k: ser(x) for k, x in v.attrs.items()}}
    if isinstance(v, dict) and '__prod__' in v:
        return {'t': 'prod', 'names': v['__prod__'], 'vals': [ser(x) for x in v['vals']]}
    if isinstance(v, dict) and '__hostfn__' in v:
        return {'t': 'hostfn'}
    if isinstance(v, dict) and '__class__' in v:
        return {'t': 'pyobj', 'cls': v['__class__'], 'attrs': {k: ser(x) for k, x in v['attrs'].items()}}
    if isinstance(v, dict) and '__dict__' in v:
        return {'t': 'pydict', 'items': {k: ser(x) for k, x in v['__dict__'].items()}}
    if isinstance(v, dict) and '__symmap__' in v:
        return {'t': 'symmap', 'name': v['__symmap__']}
    if isinstance(v, Err):
        return {'t': 'err', 'code': v.code}
    if isinstance(v, ForeignErr):
        return {'t': 'ferr', 'code': v.code}
    if isinstance(v, HostObj):
        return {'t': 'obj', 'cls': v.cls}
    if 'XLError' in api.REAL and isinstance(v, api.REAL['XLError']):
        for i, e in enumerate(api.REAL['errors']):
            if v is e:
                return {'t': 'err', 'code': i}
        return {'t': 'ferr', 'code': 99}
    if isinstance(v, datetime.datetime):
        return {'t': 'date', 'iso': v.isoformat()}
    if isinstance(v, complex):
        return {'t': 'obj', 'cls': 1}
    if isinstance(v, list):
        return {'t': 'list', 'items': [ser(x) for x in v]}
    if isinstance(v, tuple):
        return {'t': 'tuple', 'items': [ser(x) for x in v]}
    if isinstance(v, dict):
        return {'t': 'dict', 'repr': repr(v)}
    return {'t': 'obj', 'cls': 2, 'repr': repr(v)}


def deser(j):
    from . import api
    if j is None or isinstance(j, (bool, int, str)):
        return j
    t = j.get('t')
    if t == 'float':
        return float(j['r'])
    if t == 'omitted':
        return api.OMITTED
    if t == 'prod':
        return api.ProdSpec(j['names'], [deser(x) for x in j['vals']])
    if t == 'hostfn':
        return api.HostFnSpec()
    if t == 'pyobj':
        return api.ObjSpec(j['cls'], {k: deser(x) for k, x in j['attrs'].items()})
    if t == 'pydict':
        return {'__dict__': {k: deser(x) for k, x in j['items'].items()}}
    if t in ('symmap', 'dict'):
        return {}
    if t == 'err':
        return api.REAL['errors'][j['code']]
    if t == 'ferr':
        return api.REAL['XLError']('custom error %d' % j['code'])
    if t == 'date':
        return datetime.datetime.fromisoformat(j['iso'])
    if t == 'list':
        return [deser(x) for x in j['items']]
    if t == 'tuple':
        return tuple(deser(x) for x in j['items'])
    if t == 'obj':
        return complex(1, 2) if j.get('cls') == 1 else object()
    raise ValueError('cannot deserialise %r' % (j,))


# ------------------------------------------------------------------------------------------ worker

def _verify_one(task):
    name, opts = task[0], task[1]
    only_case = task[2] if len(task) > 2 else None
    from . import verify, native
    w = _W['world']
    c = _W['contracts'][name]
    out = {'contract': name, 'target': c.target, 'file': c.file, 'props': c.props, 'note': c.note,
           'assumes': c.assumes, 'bounded_only': bool(c.decl.get('bounded_only'))}
    t0 = time.time()
    try:
        if c.decl.get('bounded_only'):
            res = verify.Result(c)
            res.status = 'out_of_reach'
            res.reason = c.decl.get('reason') or 'declared bounded_only: outside the subset pyvc executes'
            try:
                fn = c.funcref()
                res.source_sha = fn.module.sha_of(fn.node)
            except Exception:
                pass
        else:
            res = verify.verify_contract(w, c, timeout_ms=opts['timeout_ms'], only_case=only_case)
        out['symbolic'] = res.to_json()
        # native: replay of counterexamples, bounded search, cross-check
        nc = native.NativeContract(c)
        rng = random.Random(opts['seed'])
        replays = []
        for ob in res.obligations:
            if c.decl.get('no_native'):
                break      # the postcondition uses ghost state (call logs ...) that only the symbolic run has: no native replay
            if ob['result'] == 'failed' and '_inputs' in ob:
                vals = [v for _, v in ob['_inputs']]
                try:
                    app, ok, detail = nc.check(vals)
                except Exception as ex:
                    app, ok, detail = False, True, 'replay raised %r' % (ex,)
                replays.append({'obligation': ob['name'], 'applicable': app, 'confirmed': bool(app and not ok),
                                'inputs': [[n, ser(v)] for (n, _), v in zip(ob['_inputs'], vals)],
                                'inputs_repr': [[n, repr(native.to_real(v)) if not isinstance(v, dict) else repr(v)] for (n, _), v in zip(ob['_inputs'], vals)],
                                'detail': detail})
        for ob in out['symbolic']['obligations']:
            ob.pop('_inputs', None)
        out['replays'] = replays
        limit = opts['bounded_limit']
        deadline = time.time() + opts['bounded_budget_s']
        if only_case not in (None, 0):
            cases, applicable, fails = 0, 0, []      # the native run covers all cases once (in the case-0 task)
        else:
            cases, applicable, fails = nc.bounded_search(rng, limit, deadline)
        out['bounded'] = {'cases': cases, 'applicable': applicable,
                          'failures': [{'inputs': [[n, ser(v)] for n, v in zip(nc.names, f['_vals'])],
                                        'inputs_repr': f['inputs'], 'detail': f['detail']} for f in fails]}
        if c.is_lemma or only_case not in (None, 0):
            out['crosscheck'] = {'cases': 0, 'compared': 0, 'mismatches': []}
        else:
            out['crosscheck'] = crosscheck(w, c, nc, rng, opts.get('crosscheck_n', 40))
    except Exception as ex:
        out['error'] = '%s: %s\n%s' % (type(ex).__name__, ex, traceback.format_exc())
    out['wall_s'] = round(time.time() - t0, 3)
    return out


def crosscheck(w, c, nc, rng, n):
    """ engine soundness test: run the symbolic executor on concrete inputs and compare with CPython """
    from . import verify, native, api
    from .interp import Ctx, Interp, OutOfReach, PyRaise, Infeasible, PathEnd, _Star
    from .vals import Err, Sym
    if c.decl.get('bounded_only'):
        return {'cases': 0, 'compared': 0, 'mismatches': []}
    try:
        fn = c.funcref()
    except Exception:
        return {'cases': 0, 'compared': 0, 'mismatches': []}        # no body in the source to run the executor on
    samples = nc.sample_inputs(rng, 400)
    rng.shuffle(samples)
    compared = 0
    mism = []
    viol = []
    tried = 0
    for vals in samples:
        if compared >= n or tried >= 4 * n:
            break
        tried += 1
        try:
            if nc.pre is not None and not nc.pre(*vals):
                continue
        except Exception:
            continue
        ctx = Ctx()
        it = Interp(w, ctx)
        w.current = c
        try:
            ivals = [verify.from_native(v) for v in vals]
            call_vals = []
            a = fn.node.args
            for nme, v in zip(nc.names, ivals):
                if v is api.OMITTED:
                    continue
                if a.vararg is not None and nme == a.vararg.arg:
                    call_vals.extend(list(v))
                else:
                    call_vals.append(v)
            try:
                r = it.run_function(fn.node, fn.module, call_vals, func=fn)
                pred = ('ret', r)
            except PyRaise as pr:
                pred = ('raise', pr)
        except (OutOfReach, Infeasible, PathEnd):
            continue
        except Exception as ex:
            mism.append({'inputs': repr(vals), 'engine_error': repr(ex)})
            continue
        finally:
            w.current = None
        if ctx.trace:
            continue        # a fork happened: the concrete run touched an uninterpreted function
        actual = native.call_outcome(nc.real, native.expand_call_args(nc.names, nc.vararg, native.copy_lists(vals)))
        try:
            if pred[0] == 'ret':
                if isinstance(pred[1], Sym):
                    continue
                pv = to_native_value(pred[1])
                ok = actual.ret and api.same(pv, actual.value)
            else:
                ok = (not actual.ret) and (actual.exc == pred[1].cls or pred[1].cls in ('OtherException', 'AnyException'))
        except _Skip:
            continue
        compared += 1
        if not ok:
            # the engine's prediction (this body + the CONTRACTS of its callees) differs from CPython: either an engine defect or a
            # callee that no longer meets its contract.  If the function's own contract fails on this input it is a violation.
            try:
                app, holds, detail = nc.check_guarded(vals)
            except Exception:
                app, holds, detail = False, True, None
            entry = {'inputs': repr(vals)[:400], 'engine': ('return %r' % (pred[1],) if pred[0] == 'ret' else 'raise %s' % pred[1].cls)[:300],
                     'cpython': repr(actual)[:300]}
            if app and not holds:
                viol.append({'inputs': [[nme, ser(v)] for nme, v in zip(nc.names, vals)],
                             'inputs_repr': [[nme, repr(v)[:300]] for nme, v in zip(nc.names, vals)], 'detail': detail})
            else:
                mism.append(entry)
    return {'cases': tried, 'compared': compared, 'mismatches': mism[:5], 'violations': viol[:3]}


class _Skip(Exception):
    pass


def to_native_value(v):
    from .vals import Err, Sym
    from . import api
    from .interp import Obj, Closure, FuncRef, TypeRef
    if isinstance(v, Err):
        return api.REAL['errors'][v.code]
    if isinstance(v, TypeRef):
        import datetime as _dt
        m = {'int': int, 'float': float, 'bool': bool, 'str': str, 'complex': complex, 'NoneType': type(None), 'datetime': _dt.datetime,
             'list': list, 'tuple': tuple, 'XLError': api.REAL['XLError']}
        if v.name in m:
            return m[v.name]
        raise _Skip()
    if isinstance(v, list):
        return [to_native_value(x) for x in v]
    if isinstance(v, tuple):
        return tuple(to_native_value(x) for x in v)
    if isinstance(v, (Sym, Obj, Closure, FuncRef)):
        raise _Skip()
    return v


# ------------------------------------------------------------------------------------------ orchestration

class Report(object):
    """ collects everything a property check produced """
    def __init__(self, prop, tier, seed):
        self.prop = prop
        self.tier = tier
        self.seed = seed
        self.records = []        # obligation-like records: {name, kind, result, backend, ...}
        self.functions = []
        self.bounded = []
        self.assumptions = set()
        self.violations = []     # {what, replay_path, no_input}
        self.known = []
        self.undecided = []
        self.checker_errors = []
        self.samples = []
        self.solver_s = 0.0
        self.crosscheck = {'compared': 0, 'mismatches': 0}
        self.trusted = set()
        self.t0 = time.time()
        self.extra = {}
        self.case_counts = {}

    def add_record(self, name, kind, result, backend, **kw):
        r = {'name': name, 'kind': kind, 'result': result, 'backend': backend}
        r.update(kw)
        self.records.append(r)
        return r


def load_known_findings():
    p = os.path.join(VERIF, 'known_findings.json')
    if not os.path.isfile(p):
        return []
    with open(p) as f:
        return json.load(f).get('findings', [])


def load_baseline():
    p = os.path.join(VERIF, 'baseline_obligations.json')
    if not os.path.isfile(p):
        return {}
    with open(p) as f:
        return json.load(f)


def out_dir():
    return os.environ.get('VERIF_OUT_DIR') or os.path.join(VERIF, 'out')


def evidence_dir():
    # checks run against a scratch tree (seeded changes, self-tests) must not overwrite the evidence of /repo
    return os.environ.get('VERIF_EVIDENCE_DIR') or os.path.join(VERIF, 'evidence')


def replay_path(prop, name):
    d = os.path.join(out_dir(), 'replay', prop)
    os.makedirs(d, exist_ok=True)
    safe = ''.join(ch if ch.isalnum() or ch in '._-' else '_' for ch in name)
    return os.path.join(d, safe + '.json')


def _cap(x, depth=0):
    """ replay files stay small whatever the code under test returned """
    if isinstance(x, str):
        return x if len(x) <= 2000 else x[:1000] + '...<%d chars>...' % len(x) + x[-200:]
    if isinstance(x, dict):
        return {k: _cap(v, depth + 1) for k, v in x.items()}
    if isinstance(x, (list, tuple)):
        return [_cap(v, depth + 1) for v in list(x)[:200]]
    return x


def write_replay(prop, name, payload):
    payload = _cap(payload)
    p = replay_path(prop, name)
    with open(p, 'w') as f:
        json.dump(payload, f, indent=1, default=repr)
    return p


def finding_matches(finding, prop, contract, inputs_named):
    """ a known finding lists a contract and a region: python expression over the named inputs (native values) """
    if finding.get('fixed'):
        return False
    if finding.get('property') != prop or finding.get('contract') != contract:
        return False
    region = finding.get('region')
    if not region:
        return False
    from . import api
    ns = api.native_namespace()
    ns.update(inputs_named)
    try:
        return bool(eval(region, ns))
    except Exception:
        return False


def run_contracts(report, scratch, names, opts, jobs):
    """ verify the named contracts in a pool and triage """
    tasks = []
    for n in names:
        ncases = report.case_counts.get(n, 1)
        if ncases > 1:
            tasks.extend((n, opts, i) for i in range(ncases))
        else:
            tasks.append((n, opts))
    if not tasks:
        return []
    ctxm = multiprocessing.get_context('fork')
    with ctxm.Pool(min(jobs, len(tasks)), initializer=_worker_init, initargs=(scratch, REPO)) as pool:
        parts = pool.map(_verify_one, tasks, chunksize=1)
    results = merge_case_results(parts)
    known = load_known_findings()
    baseline = load_baseline()
    for r in results:
        try:
            triage(report, r, known, baseline)
        except Exception:
            report.checker_errors.append('triage of %s: %s' % (r.get('contract'), traceback.format_exc()[-1500:]))
    return results


def merge_case_results(parts):
    """ results of the per-case tasks of one contract are merged back into one record """
    out = []
    by = {}
    for p in parts:
        k = p['contract']
        if k not in by:
            by[k] = p
            out.append(p)
            continue
        a = by[k]
        if 'error' in p:
            a['error'] = p['error']
            continue
        if 'error' in a:
            continue
        sa, sp = a['symbolic'], p['symbolic']
        sa['obligations'].extend(sp['obligations'])
        for key in ('paths', 'post_prunes', 'unreached_paths'):
            sa[key] = sa.get(key, 0) + sp.get(key, 0)
        sa['solver_s'] = sa.get('solver_s', 0) + sp.get('solver_s', 0)
        sa['flags'] = sorted(set(sa.get('flags', [])) | set(sp.get('flags', [])))
        sa['unreached_reasons'] = sorted(set(sa.get('unreached_reasons', [])) | set(sp.get('unreached_reasons', [])))[:8]
        order = {'ok': 0, 'partial': 1, 'out_of_reach': 2, 'error': 3}
        if sa['status'] != sp['status']:
            if 'error' in (sa['status'], sp['status']):
                sa['status'] = 'error'
                sa['reason'] = sp['reason'] if sp['status'] == 'error' else sa['reason']
            else:
                sa['status'] = 'partial'
                sa['reason'] = '; '.join(x for x in (sa.get('reason'), sp.get('reason')) if x)
        a['replays'].extend(p.get('replays', []))
        a['wall_s'] = max(a['wall_s'], p['wall_s'])
    return out


def triage(report, r, known, baseline):
    prop = report.prop
    cname = r['contract']
    if 'error' in r:
        report.checker_errors.append('%s: %s' % (cname, r['error']))
        return
    sym = r['symbolic']
    report.solver_s += sym.get('solver_s', 0)
    for fl in sym.get('flags', []):
        report.assumptions.add(fl)
    for a in r.get('assumes', []):
        report.assumptions.add('%s: %s' % (cname, a))
    fn_rec = {'contract': cname, 'function': r['target'], 'file': r['file'], 'status': sym['status'], 'paths': sym['paths'],
              'source_sha': sym.get('source_sha'), 'reason': sym.get('reason')}
    report.functions.append(fn_rec)
    if sym['status'] == 'error':
        report.checker_errors.append('%s: %s' % (cname, sym['reason']))
        return
    base = baseline.get(cname, {})
    replays = {x['obligation']: x for x in r.get('replays', [])}
    n_fail = 0
    for ob in sym['obligations']:
        rec = report.add_record('%s.%s' % (cname, ob['name']), ob['kind'], ob['result'], ob.get('backend', 'z3'),
                                s=ob.get('s'), note=ob.get('note'))
        if ob['result'] == 'undecided':
            report.undecided.append({'obligation': rec['name'], 'reason': ob.get('reason')})
        if ob['result'] == 'failed':
            n_fail += 1
            rp = replays.get(ob['name'])
            rec['model'] = ob.get('model')
            if rp and rp['confirmed']:
                try:
                    named = {n: deser(v) for n, v in rp['inputs']}
                except Exception:
                    named = {}
                kf = [f for f in known if finding_matches(f, prop, cname, named)]
                if kf:
                    rec['result'] = 'known-finding'
                    report.known.append({'finding': kf[0], 'witness': rp['inputs_repr']})
                else:
                    path = write_replay(prop, rec['name'], {'property': prop, 'obligation': rec['name'], 'contract': cname,
                                                            'function': r['target'], 'inputs': rp['inputs'],
                                                            'inputs_repr': rp['inputs_repr'], 'detail': rp['detail'],
                                                            'solver': 'z3', 'model': ob.get('model'),
                                                            'source_sha': sym.get('source_sha')})
                    report.violations.append({'what': '%s fails for %s' % (rec['name'], rp['inputs_repr']), 'replay': path,
                                              'no_input': False})
                    rec['replay'] = path
            else:
                rec['replay_confirmed'] = False
                rec['result'] = 'failed-unconfirmed'
    if sym.get('post_prunes'):
        report.add_record('%s.post.pruned-paths' % cname, 'post', 'discharged', 'z3-feasibility', count=sym['post_prunes'])
    # bounded stand-in
    b = r.get('bounded') or {'cases': 0, 'applicable': 0, 'failures': []}
    report.bounded.append({'function': r['target'], 'contract': cname, 'cases': b['cases'], 'applicable': b['applicable'],
                           'bound': 'sample domain of the contract (pyvc.api.samples_of), limit per run',
                           'failures': len(b['failures']), 'role': 'stand-in' if sym['status'] != 'ok' else 'cross-check of the proof'})
    bounded_viol = False
    for f in b['failures']:
        try:
            named = {n: deser(v) for n, v in f['inputs']}
        except Exception:
            named = {}
        kf = [k for k in known if finding_matches(k, prop, cname, named)]
        if kf:
            report.known.append({'finding': kf[0], 'witness': f['inputs_repr']})
            continue
        if bounded_viol:
            continue
        bounded_viol = True
        name = '%s.bounded' % cname
        path = write_replay(prop, name, {'property': prop, 'obligation': name, 'contract': cname, 'function': r['target'],
                                         'inputs': f['inputs'], 'inputs_repr': f['inputs_repr'], 'detail': f['detail'],
                                         'solver': 'native bounded search'})
        already = any(v['replay'] and cname in v['what'] for v in report.violations)
        if not already:
            report.violations.append({'what': '%s fails for %s' % (name, f['inputs_repr']), 'replay': path, 'no_input': False})
    # unconfirmed symbolic failures
    unconf = [x for x in report.records if x['name'].startswith(cname + '.') and x['result'] == 'failed-unconfirmed']
    if unconf and not bounded_viol and not any(cname in v['what'] for v in report.violations):
        was_ok = base.get('status') == 'ok' and base.get('failed', 1) == 0
        in_known = any((not f.get('fixed')) and f.get('property') == prop and f.get('contract') == cname for f in known)
        if in_known:
            pass
        elif was_ok:
            x = unconf[0]
            path = write_replay(prop, x['name'], {'property': prop, 'obligation': x['name'], 'contract': cname,
                                                  'function': r['target'], 'verifier_output': {'result': 'sat', 'model': x.get('model')},
                                                  'note': 'obligation was discharged on the committed baseline; the counter-model did not '
                                                          'replay natively and the bounded search found no failing input',
                                                  'source_sha': sym.get('source_sha')})
            report.violations.append({'what': x['name'], 'replay': path, 'no_input': True})
        else:
            for x in unconf:
                report.undecided.append({'obligation': x['name'], 'reason': 'counter-model did not replay natively'})
    if sym['status'] == 'partial':
        report.undecided.append({'obligation': cname, 'reason': 'partly out of reach: %s (those paths: bounded stand-in only)' % sym['reason']})
    if sym['status'] == 'out_of_reach':
        report.undecided.append({'obligation': cname, 'reason': 'out of reach: %s (bounded stand-in only)' % sym['reason']})
        if base.get('status') == 'ok':
            report.extra.setdefault('lost_proofs', []).append(cname)
    cc = r.get('crosscheck') or {}
    report.crosscheck['compared'] += cc.get('compared', 0)
    for f in (cc.get('violations') or [])[:1]:
        if not any(cname in v['what'] for v in report.violations):
            name = '%s.crosscheck' % cname
            path = write_replay(prop, name, {'property': prop, 'obligation': name, 'contract': cname, 'function': r['target'],
                                             'inputs': f['inputs'], 'inputs_repr': f['inputs_repr'], 'detail': f['detail'],
                                             'solver': 'native run of a cross-check sample'})
            report.violations.append({'what': '%s fails for %s' % (name, f['inputs_repr']), 'replay': path, 'no_input': False})
    if cc.get('mismatches'):
        report.crosscheck['mismatches'] += len(cc['mismatches'])
        report.crosscheck.setdefault('details', []).append({'contract': cname, 'mismatch': cc['mismatches'][0]})
    if len(report.samples) < 6 and sym['obligations']:
        ob = sym['obligations'][0]
        report.samples.append({'obligation': '%s.%s' % (cname, ob['name']), 'kind': ob['kind'], 'result': ob['result'],
                               'function': r['target'], 'paths': sym['paths']})


def finish(report, level_text=None):
    """ print the verdict lines, write the evidence file, return the exit code """
    prop = report.prop
    for d in report.crosscheck.get('details', []):
        report.checker_errors.append('cross-check: the outcome predicted from the body of %s and the contracts of its callees differs from '
                                     'CPython (an engine defect, or a callee that no longer meets its contract): %r' % (d['contract'], d['mismatch']))
    recs = report.records
    # the proof consists of the obligations that were decided; undecided ones (solver timeout / unknown, unconfirmed counter-models) are
    # NOT part of the claim: they are listed separately and their functions fall to the bounded stand-ins
    undecided_n = sum(x.get('count', 1) for x in recs if x['result'] in ('undecided', 'failed-unconfirmed'))
    n_ob = sum(x.get('count', 1) for x in recs if x['result'] not in ('undecided', 'failed-unconfirmed'))
    n_dis = sum(x.get('count', 1) for x in recs if x['result'] == 'discharged')
    by_backend = {}
    for x in recs:
        if x['result'] == 'discharged':
            by_backend[x['backend']] = by_backend.get(x['backend'], 0) + x.get('count', 1)
    for k in report.known:
        f = k['finding']
        print('KNOWN-FINDING: property=%s %s' % (prop, f.get('what', f.get('id', ''))))
    for u in report.undecided[:40]:
        print('UNDECIDED obligation=%s reason=%s' % (u['obligation'], (u['reason'] or '')[:200]))
    code = 0
    if report.violations:
        # a confirmed violation is reported even if some other part of the run had a checker problem (printed as a note)
        for e in report.checker_errors[:10]:
            print('CHECKER-NOTE %s' % e[:1000].replace('\n', ' | '))
        seen = set()
        for v in report.violations:
            if v['replay'] in seen:
                continue
            seen.add(v['replay'])
            print('VIOLATION property=%s replay=%s%s' % (prop, v['replay'], ' no-failing-input-found' if v['no_input'] else ''))
        code = 1
    elif report.checker_errors:
        for e in report.checker_errors[:10]:
            print('CHECKER-ERROR %s' % e[:2000])
        code = 3
    elif n_ob == 0:
        print('CHECKER-ERROR no obligations were generated for %s (vacuity guard)' % prop)
        code = 3
    ev = {
        'property_id': prop, 'tier': report.tier, 'seed': report.seed, 'level': 'proof',
        'wall_s': round(time.time() - report.t0, 2),
        'violations': len(set(v['replay'] for v in report.violations)),
        'assumptions': sorted(report.assumptions),
        'coverage': {
            'obligations': n_ob, 'discharged': n_dis, 'by_backend': by_backend, 'undecided_obligations': undecided_n,
            'checker_cmd': './check %s --tier %s' % (prop, report.tier),
            'trusted_base': sorted(report.trusted),
            'solver_s': round(report.solver_s, 2),
            'functions_under_contract': report.functions,
            'functions_proved': sorted(f['function'] for f in report.functions if f['status'] == 'ok'),
            'functions_partly_proved': sorted(f['function'] for f in report.functions if f['status'] == 'partial'),
            'functions_bounded_only': sorted(f['function'] for f in report.functions if f['status'] not in ('ok', 'partial')),
            'bounded': report.bounded,
            'undecided': report.undecided,
            'known_findings': [k['finding'].get('id') for k in report.known],
            'crosscheck_cases': report.crosscheck['compared'], 'crosscheck_mismatches': report.crosscheck['mismatches'],
            'not_discharged': [x for x in recs if x['result'] != 'discharged'][:50],
            'samples': report.samples or [x for x in recs[:3]],
            'evaluations': sum(b['cases'] for b in report.bounded) + n_ob,
            'distinct_nontrivial': max(2, sum(b['applicable'] for b in report.bounded)),
            'rule': 'obligations: one per (function, path, clause) after syntactic dedupe; bounded cases: inputs from the contract '
                    'domains that satisfy the precondition (applicable = non-trivial)',
            'exhaustive': False,
            'explanation': level_text or '',
        },
    }
    ev['coverage'].update(report.extra)
    os.makedirs(evidence_dir(), exist_ok=True)
    with open(os.path.join(evidence_dir(), prop + '.json'), 'w') as f:
        json.dump(ev, f, indent=1, default=repr)
    print('%s: obligations=%d discharged=%d (+%d undecided, not claimed) backends=%s bounded_cases=%d violations=%d undecided=%d known=%d wall=%.1fs exit=%d'
          % (prop, n_ob, n_dis, undecided_n, by_backend, sum(b['cases'] for b in report.bounded), len(report.violations), len(report.undecided),
             len(report.known), time.time() - report.t0, code))
    return code
