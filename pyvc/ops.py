# -*- coding: utf-8 -*-
"""
pyvc.ops -- CPython operator semantics on interpreter values (DESIGN E1-E7).
Floats are modelled as the real number they denote and float arithmetic as exact real arithmetic;
every use sets the flag 'real_arith' on the context so the evidence can report the assumption.
"""
import ast
import z3
import datetime
import operator as _op
from .vals import *   # noqa
from .interp import (DDict, Prod, SliceSym, OutOfReach, PyRaise, Infeasible, TypeRef, ExcClass, ExcInst, FuncRef, ClassRef, Obj,
                     NamedTupleClass, BoundMethod, Closure, Builtin, ExtRef, ModRef, TDelta, HostFn, int_term,
                     real_term, py_floordiv, py_mod, real_floor, real_ceil, real_trunc, norm_index, slice_bounds,
                     plain, KIND_TYPE, T_INT, T_FLOAT, T_BOOL, T_STR, T_LIST, T_TUPLE, T_NONE, T_COMPLEX,
                     T_DATETIME, T_DATE, T_XLERROR, T_DICT, T_OBJECT, _Star)

PY_BIN = {'Add': _op.add, 'Sub': _op.sub, 'Mult': _op.mul, 'Div': _op.truediv, 'FloorDiv': _op.floordiv,
          'Mod': _op.mod, 'Pow': _op.pow, 'BitAnd': _op.and_, 'BitOr': _op.or_, 'BitXor': _op.xor,
          'LShift': _op.lshift, 'RShift': _op.rshift}
PY_CMP = {'Eq': _op.eq, 'NotEq': _op.ne, 'Lt': _op.lt, 'LtE': _op.le, 'Gt': _op.gt, 'GtE': _op.ge}
DUNDER = {'Add': ('__add__', '__radd__'), 'Sub': ('__sub__', '__rsub__'), 'Mult': ('__mul__', '__rmul__'),
          'Div': ('__truediv__', '__rtruediv__')}
CMP_DUNDER = {'Lt': ('__lt__', '__gt__'), 'Gt': ('__gt__', '__lt__'), 'LtE': ('__le__', '__ge__'),
              'GtE': ('__ge__', '__le__'), 'Eq': ('__eq__', '__eq__'), 'NotEq': ('__ne__', '__ne__')}
SWAP = {'Lt': 'Gt', 'Gt': 'Lt', 'LtE': 'GtE', 'GtE': 'LtE', 'Eq': 'Eq', 'NotEq': 'NotEq'}

EXC_OF_NATIVE = {ZeroDivisionError: 'ZeroDivisionError', TypeError: 'TypeError', ValueError: 'ValueError',
                 OverflowError: 'OverflowError', IndexError: 'IndexError', KeyError: 'KeyError',
                 AttributeError: 'AttributeError'}


def _same_term(a, b):
    a, b = z3.simplify(a), z3.simplify(b)
    return a.eq(b)


def cancel_div(x, y):
    """ (y * z) / y = z  and (z * y) / y = z over the reals, y != 0 being established by the caller """
    xs = z3.simplify(x)
    if z3.is_app(xs) and xs.decl().kind() == z3.Z3_OP_MUL:
        args = [xs.arg(i) for i in range(xs.num_args())]
        for i, a in enumerate(args):
            if _same_term(a, y):
                rest = args[:i] + args[i + 1:]
                r = rest[0]
                for t in rest[1:]:
                    r = r * t
                return r
    # ToReal(p * n) / ToReal(p): integer products lifted to the reals
    if z3.is_app(xs) and xs.decl().kind() == z3.Z3_OP_TO_REAL:
        inner = xs.arg(0)
        ys = z3.simplify(y)
        if z3.is_app(inner) and inner.decl().kind() == z3.Z3_OP_MUL and inner.num_args() == 2 and z3.is_app(ys) and \
                ys.decl().kind() == z3.Z3_OP_TO_REAL:
            a, b = inner.arg(0), inner.arg(1)
            if a.eq(ys.arg(0)):
                return z3.ToReal(b)
            if b.eq(ys.arg(0)):
                return z3.ToReal(a)
    return None


def cancel_mul(x, y):
    """ (z / y) * y = z  and  y * (z / y) = z over the reals (the quotient exists, so y != 0) """
    for u, v in ((x, y), (y, x)):
        us = z3.simplify(u)
        if z3.is_app(us) and us.decl().kind() == z3.Z3_OP_DIV and _same_term(us.arg(1), v):
            return us.arg(0)
    return None


def native(fn, *args):
    try:
        return fn(*args)
    except tuple(EXC_OF_NATIVE) as ex:
        for k, v in EXC_OF_NATIVE.items():
            if type(ex) is k:
                raise PyRaise(v, ExcInst(v), msg=str(ex))
        raise PyRaise('OtherException', ExcInst('OtherException'))


def nativeish(v):
    """ plain python scalars and Err (Err behaves like an opaque object natively) """
    return plain(v) or isinstance(v, Err)


class Ops(object):

    def __init__(self, world):
        self.world = world

    # ------------------------------------------------------------------ truthiness
    def truth(self, it, v):
        ctx = it.ctx
        if isinstance(v, Sym):
            return ctx.branch(truthy_term(v.val, v.kinds))
        if isinstance(v, (Err, Obj, FuncRef, Closure, Builtin, TypeRef, HostFn, ExcInst, ClassRef, ExtRef, TDelta)):
            if isinstance(v, Obj) and isinstance(v.cls, NamedTupleClass):
                return len(v.cls.fields) > 0
            return True
        if isinstance(v, SymMapView):
            raise OutOfReach('truth of symbolic map')
        if isinstance(v, z3.BoolRef):
            return ctx.branch(v)
        return bool(v)

    # ------------------------------------------------------------------ unary
    def unop(self, it, op, v):
        if op == 'Not':
            t = self.truth(it, v)
            return not t
        if isinstance(v, Obj):
            raise OutOfReach('unary op on object')
        if not isinstance(v, Sym):
            if isinstance(v, Err):
                raise PyRaise('TypeError', ExcInst('TypeError'))
            if not plain(v):
                raise OutOfReach('unary %s on %r' % (op, v))
            if op == 'USub':
                return native(_op.neg, v)
            if op == 'UAdd':
                return native(_op.pos, v)
            if op == 'Invert':
                return native(_op.invert, v)
        k = it.ctx.narrow(v)
        if op in ('USub', 'UAdd'):
            if k in (INT, BOOL):
                t = int_term(it.ctx, v)
                return mk_int(-t if op == 'USub' else t)
            if k == FLOAT:
                t = v.pay(FLOAT)
                return mk_float(-t if op == 'USub' else t)
            raise PyRaise('TypeError', ExcInst('TypeError'))
        raise OutOfReach('unary %s' % op)

    # ------------------------------------------------------------------ binary
    def binop(self, it, op, a, b):
        ctx = it.ctx
        from . import api as _api
        if isinstance(a, _api.Dom) and isinstance(b, _api.Dom) and op == 'BitOr':
            return a | b
        # repo class instances: dunder dispatch through contracts
        if isinstance(a, Obj) or isinstance(b, Obj):
            return self.obj_binop(it, op, a, b)
        if isinstance(a, TDelta) or isinstance(b, TDelta) or isinstance(a, datetime.timedelta) or isinstance(b, datetime.timedelta):
            return self.date_arith(it, op, a, b)
        if nativeish(a) and nativeish(b):
            if op not in PY_BIN:
                raise OutOfReach('operator %s' % op)
            if isinstance(a, Err) or isinstance(b, Err):
                raise PyRaise('TypeError', ExcInst('TypeError'))
            if op == 'Pow' and isinstance(a, (int, float)) and isinstance(b, (int, float)) and not isinstance(a, bool):
                if isinstance(b, int) and abs(b) > 4096 and abs(a) > 1:
                    raise OutOfReach('huge power')
            r = native(PY_BIN[op], a, b)
            if isinstance(r, complex):
                raise OutOfReach('complex result')
            return r
        if isinstance(a, list) and isinstance(b, list) and op == 'Add':
            return a + b
        if isinstance(a, tuple) and isinstance(b, tuple) and op == 'Add':
            return a + b
        if (isinstance(a, (list, tuple)) or isinstance(b, (list, tuple))) and not (isinstance(a, Sym) or isinstance(b, Sym)):
            if isinstance(a, (list, tuple)) and isinstance(b, (list, tuple)):
                raise PyRaise('TypeError', ExcInst('TypeError'))
        for x in (a, b):
            if not (isinstance(x, Sym) or nativeish(x) or isinstance(x, (list, tuple))):
                if isinstance(x, (Closure, FuncRef, Builtin, HostFn, TypeRef)):
                    raise PyRaise('TypeError', ExcInst('TypeError'))
                raise OutOfReach('binary %s on %r' % (op, x))
        try:
            sa, sb = as_sym(a), as_sym(b)
        except Unliftable as u:
            raise OutOfReach(str(u))
        ka, kb = ctx.narrow(sa), ctx.narrow(sb)
        if ka == DATE or kb == DATE:
            return self.date_arith(it, op, sa, sb)
        if ka in NUMERIC and kb in NUMERIC:
            return self.num_binop(it, op, sa, sb, ka, kb)
        if ka == STR and kb == STR and op == 'Add':
            return mk_str(z3.Concat(sa.pay(STR), sb.pay(STR)))
        if ka == LIST and kb == LIST and op == 'Add':
            if sa.is_tuple != sb.is_tuple:
                raise PyRaise('TypeError', ExcInst('TypeError'))
            return mk_list(z3.Concat(sa.pay(LIST), sb.pay(LIST)), sa.is_tuple)
        if op == 'Mult' and ((ka in (STR, LIST) and kb in (INT, BOOL)) or (kb in (STR, LIST) and ka in (INT, BOOL))):
            raise OutOfReach('sequence repetition with symbolic operand')
        if op == 'Mod' and ka == STR:
            raise OutOfReach('% formatting')
        if ka == OBJ or kb == OBJ:
            raise OutOfReach('arithmetic on host object')
        raise PyRaise('TypeError', ExcInst('TypeError'))

    def num_binop(self, it, op, sa, sb, ka, kb):
        ctx = it.ctx
        as_real = (ka == FLOAT or kb == FLOAT)
        if op in ('Add', 'Sub', 'Mult'):
            if as_real:
                ctx.flags.add('real_arith')
                x, y = real_term(ctx, sa), real_term(ctx, sb)
                if op == 'Mult':
                    c = cancel_mul(x, y)
                    if c is not None:
                        return mk_float(c)
                return mk_float({'Add': x + y, 'Sub': x - y, 'Mult': x * y}[op])
            x, y = int_term(ctx, sa), int_term(ctx, sb)
            return mk_int({'Add': x + y, 'Sub': x - y, 'Mult': x * y}[op])
        if op == 'Div':
            x, y = real_term(ctx, sa), real_term(ctx, sb)
            if ctx.branch(y == 0):
                raise PyRaise('ZeroDivisionError', ExcInst('ZeroDivisionError'))
            ctx.flags.add('real_arith')
            c = cancel_div(x, y)
            if c is not None:
                return mk_float(c)
            return mk_float(x / y)
        if op in ('FloorDiv', 'Mod'):
            if as_real:
                x, y = real_term(ctx, sa), real_term(ctx, sb)
                if ctx.branch(y == 0):
                    raise PyRaise('ZeroDivisionError', ExcInst('ZeroDivisionError'))
                ctx.flags.add('real_arith')
                q = z3.ToReal(real_floor(x / y))
                return mk_float(q if op == 'FloorDiv' else x - q * y)
            x, y = int_term(ctx, sa), int_term(ctx, sb)
            if ctx.branch(y == 0):
                raise PyRaise('ZeroDivisionError', ExcInst('ZeroDivisionError'))
            return mk_int(py_floordiv(x, y) if op == 'FloorDiv' else py_mod(x, y))
        if op == 'Pow':
            if as_real:
                ctx.flags.add('real_arith')
                x, y = real_term(ctx, sa), real_term(ctx, sb)
                cy = z3.simplify(y)
                if z3.is_rational_value(cy) and cy.denominator_as_long() == 1 and 0 <= cy.numerator_as_long() <= 8:
                    r = z3.RealVal(1)
                    for _ in range(cy.numerator_as_long()):
                        r = r * x
                    return mk_float(r)
                ctx.flags.add('uninterpreted_pow')
                ctx.axiom(z3.Implies(x > 0, rpow(x, y) > 0))      # a positive base has a positive power
                return mk_float(rpow(x, y))
            x, y = int_term(ctx, sa), int_term(ctx, sb)
            cy = z3.simplify(y)
            if z3.is_int_value(cy) and 0 <= cy.as_long() <= 8:
                r = z3.IntVal(1)
                for _ in range(cy.as_long()):
                    r = r * x
                return mk_int(r)
            if ctx.branch(y < 0):
                # int ** negative int -> float (ZeroDivisionError for 0)
                if ctx.branch(x == 0):
                    raise PyRaise('ZeroDivisionError', ExcInst('ZeroDivisionError'))
                ctx.flags.add('uninterpreted_pow')
                ctx.axiom(z3.Implies(x > 0, rpow(z3.ToReal(x), z3.ToReal(y)) > 0))
                return mk_float(rpow(z3.ToReal(x), z3.ToReal(y)))
            ctx.flags.add('uninterpreted_pow')
            ctx.axiom(z3.Implies(x > 0, ipow(x, y) > 0))
            ctx.axiom(z3.Implies(y == 0, ipow(x, y) == 1))
            return mk_int(ipow(x, y))
        if op in ('BitAnd',) and not as_real:
            x, y = int_term(ctx, sa), int_term(ctx, sb)
            cy = z3.simplify(y)
            if z3.is_int_value(cy) and cy.as_long() == 1:
                return mk_int(x % 2)    # x & 1 == x mod 2 (python & on negative ints is two's complement: parity)
            raise OutOfReach('bitwise and')
        if as_real and op in ('BitAnd', 'BitOr', 'BitXor', 'LShift', 'RShift'):
            raise PyRaise('TypeError', ExcInst('TypeError'))
        raise OutOfReach('numeric operator %s' % op)

    def date_arith(self, it, op, a, b):
        ctx = it.ctx

        def us_of_date(x):
            if isinstance(x, datetime.datetime):
                return z3.RealVal(date_to_us(x))
            if isinstance(x, Sym) and x.kind == DATE:
                return x.pay(DATE)
            return None

        def us_of_delta(x):
            if isinstance(x, datetime.timedelta):
                return z3.RealVal((x.days * 86400 + x.seconds) * 10**6 + x.microseconds)
            if isinstance(x, TDelta):
                return x.us
            return None
        if isinstance(a, Sym) and a.kind is None:
            ctx.narrow(a)
        if isinstance(b, Sym) and b.kind is None:
            ctx.narrow(b)
        da, db = us_of_date(a), us_of_date(b)
        ta, tb = us_of_delta(a), us_of_delta(b)
        ctx.flags.add('date_real_us')
        if op == 'Sub' and da is not None and db is not None:
            return TDelta(da - db)
        if op == 'Add' and da is not None and tb is not None:
            return self.mk_date_checked(it, da + tb)
        if op == 'Add' and ta is not None and db is not None:
            return self.mk_date_checked(it, ta + db)
        if op == 'Sub' and da is not None and tb is not None:
            return self.mk_date_checked(it, da - tb)
        if op in ('Add', 'Sub') and ta is not None and tb is not None:
            return TDelta(ta + tb if op == 'Add' else ta - tb)
        if da is not None or db is not None or ta is not None or tb is not None:
            # datetime with number, str ...: TypeError in CPython
            other = b if (da is not None or ta is not None) else a
            if isinstance(other, Sym) or plain(other) or isinstance(other, Err):
                raise PyRaise('TypeError', ExcInst('TypeError'))
        raise OutOfReach('date arithmetic %s' % op)

    MAX_US = date_to_us(datetime.datetime(9999, 12, 31, 23, 59, 59, 999999))

    def mk_date_checked(self, it, us):
        if it.ctx.branch(z3.Or(us < 0, us > z3.RealVal(self.MAX_US))):
            raise PyRaise('OverflowError', ExcInst('OverflowError'))
        return mk_date(us)

    def obj_binop(self, it, op, a, b):
        if op not in DUNDER:
            raise OutOfReach('operator %s on object' % op)
        fwd, rev = DUNDER[op]
        if isinstance(a, Obj) and isinstance(a.cls, ClassRef):
            m = a.cls.find_method(fwd)
            if m is not None:
                return it.call(m, [a, b])
        if isinstance(b, Obj) and isinstance(b.cls, ClassRef):
            m = b.cls.find_method(rev)
            if m is not None:
                return it.call(m, [b, a])
        raise PyRaise('TypeError', ExcInst('TypeError'))

    # ------------------------------------------------------------------ comparison
    def compare(self, it, op, a, b):
        ctx = it.ctx
        if op in ('Is', 'IsNot'):
            r = self.identical(it, a, b)
            return r if op == 'Is' else (not r)
        if op in ('In', 'NotIn'):
            r = self.contains(it, b, a)
            return r if op == 'In' else (not r)
        if isinstance(a, Obj) or isinstance(b, Obj):
            return self.obj_compare(it, op, a, b)
        if isinstance(a, (TypeRef, FuncRef, Closure, HostFn, Builtin, ClassRef, ExcClass)) or \
           isinstance(b, (TypeRef, FuncRef, Closure, HostFn, Builtin, ClassRef, ExcClass)):
            if op == 'Eq':
                return self.callable_eq(it, a, b)
            if op == 'NotEq':
                return not self.callable_eq(it, a, b)
            raise PyRaise('TypeError', ExcInst('TypeError'))
        if isinstance(a, tuple) and isinstance(b, tuple) and all(isinstance(x, TypeRef) for x in a + b):
            return native(PY_CMP[op], a, b)
        if nativeish(a) and nativeish(b):
            if isinstance(a, Err) or isinstance(b, Err):
                if op == 'Eq':
                    return a is b
                if op == 'NotEq':
                    return a is not b
                raise PyRaise('TypeError', ExcInst('TypeError'))
            return native(PY_CMP[op], a, b)
        if isinstance(a, TDelta) or isinstance(b, TDelta):
            raise OutOfReach('timedelta comparison')
        try:
            sa, sb = as_sym(a), as_sym(b)
        except Unliftable as u:
            raise OutOfReach(str(u))
        if op in ('Eq', 'NotEq'):
            if (LIST in sa.kinds and LIST in sb.kinds):
                # element-wise python equality on lists is only structural in the model
                ctx.flags.add('list_eq_structural')
            if OBJ in sa.kinds or OBJ in sb.kinds:
                # host objects may define __eq__: unknown
                if OBJ in sa.kinds:
                    if ctx.test_kinds(sa, (OBJ,)):
                        raise OutOfReach('== on host object')
                if OBJ in sb.kinds:
                    if ctx.test_kinds(sb, (OBJ,)):
                        raise OutOfReach('== on host object')
            t = py_eq_term(sa.val, sb.val)
            r = ctx.branch(t)
            return r if op == 'Eq' else (not r)
        ka, kb = ctx.narrow(sa), ctx.narrow(sb)
        if ka in NUMERIC and kb in NUMERIC:
            if ka == FLOAT or kb == FLOAT:
                x, y = real_term(ctx, sa), real_term(ctx, sb)
            else:
                x, y = int_term(ctx, sa), int_term(ctx, sb)
        elif ka == STR and kb == STR:
            x, y = sa.pay(STR), sb.pay(STR)
            t = {'Lt': x < y, 'LtE': x <= y, 'Gt': y < x, 'GtE': y <= x}[op]
            return ctx.branch(t)
        elif ka == DATE and kb == DATE:
            x, y = sa.pay(DATE), sb.pay(DATE)
        elif ka == LIST and kb == LIST:
            raise OutOfReach('ordering of lists')
        elif ka == OBJ or kb == OBJ:
            raise OutOfReach('ordering with host object')
        else:
            raise PyRaise('TypeError', ExcInst('TypeError'))
        t = {'Lt': x < y, 'LtE': x <= y, 'Gt': x > y, 'GtE': x >= y}[op]
        return ctx.branch(t)

    def callable_eq(self, it, a, b):
        if isinstance(a, Sym) or isinstance(b, Sym):
            s = a if isinstance(a, Sym) else b
            o = b if isinstance(a, Sym) else a
            if isinstance(o, HostFn) and o.sym is not None:
                return it.ctx.branch(s.val == o.sym.val)
            if it.ctx.test_kinds(s, (OBJ,)):
                if isinstance(o, HostFn):
                    raise OutOfReach('== between host callables')
                return False     # a Closure/FuncRef created by the code under verification is not a host object
            return False
        if isinstance(a, HostFn) and isinstance(b, HostFn):
            if a.sym is not None and b.sym is not None:
                # == between host callables is host code: the same object is equal to itself, and two different objects may be equal as
                # well (two bound-method objects of one method).  An uninterpreted symmetric relation on top of identity.
                heq = z3.Function('host_eq', Val, Val, z3.BoolSort())
                x, y = a.sym.val, b.sym.val
                it.ctx.axiom(heq(x, y) == heq(y, x))
                it.ctx.flags.add('host callables: == is identity or a host-defined equality (uninterpreted)')
                return it.ctx.branch(z3.Or(x == y, heq(x, y)))
            return a is b
        return a is b

    def obj_compare(self, it, op, a, b):
        fwd, rev = CMP_DUNDER[op]
        if isinstance(a, Obj) and isinstance(a.cls, ClassRef):
            m = a.cls.find_method(fwd)
            if m is not None:
                return it.call(m, [a, b])
            if op == 'NotEq':
                m = a.cls.find_method('__eq__')
                if m is not None:
                    r = it.call(m, [a, b])
                    return not self.truth(it, r)
        if isinstance(b, Obj) and isinstance(b.cls, ClassRef):
            m = b.cls.find_method(rev)
            if m is not None:
                return it.call(m, [b, a])
            if op == 'NotEq':
                m = b.cls.find_method('__eq__')
                if m is not None:
                    r = it.call(m, [b, a])
                    return not self.truth(it, r)
        if isinstance(a, Obj) and isinstance(a.cls, NamedTupleClass) and isinstance(b, Obj) and isinstance(b.cls, NamedTupleClass):
            raise OutOfReach('namedtuple comparison')
        if op == 'Eq':
            return a is b
        if op == 'NotEq':
            return a is not b
        raise PyRaise('TypeError', ExcInst('TypeError'))

    def identical(self, it, a, b):
        """ `is` : exact for None/True/False/singletons and heap objects; values otherwise out of reach """
        ctx = it.ctx
        from . import api as _api
        if a is _api.OMITTED or b is _api.OMITTED:
            return a is b
        for x, y in ((a, b), (b, a)):
            if y is None or isinstance(y, bool) or isinstance(y, Err):
                if isinstance(x, Sym):
                    if y is None:
                        return ctx.test_kinds(x, (NONE,))
                    if isinstance(y, bool):
                        if not ctx.test_kinds(x, (BOOL,)):
                            return False
                        return ctx.branch(x.pay(BOOL) == z3.BoolVal(y))
                    if isinstance(y, Err):
                        if not ctx.test_kinds(x, (ERR,)):
                            return False
                        return ctx.branch(x.pay(ERR) == y.code)
                if x is None or isinstance(x, (bool, Err)):
                    return x is y
                return False
        if isinstance(a, (Closure, FuncRef, Obj, Builtin, TypeRef, ClassRef, HostFn)) or \
           isinstance(b, (Closure, FuncRef, Obj, Builtin, TypeRef, ClassRef, HostFn)):
            if isinstance(a, Sym) or isinstance(b, Sym):
                s = a if isinstance(a, Sym) else b
                o = b if isinstance(a, Sym) else a
                if isinstance(o, HostFn) and o.sym is not None:
                    return ctx.branch(s.val == o.sym.val)
                # an object created by the code under verification (closure, sentinel) is never a host value
                if isinstance(o, (Closure, FuncRef, Obj, Builtin)):
                    return False
                raise OutOfReach('identity against %r' % (o,))
            if isinstance(a, HostFn) and isinstance(b, HostFn) and a.sym is not None and b.sym is not None:
                return ctx.branch(a.sym.val == b.sym.val)      # two host callables are the same object iff their values are
            return a is b
        raise OutOfReach('`is` on values (%r, %r)' % (type(a).__name__, type(b).__name__))

    def contains(self, it, container, item):
        ctx = it.ctx
        if isinstance(container, dict):
            if isinstance(item, Sym):
                for k in container:
                    if self.truth(it, self.compare(it, 'Eq', item, k)):
                        return True
                return False
            try:
                return item in container
            except TypeError:
                raise PyRaise('TypeError', ExcInst('TypeError'))
        if isinstance(container, SymMapView):
            return container.contains(it, item)
        if isinstance(container, (list, tuple)):
            for x in container:
                r = self.compare(it, 'Eq', item, x)
                if self.truth(it, r):
                    return True
            return False
        if isinstance(container, str) and isinstance(item, str):
            return item in container
        if isinstance(container, (str, Sym)) and isinstance(item, (str, Sym)):
            sc, si = as_sym(container), as_sym(item)
            kc = ctx.narrow(sc)
            if kc == STR:
                ki = ctx.narrow(si)
                if ki != STR:
                    raise PyRaise('TypeError', ExcInst('TypeError'))
                return ctx.branch(z3.Contains(sc.pay(STR), si.pay(STR)))
            if kc == LIST:
                raise OutOfReach('membership in symbolic list')
            raise PyRaise('TypeError', ExcInst('TypeError'))
        raise OutOfReach('membership in %r' % (type(container).__name__,))

    # ------------------------------------------------------------------ attribute access
    def getattr(self, it, base, name):
        if type(base).__name__ == 'CompiledRegex':
            return Builtin('regex.' + name, lambda it2, a, k, _b=base, _n=name: self.world.builtins.regex_method(it2, _b, _n, a, k))
        if isinstance(base, Prod):
            if name == 'slice':
                return [SliceSym(n) for n in base.names]
            raise OutOfReach('production attribute %s' % name)
        if isinstance(base, ModRef):
            return self.world.module_attr(it, base.module, name)
        if isinstance(base, ExtRef):
            return self.world.builtins.ext_attr(it, base, name)
        if isinstance(base, Obj):
            if name in base.attrs:
                return base.attrs[name]
            if isinstance(base.cls, ClassRef):
                m = base.cls.find_method(name)
                if m is not None:
                    decos = [d.id for d in getattr(m.node, 'decorator_list', ()) if isinstance(d, ast.Name)]
                    if 'staticmethod' in decos:
                        return m                                   # no instance is bound
                    if 'classmethod' in decos:
                        return BoundMethod(base.cls, m)
                    if 'property' in decos:
                        return it.call(m, [base])
                    return BoundMethod(base, m)
                v = self.world.class_attr(it, base.cls, name)
                if v is not NotImplemented:
                    return v
            if isinstance(base.cls, NamedTupleClass):
                raise PyRaise('AttributeError', ExcInst('AttributeError'))
            if getattr(base, 'from_domain', False) and isinstance(base.cls, ClassRef) and self.world.class_assigns_attr(base.cls, name):
                # an instance attribute the real object has (some method of the class assigns it) but the contract's object model does
                # not describe: its value is unknown here, which is not the same as "no such attribute"
                raise OutOfReach('attribute %s of %s is not part of the object model of this contract' % (name, base.cls.name))
            raise PyRaise('AttributeError', ExcInst('AttributeError'))
        if isinstance(base, ClassRef):
            m = base.find_method(name)
            if m is not None:
                return m
            v = self.world.class_attr(it, base, name)
            if v is not NotImplemented:
                return v
            raise PyRaise('AttributeError', ExcInst('AttributeError'))
        if isinstance(base, Closure):
            if name in base.attrs:
                return base.attrs[name]
            raise PyRaise('AttributeError', ExcInst('AttributeError'))
        if isinstance(base, SymMapView):
            return Builtin('map.' + name, lambda it2, a, k, _b=base, _n=name: _b.method(it2, _n, a, k))
        if isinstance(base, (str, list, tuple, dict, Sym, datetime.datetime, datetime.timedelta, TDelta, ExcInst, Err)) or base is None \
                or isinstance(base, (int, float)):
            return self.world.builtins.value_attr(it, base, name)
        if isinstance(base, TypeRef):
            return self.world.builtins.type_attr(it, base, name)
        if isinstance(base, HostFn):
            if name == '_':
                # same assumption as hasattr: only the emitter's own one-time wrappers carry `_`
                it.ctx.flags.add('assume_host_callables_have_no_underscore_attr')
                raise PyRaise('AttributeError', ExcInst('AttributeError'))
            raise OutOfReach('attribute %s of host callable' % name)
        raise OutOfReach('attribute %s of %r' % (name, base))

    def setattr(self, it, base, name, v):
        if isinstance(base, Obj):
            self.world.note_write(it, base, name)
            base.attrs[name] = v
            return
        if isinstance(base, Closure):
            base.attrs[name] = v
            return
        raise OutOfReach('attribute store on %r' % (base,))

    def hasattr(self, it, base, name):
        if isinstance(base, Closure):
            return name in base.attrs
        if isinstance(base, Obj):
            return name in base.attrs or (isinstance(base.cls, ClassRef) and base.cls.find_method(name) is not None)
        if isinstance(base, HostFn) or isinstance(base, Sym):
            if name == '_':
                # a host callable could carry any attribute; the emitter only sets `_` on its own wrappers.
                it.ctx.flags.add('assume_host_callables_have_no_underscore_attr')
                return False
            raise OutOfReach('hasattr on host value')
        if isinstance(base, (FuncRef, Builtin)):
            return False
        raise OutOfReach('hasattr on %r' % (base,))

    # ------------------------------------------------------------------ subscripts
    def getitem(self, it, base, idx):
        ctx = it.ctx
        if isinstance(base, Prod):
            if not is_plain_index(idx):
                raise OutOfReach('symbolic index into a production')
            n = len(base.vals)
            if -n <= idx < n:
                return base.vals[idx]
            raise PyRaise('IndexError', ExcInst('IndexError'))
        if isinstance(base, dict):
            if isinstance(idx, Sym):
                for k in base:
                    if self.truth(it, self.compare(it, 'Eq', idx, k)):
                        return base[k]
                raise PyRaise('KeyError', ExcInst('KeyError'))
            try:
                if idx in base:
                    return base[idx]
            except TypeError:
                raise PyRaise('TypeError', ExcInst('TypeError'))
            if isinstance(base, DDict):
                self.world.note_write(it, base, idx)
                base[idx] = []
                return base[idx]
            raise PyRaise('KeyError', ExcInst('KeyError'))
        if isinstance(base, SymMapView):
            return base.getitem(it, idx)
        if isinstance(base, Obj):
            if isinstance(base.cls, NamedTupleClass):
                if isinstance(idx, int) and not isinstance(idx, bool):
                    n = len(base.cls.fields)
                    if -n <= idx < n:
                        return base.attrs[base.cls.fields[idx]]
                    raise PyRaise('IndexError', ExcInst('IndexError'))
                raise OutOfReach('namedtuple symbolic index')
            if isinstance(base.cls, ClassRef):
                m = base.cls.find_method('__getitem__')
                if m is not None:
                    return it.call(m, [base, idx])
            raise PyRaise('TypeError', ExcInst('TypeError'))
        if isinstance(base, (list, tuple, str)) and isinstance(idx, int) and is_plain_index(idx):
            n = len(base)
            if -n <= idx < n:
                return base[idx]
            raise PyRaise('IndexError', ExcInst('IndexError'))
        if isinstance(base, (list, tuple)) and isinstance(idx, Sym):
            k = ctx.narrow(idx)
            if k not in (INT, BOOL):
                raise PyRaise('TypeError', ExcInst('TypeError'))
            i = int_term(ctx, idx)
            n = len(base)
            # fork over the concrete positions
            conds = [z3.Or(i == j, i == j - n) for j in range(n)] + [z3.Or(i >= n, i < -n)]
            c = ctx.choose(conds)
            if c == n:
                raise PyRaise('IndexError', ExcInst('IndexError'))
            return base[c]
        if base is None or isinstance(base, (bool, int, float, Err)):
            raise PyRaise('TypeError', ExcInst('TypeError'))
        if isinstance(base, (Sym, str)):
            sb = as_sym(base)
            kb = ctx.narrow(sb)
            if kb not in (STR, LIST):
                if kb == OBJ:
                    raise OutOfReach('subscript of host object')
                raise PyRaise('TypeError', ExcInst('TypeError'))
            si = as_sym(idx) if (isinstance(idx, Sym) or plain(idx)) else None
            if si is None:
                raise OutOfReach('index %r' % (idx,))
            ki = ctx.narrow(si)
            if ki not in (INT, BOOL):
                raise PyRaise('TypeError', ExcInst('TypeError'))
            i = int_term(ctx, si)
            if kb == STR:
                s = sb.pay(STR)
                n = z3.Length(s)
                if ctx.branch(z3.Or(i >= n, i < -n)):
                    raise PyRaise('IndexError', ExcInst('IndexError'))
                return mk_str(z3.SubString(s, norm_index(i, n), 1))
            s = sb.pay(LIST)
            n = z3.Length(s)
            if ctx.branch(z3.Or(i >= n, i < -n)):
                raise PyRaise('IndexError', ExcInst('IndexError'))
            el = Sym(z3.simplify(s[norm_index(i, n)]), self.world.elem_kinds(sb))
            return el
        raise OutOfReach('subscript of %r' % (type(base).__name__,))

    def getslice(self, it, base, lo, hi, step):
        ctx = it.ctx
        if step is not None and not (isinstance(step, int) and not isinstance(step, bool)):
            raise OutOfReach('symbolic slice step')
        if isinstance(base, (list, tuple, str)) and all(x is None or is_plain_index(x) for x in (lo, hi)):
            return base[lo:hi:step]
        if step not in (None, 1):
            raise OutOfReach('slice step %r with symbolic operands' % (step,))
        if isinstance(base, (list, tuple)) and not isinstance(base, Sym):
            try:
                base = mk_list(ACC[LIST][0](to_val(base)), isinstance(base, tuple))
                base = Sym(z3.simplify(base.val), (LIST,), base.is_tuple)
            except Unliftable as u:
                raise OutOfReach('slice of concrete list with symbolic bounds: %s' % u)
        if base is None or isinstance(base, (bool, int, float, Err)):
            raise PyRaise('TypeError', ExcInst('TypeError'))
        if not isinstance(base, (Sym, str)):
            raise OutOfReach('slice of %r' % (type(base).__name__,))
        sb = as_sym(base)
        kb = ctx.narrow(sb)
        if kb not in (STR, LIST):
            if kb == OBJ:
                raise OutOfReach('slice of host object')
            raise PyRaise('TypeError', ExcInst('TypeError'))
        bounds = []
        for x in (lo, hi):
            if x is None:
                bounds.append(None)
                continue
            sx = as_sym(x)
            kx = ctx.narrow(sx)
            if kx == NONE:
                bounds.append(None)
                continue
            if kx not in (INT, BOOL):
                raise PyRaise('TypeError', ExcInst('TypeError'))
            bounds.append(int_term(ctx, sx))
        if kb == STR:
            s = sb.pay(STR)
            st, ln = slice_bounds(bounds[0], bounds[1], z3.Length(s))
            return mk_str(z3.simplify(z3.SubString(s, st, ln)))
        s = sb.pay(LIST)
        st, ln = slice_bounds(bounds[0], bounds[1], z3.Length(s))
        r = mk_list(z3.simplify(z3.SubSeq(s, st, ln)), sb.is_tuple)
        self.world.copy_elem_kinds(sb, r)
        return r

    def setitem(self, it, base, idx, v):
        if isinstance(base, Prod):
            if not is_plain_index(idx) or not (0 <= idx < len(base.vals)):
                raise OutOfReach('store into a production at %r' % (idx,))
            base.vals[idx] = v
            return
        if isinstance(base, dict):
            if isinstance(idx, Sym):
                raise OutOfReach('dict store with symbolic key')
            self.world.note_write(it, base, idx)
            base[idx] = v
            return
        if isinstance(base, SymMapView):
            return base.setitem(it, idx, v)
        if isinstance(base, list) and is_plain_index(idx):
            n = len(base)
            if -n <= idx < n:
                self.world.note_write(it, base, idx)
                base[idx] = v
                return
            raise PyRaise('IndexError', ExcInst('IndexError'))
        raise OutOfReach('item store on %r' % (type(base).__name__,))

    def delitem(self, it, base, idx):
        if isinstance(base, SymMapView):
            return base.delitem(it, idx)
        if isinstance(base, dict) and not isinstance(idx, Sym):
            if idx in base:
                self.world.note_write(it, base, idx)
                del base[idx]
                return
            raise PyRaise('KeyError', ExcInst('KeyError'))
        raise OutOfReach('del on %r' % (type(base).__name__,))

    def unpack(self, it, v, n):
        if isinstance(v, (list, tuple)):
            if len(v) != n:
                raise PyRaise('ValueError', ExcInst('ValueError'))
            return list(v)
        if isinstance(v, Obj) and isinstance(v.cls, NamedTupleClass):
            if len(v.cls.fields) != n:
                raise PyRaise('ValueError', ExcInst('ValueError'))
            return [v.attrs[f] for f in v.cls.fields]
        if isinstance(v, Obj) and isinstance(v.cls, ClassRef) and v.cls.find_method('__getitem__') is not None:
            # sequence protocol through __getitem__ until IndexError
            out = []
            i = 0
            while True:
                try:
                    out.append(it.call(v.cls.find_method('__getitem__'), [v, i]))
                except PyRaise as pr:
                    if pr.cls == 'IndexError':
                        break
                    raise
                i += 1
                if i > n + 1:
                    break
            if len(out) != n:
                raise PyRaise('ValueError', ExcInst('ValueError'))
            return out
        if isinstance(v, Sym):
            k = it.ctx.narrow(v)
            if k == LIST:
                s = v.pay(LIST)
                if not it.ctx.branch(z3.Length(s) == n):
                    raise PyRaise('ValueError', ExcInst('ValueError'))
                ek = self.world.elem_kinds(v)
                return [Sym(z3.simplify(s[j]), ek) for j in range(n)]
            if k == STR:
                raise OutOfReach('unpack string')
            raise PyRaise('TypeError', ExcInst('TypeError'))
        if v is None or plain(v) or isinstance(v, Err):
            raise PyRaise('TypeError', ExcInst('TypeError'))
        raise OutOfReach('unpack of %r' % (v,))


def is_plain_index(x):
    return isinstance(x, int) and not isinstance(x, bool)


class SymMapView(object):
    """ a per-instance dict modelled as z3 arrays: key(String) -> Val, plus presence. Keys must be strings.
        `default_list` makes it a defaultdict(list): reading a missing key inserts an empty list. """
    def __init__(self, name, vals, has, default_list=False, owner=None):
        self.name = name
        self.vals = vals
        self.has = has
        self.default_list = default_list
        self.owner = owner
        self.val_kinds = ALL_KINDS

    def key_term(self, it, key):
        if isinstance(key, str):
            return z3.StringVal(key)
        if isinstance(key, Sym):
            k = it.ctx.narrow(key)
            if k == STR:
                return key.pay(STR)
        raise OutOfReach('map key %r' % (key,))

    def contains(self, it, key):
        kt = self.key_term(it, key)
        return it.ctx.branch(z3.Select(self.has, kt))

    def getitem(self, it, key):
        kt = self.key_term(it, key)
        if it.ctx.branch(z3.Select(self.has, kt)):
            return Sym(z3.simplify(z3.Select(self.vals, kt)), self.val_kinds)
        if self.default_list:
            it.world.note_write(it, self, key)
            self.vals = z3.Store(self.vals, kt, CON[LIST](z3.Empty(SeqVal)))
            self.has = z3.Store(self.has, kt, z3.BoolVal(True))
            return mk_list(z3.Empty(SeqVal))
        raise PyRaise('KeyError', ExcInst('KeyError'))

    def setitem(self, it, key, v):
        kt = self.key_term(it, key)
        it.world.note_write(it, self, key)
        try:
            vt = to_val(v) if not isinstance(v, HostFn) else v.sym.val
        except Unliftable as u:
            raise OutOfReach('map store: %s' % u)
        self.vals = z3.Store(self.vals, kt, vt)
        self.has = z3.Store(self.has, kt, z3.BoolVal(True))

    def delitem(self, it, key):
        kt = self.key_term(it, key)
        if not it.ctx.branch(z3.Select(self.has, kt)):
            raise PyRaise('KeyError', ExcInst('KeyError'))
        it.world.note_write(it, self, key)
        self.has = z3.Store(self.has, kt, z3.BoolVal(False))

    def method(self, it, name, args, kwargs):
        if name == 'get':
            kt = self.key_term(it, args[0])
            if it.ctx.branch(z3.Select(self.has, kt)):
                return Sym(z3.simplify(z3.Select(self.vals, kt)), self.val_kinds)
            return args[1] if len(args) > 1 else None
        raise OutOfReach('map method %s' % name)
