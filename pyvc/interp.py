# -*- coding: utf-8 -*-
"""
pyvc.interp -- symbolic executor for the Python subset hotxlfp is written in.

One *run* executes a function body (read from the real source with ast) along one path; forks are
decided by a decision prefix and the explorer re-executes until every feasible path has been seen
(DFS by re-execution).  Values are concrete Python objects wherever possible and `Sym` (a z3 Val
term plus the set of kinds still possible) otherwise.  Anything outside the modelled subset raises
OutOfReach: the engine refuses the function, it never guesses a meaning (DESIGN E8).
"""
import ast
import z3
import datetime
import operator as _op

from .vals import *   # noqa
from . import vals as V


class OutOfReach(Exception):
    pass


class Infeasible(Exception):
    pass


class PathEnd(Exception):
    """ the path ends here on purpose (e.g. after checking that a loop body re-establishes its invariant) """
    pass


class PyRaise(Exception):
    """ an exception raised by the interpreted program """
    def __init__(self, cls, value=None, msg=None):
        Exception.__init__(self, cls)
        self.cls = cls          # class name
        self.value = value      # for XLError: the error value (Err or Sym of kind err); else ExcInst
        self.msg = msg


class _Return(Exception):
    def __init__(self, value):
        self.value = value


class _Break(Exception):
    pass


class _Continue(Exception):
    pass


EXC_PARENT = {
    'XLError': 'RuntimeError', 'RuntimeError': 'Exception', 'ValueError': 'Exception', 'TypeError': 'Exception',
    'ZeroDivisionError': 'ArithmeticError', 'OverflowError': 'ArithmeticError', 'ArithmeticError': 'Exception',
    'IndexError': 'LookupError', 'KeyError': 'LookupError', 'LookupError': 'Exception',
    'AttributeError': 'Exception', 'StopIteration': 'Exception', 'SyntaxError': 'Exception',
    'StatisticsError': 'ValueError', 'OtherException': 'Exception', 'Exception': 'BaseException',
    'EOFError': 'Exception', 'NameError': 'Exception', 'RecursionError': 'RuntimeError',
}


def exc_isinstance(cls, target):
    while cls is not None:
        if cls == target:
            return True
        cls = EXC_PARENT.get(cls)
    return False


# ------------------------------------------------------------------------------------------------ values

class TypeRef(object):
    _cache = {}

    def __new__(cls, name):
        if name not in cls._cache:
            o = object.__new__(cls)
            o.name = name
            cls._cache[name] = o
        return cls._cache[name]

    def __repr__(self):
        return '<type %s>' % self.name


T_INT, T_FLOAT, T_BOOL, T_STR, T_LIST, T_TUPLE, T_NONE, T_COMPLEX, T_DATETIME, T_DATE, T_XLERROR, T_DICT, T_OBJECT = [
    TypeRef(n) for n in ('int', 'float', 'bool', 'str', 'list', 'tuple', 'NoneType', 'complex', 'datetime', 'date',
                         'XLError', 'dict', 'object')]

KIND_TYPE = {NONE: T_NONE, BOOL: T_BOOL, INT: T_INT, FLOAT: T_FLOAT, STR: T_STR, ERR: T_XLERROR, DATE: T_DATETIME,
             LIST: T_LIST}


class ExcClass(object):
    def __init__(self, name):
        self.name = name

    def __repr__(self):
        return '<exc %s>' % self.name


class ExcInst(object):
    def __init__(self, cls, args=()):
        self.cls = cls
        self.args = args

    def __repr__(self):
        return '%s(...)' % self.cls


class FuncRef(object):
    def __init__(self, module, qualname, node, cls=None, is_spec=False):
        self.module = module
        self.qualname = qualname
        self.node = node
        self.cls = cls
        self.is_spec = is_spec

    @property
    def fullname(self):
        return '%s:%s' % (self.module.name, self.qualname)

    def __repr__(self):
        return '<func %s>' % self.fullname


class ClassRef(object):
    def __init__(self, module, name, node):
        self.module = module
        self.name = name
        self.node = node
        self.methods = {}
        self.attrs = {}      # class-level assigned names -> ast expr
        self.bases = []

    @property
    def fullname(self):
        return '%s:%s' % (self.module.name, self.name)

    def find_method(self, name):
        if name in self.methods:
            return self.methods[name]
        for b in self.bases:
            if isinstance(b, ClassRef):
                m = b.find_method(name)
                if m is not None:
                    return m
        return None

    def __repr__(self):
        return '<class %s>' % self.fullname


class Obj(object):
    """ an instance of a repo class (or namedtuple) living on the interpreter heap """
    def __init__(self, cls, attrs=None):
        self.cls = cls
        self.attrs = attrs if attrs is not None else {}

    def __repr__(self):
        return '<%s %r>' % (getattr(self.cls, 'name', self.cls), self.attrs)


class NamedTupleClass(object):
    def __init__(self, name, fields):
        self.name = name
        self.fields = list(fields)

    def __repr__(self):
        return '<namedtuple %s>' % self.name


class BoundMethod(object):
    def __init__(self, obj, func):
        self.obj = obj
        self.func = func


class Closure(object):
    def __init__(self, node, frame, name=None):
        self.node = node
        self.frame = frame
        self.name = name or getattr(node, 'name', '<lambda>')
        self.attrs = {}

    def __repr__(self):
        return '<closure %s>' % self.name


class Builtin(object):
    def __init__(self, name, fn):
        self.name = name
        self.fn = fn

    def __repr__(self):
        return '<builtin %s>' % self.name


class ExtRef(object):
    """ reference into a non-repo module (math, re, datetime ...) """
    def __init__(self, dotted):
        self.dotted = dotted

    def __repr__(self):
        return '<ext %s>' % self.dotted


class ModRef(object):
    def __init__(self, module):
        self.module = module

    def __repr__(self):
        return '<module %s>' % self.module.name


class TDelta(object):
    """ a datetime.timedelta with symbolic (Real) microseconds """
    def __init__(self, us):
        self.us = us


class HostFn(object):
    """ a callable supplied by the host (custom function, listener): calling it is a havoc (see Interp.call_host) """
    def __init__(self, name, sym=None):
        self.name = name
        self.sym = sym


class Prod(object):
    """ a ply.yacc.YaccProduction as seen by a grammar action: p[0..n], len(p), p.slice[k] (str -> symbol name) """
    def __init__(self, names, vals):
        self.names = list(names)
        self.vals = list(vals)
        self.init_vals = list(vals)     # as handed to the action (for counterexamples)


class SliceSym(object):
    def __init__(self, name):
        self.name = name


class DDict(dict):
    """ collections.defaultdict(list) """
    pass


class Cell(object):
    """ mutable cell for closures """
    __slots__ = ('v',)

    def __init__(self, v=None):
        self.v = v


class Frame(object):
    def __init__(self, module, parent=None, func=None):
        self.module = module
        self.parent = parent
        self.func = func
        self.locals = {}

    def lookup(self, name):
        f = self
        while f is not None:
            if name in f.locals:
                return f.locals[name]
            f = f.parent
        raise KeyError(name)

    def has(self, name):
        f = self
        while f is not None:
            if name in f.locals:
                return True
            f = f.parent
        return False


# ------------------------------------------------------------------------------------------------ context

class Obligation(object):
    def __init__(self, kind, name, pc, goal, where=None, note=None):
        self.kind = kind
        self.name = name
        self.pc = list(pc)
        self.goal = goal
        self.where = where
        self.note = note


_QUANT_CACHE = {}


def has_quantifier(c):
    k = c.get_id()
    hit = _QUANT_CACHE.get(k)
    if hit is not None and hit[1].eq(c):
        return hit[0]
    sx = c.sexpr()
    r = '(forall ' in sx or '(exists ' in sx
    if len(_QUANT_CACHE) > 20000:
        _QUANT_CACHE.clear()
    _QUANT_CACHE[k] = (r, c)        # the term is kept: ids are unique among live terms only
    return r


class Ctx(object):
    FEAS_TIMEOUT_MS = 1000
    FEAS_TIMEOUT_QUANT_MS = 120

    def __init__(self, prefix=()):
        self.prefix = list(prefix)
        self.trace = []
        self.pc = []
        self.solver = z3.Solver()
        self.solver.set('timeout', self.FEAS_TIMEOUT_MS)
        self.unknown_streak = 0
        self.obligations = []
        self.flags = set()
        self.counter = 0
        self.inputs = []          # (name, value) symbolic inputs for counterexamples
        self.inputs_vals = []
        self.log = []             # ghost call log: (callee, args)
        self.depth = 0
        self.frozen = False       # True while evaluating merged sub expressions: forks forbidden -> handled by sub explorer
        self.notes = []
        self.memo = {}
        self.axioms = []          # facts about uninterpreted library functions: assumed, never part of a goal
        self._axiom_keys = set()
        self.kind_log = []        # (sym, previous kinds): narrowing is undone when a sub-exploration ends
        self.has_quant = False
        self.phase = 'body'       # 'pre' | 'body' | 'post'
        self.post_prunes = 0      # spec/post paths refuted by the feasibility solver (each is a discharged obligation)

    # -- decisions
    def choose(self, conds):
        """ conds: list of z3 Bool (or True) -- pick one option; returns its index """
        n = len(conds)
        pos = len(self.trace)
        if pos < len(self.prefix):
            c = self.prefix[pos]
        else:
            c = 0
        self.trace.append((c, n))
        cond = conds[c]
        if cond is not True:
            self.assume(cond, check=(pos >= len(self.prefix) - 1))
        return c

    def assume(self, cond, check=False):
        if cond is True:
            return
        if isinstance(cond, bool):
            if not cond:
                raise Infeasible()
            return
        cond = z3.simplify(cond)
        if z3.is_true(cond):
            return
        if z3.is_false(cond):
            raise Infeasible()
        self.pc.append(cond)
        self.solver.add(cond)
        if has_quantifier(cond):
            if not self.has_quant:
                # satisfiable quantified path conditions make z3 search for a model until the timeout; refutations are
                # fast: keep pruning but with a short budget (unknown = feasible, which is sound)
                self.has_quant = True
                self.solver.set('timeout', self.FEAS_TIMEOUT_QUANT_MS)
        if check:
            r = self.feasible()
            if r == z3.unsat:
                if self.phase == 'post':
                    self.post_prunes += 1
                raise Infeasible()

    def axiom(self, cond):
        """ an assumed fact about an uninterpreted (library) function.  Kept apart from the path condition so that
            sub-explorations can hand it to their parent and merged predicates do not contain it. """
        k = cond.sexpr()
        if k in self._axiom_keys:
            return
        self._axiom_keys.add(k)
        self.axioms.append(cond)
        self.solver.add(cond)
        if '(forall ' in k or '(exists ' in k:
            if not self.has_quant:
                self.has_quant = True
                self.solver.set('timeout', self.FEAS_TIMEOUT_QUANT_MS)

    def feasible(self):
        """ z3.unsat when the path condition is refuted; anything else counts as feasible (sound: more paths, never fewer).
            (A quantifier-free relaxation solver was tried as a first stage: sat answers over sequences are as slow as the
            quantified unknowns, no gain - measured on MAXIFS.) """
        return self.solver.check()

    def inherit(self, parent):
        """ a sub-exploration starts from the parent's path condition and library axioms """
        for c in parent.pc:
            self.solver.add(c)
        for c in parent.axioms:
            self.solver.add(c)
        self._axiom_keys = set(parent._axiom_keys)
        self.flags = parent.flags
        self.unknown_streak = parent.unknown_streak
        if parent.has_quant:
            self.has_quant = True
            self.solver.set('timeout', self.FEAS_TIMEOUT_QUANT_MS)

    def branch(self, cond):
        """ fork on a z3 Bool; returns python bool """
        if isinstance(cond, bool):
            return cond
        cond = z3.simplify(cond)
        if z3.is_true(cond):
            return True
        if z3.is_false(cond):
            return False
        # a condition already decided on this path is not forked again (terms are hash-consed: same id = same term)
        neg = z3.is_not(cond)
        key = cond.arg(0).get_id() if neg else cond.get_id()
        if key in self.memo:
            return (not self.memo[key][0]) if neg else self.memo[key][0]
        c = self.choose([cond, z3.Not(cond)])
        # the term is stored with the decision: AST ids are only unique among live terms
        self.memo[key] = ((c != 0) if neg else (c == 0), cond)
        return c == 0

    def fresh(self, sort, hint='v'):
        self.counter += 1
        return z3.Const('%s!%d' % (hint, self.counter), sort)

    def fresh_val(self, hint='v', kinds=ALL_KINDS):
        t = self.fresh(Val, hint)
        s = Sym(t, kinds)
        if frozenset(kinds) != ALL_KINDS:
            self.assume(is_kind(t, *sorted(kinds)))
        return s

    def narrow(self, s):
        """ make the kind of a Sym definite on this path (forks over the kinds still possible) """
        if s.kind is not None:
            return s.kind
        # constructor application?
        d = s.val.decl().name() if z3.is_app(s.val) else None
        for k in KINDS:
            if d == CON[k].name() and s.val.num_args() == CON[k].arity():
                s.kinds = frozenset((k,))
                return k
        ks = sorted(s.kinds, key=KINDS.index)
        c = self.choose([REC[k](s.val) for k in ks])
        self.kind_log.append((s, s.kinds))
        s.kinds = frozenset((ks[c],))
        return ks[c]

    def test_kinds(self, s, kinds):
        """ fork on `s has one of kinds`; narrows s.kinds on both sides; returns python bool """
        kinds = frozenset(kinds)
        inter = s.kinds & kinds
        if not inter:
            return False
        if s.kinds <= kinds:
            return True
        r = self.branch(is_kind(s.val, *sorted(inter)))
        self.kind_log.append((s, s.kinds))
        s.kinds = inter if r else (s.kinds - kinds)
        return r

    def undo_narrowing(self):
        for s, old in reversed(self.kind_log):
            s.kinds = old
        self.kind_log = []

    def oblige(self, kind, name, goal, where=None, note=None):
        self.obligations.append(Obligation(kind, name, list(self.axioms) + list(self.pc), goal, where, note))


# ------------------------------------------------------------------------------------------------ helpers

def is_concrete(v):
    if isinstance(v, Sym):
        return False
    if isinstance(v, (list, tuple)):
        return all(is_concrete(x) for x in v)
    if isinstance(v, (Obj, TDelta)):
        return False
    return True


def plain(v):
    """ True when v is a plain python scalar/list the host interpreter can operate on natively """
    if v is None or isinstance(v, (bool, int, float, str, datetime.datetime, datetime.timedelta)):
        return True
    if isinstance(v, (list, tuple)):
        return all(plain(x) for x in v)
    return False


def int_term(ctx, s):
    """ Int term of a Sym known to be bool or int """
    k = s.kind
    if k == INT:
        return s.pay(INT)
    if k == BOOL:
        return z3.If(s.pay(BOOL), z3.IntVal(1), z3.IntVal(0))
    raise OutOfReach('int_term of %s' % k)


def real_term(ctx, s):
    k = s.kind
    if k == FLOAT:
        return s.pay(FLOAT)
    return z3.ToReal(int_term(ctx, s))


def py_floordiv(a, b):
    """ python // on Int terms, b != 0 """
    q = a / b  # z3 int division (euclidean)
    r = a % b
    return z3.If(b > 0, q, z3.If(r == 0, q, q - 1))


def py_mod(a, b):
    r = a % b
    return z3.If(b > 0, r, z3.If(r == 0, r, r + b))


def real_floor(r):
    return z3.ToInt(r)


def real_ceil(r):
    f = z3.ToInt(r)
    return z3.If(z3.ToReal(f) == r, f, f + 1)


def real_trunc(r):
    return z3.If(r >= 0, z3.ToInt(r), -z3.ToInt(-r))


def norm_index(i, n):
    return z3.If(i < 0, i + n, i)


def slice_bounds(lo, hi, n):
    """ CPython slice normalisation (step 1) on Int terms (None -> python None) """
    if lo is None:
        lo2 = z3.IntVal(0)
    else:
        lo2 = z3.If(lo < 0, z3.If(lo + n < 0, z3.IntVal(0), lo + n), z3.If(lo > n, n, lo))
    if hi is None:
        hi2 = n
    else:
        hi2 = z3.If(hi < 0, z3.If(hi + n < 0, z3.IntVal(0), hi + n), z3.If(hi > n, n, hi))
    ln = z3.If(hi2 > lo2, hi2 - lo2, z3.IntVal(0))
    return lo2, ln


class Interp(object):
    """ evaluates function bodies; `world` resolves modules / contracts """

    MAX_DEPTH = 40

    def __init__(self, world, ctx):
        self.world = world
        self.ctx = ctx
        self.real_arith_used = False

    # ------------------------------------------------------------------ function calls
    def bind_args(self, node_args, args, kwargs, frame, defaults_frame):
        a = node_args
        params = [p.arg for p in a.args]
        n_def = len(a.defaults)
        args = list(args)
        kwargs = dict(kwargs or {})
        for i, p in enumerate(params):
            if i < len(args):
                frame.locals[p] = args[i]
            elif p in kwargs:
                frame.locals[p] = kwargs.pop(p)
            else:
                di = i - (len(params) - n_def)
                if di < 0:
                    raise PyRaise('TypeError', msg='missing argument %s' % p)
                frame.locals[p] = self.eval(a.defaults[di], defaults_frame)
        extra = args[len(params):]
        if a.vararg is not None:
            if len(extra) == 1 and isinstance(extra[0], _Star):
                frame.locals[a.vararg.arg] = extra[0].value
            else:
                frame.locals[a.vararg.arg] = tuple(extra)
        elif extra:
            raise PyRaise('TypeError', msg='too many arguments')
        for ko, kd in zip(a.kwonlyargs, a.kw_defaults):
            if ko.arg in kwargs:
                frame.locals[ko.arg] = kwargs.pop(ko.arg)
            elif kd is not None:
                frame.locals[ko.arg] = self.eval(kd, defaults_frame)
        if a.kwarg is not None:
            frame.locals[a.kwarg.arg] = kwargs
        elif kwargs:
            raise PyRaise('TypeError', msg='unexpected keyword %s' % list(kwargs))

    def run_function(self, node, module, args, kwargs=None, parent=None, func=None):
        """ execute a FunctionDef / Lambda body; returns the returned value (PyRaise propagates) """
        self.ctx.depth += 1
        if self.ctx.depth > self.MAX_DEPTH:
            raise OutOfReach('call depth')
        try:
            frame = Frame(module, parent=parent, func=func)
            self.bind_args(node.args, args, kwargs, frame, parent or Frame(module))
            if isinstance(node, ast.Lambda):
                return self.eval(node.body, frame)
            if _is_generator(node):
                raise OutOfReach('generator function %s' % getattr(node, 'name', '?'))
            try:
                self.exec_block(node.body, frame)
            except _Return as r:
                return r.value
            return None
        finally:
            self.ctx.depth -= 1

    def call(self, fn, args, kwargs=None, node=None):
        kwargs = kwargs or {}
        if isinstance(fn, Builtin):
            return fn.fn(self, args, kwargs)
        if isinstance(fn, Closure):
            return self.run_function(fn.node, fn.frame.module, args, kwargs, parent=fn.frame)
        if isinstance(fn, FuncRef):
            if fn.is_spec:
                if any(isinstance(d, ast.Name) and d.id == 'inductive' for d in getattr(fn.node, 'decorator_list', ())):
                    return self.world.call_inductive(self, fn, args, kwargs)
                return self.run_function(fn.node, fn.module, args, kwargs, func=fn)
            return self.world.call_by_contract(self, fn, args, kwargs)
        if isinstance(fn, BoundMethod):
            return self.call(fn.func, [fn.obj] + list(args), kwargs)
        if isinstance(fn, ClassRef):
            return self.world.instantiate(self, fn, args, kwargs)
        if isinstance(fn, NamedTupleClass):
            vals = list(args)
            o = Obj(fn, {})
            for i, f in enumerate(fn.fields):
                if i < len(vals):
                    o.attrs[f] = vals[i]
                elif f in kwargs:
                    o.attrs[f] = kwargs[f]
                else:
                    raise PyRaise('TypeError')
            return o
        if isinstance(fn, TypeRef):
            return self.world.builtins.call_type(self, fn, args, kwargs)
        if isinstance(fn, ExcClass):
            return ExcInst(fn.name, tuple(args))
        if isinstance(fn, ExtRef):
            return self.world.builtins.call_ext(self, fn, args, kwargs)
        if isinstance(fn, HostFn):
            return self.world.call_host(self, fn, args, kwargs)
        if isinstance(fn, Sym):
            return self.world.call_host(self, HostFn('host', fn), args, kwargs)
        if fn is None or plain(fn) or isinstance(fn, Err):
            raise PyRaise('TypeError', msg='not callable')
        raise OutOfReach('call of %r' % (fn,))

    # ------------------------------------------------------------------ statements
    def exec_block(self, stmts, frame):
        for s in stmts:
            self.exec_stmt(s, frame)

    def exec_stmt(self, s, frame):
        m = getattr(self, 'st_' + type(s).__name__, None)
        if m is None:
            raise OutOfReach('statement %s at line %s' % (type(s).__name__, getattr(s, 'lineno', '?')))
        return m(s, frame)

    def st_Expr(self, s, frame):
        if isinstance(s.value, ast.Constant):
            return      # docstring
        self.eval(s.value, frame)

    def st_Pass(self, s, frame):
        pass

    def st_Return(self, s, frame):
        raise _Return(self.eval(s.value, frame) if s.value is not None else None)

    def st_Break(self, s, frame):
        raise _Break()

    def st_Continue(self, s, frame):
        raise _Continue()

    def st_Assign(self, s, frame):
        v = self.eval(s.value, frame)
        for t in s.targets:
            self.assign(t, v, frame)

    def st_AugAssign(self, s, frame):
        cur = self.eval(_load(s.target), frame)
        v = self.eval(s.value, frame)
        if isinstance(cur, list) and isinstance(s.op, ast.Add):
            raise OutOfReach('in-place list +=')
        r = self.world.ops.binop(self, type(s.op).__name__, cur, v)
        self.assign(s.target, r, frame)

    def assign(self, t, v, frame):
        if isinstance(t, ast.Name):
            # closures: assignment is local unless declared nonlocal (not used in the repo)
            frame.locals[t.id] = v
        elif isinstance(t, (ast.Tuple, ast.List)):
            items = self.world.ops.unpack(self, v, len(t.elts))
            for e, x in zip(t.elts, items):
                self.assign(e, x, frame)
        elif isinstance(t, ast.Subscript):
            base = self.eval(t.value, frame)
            idx = self.eval(t.slice, frame)
            self.world.ops.setitem(self, base, idx, v)
        elif isinstance(t, ast.Attribute):
            base = self.eval(t.value, frame)
            self.world.ops.setattr(self, base, t.attr, v)
        else:
            raise OutOfReach('assignment target %s' % type(t).__name__)

    def st_Delete(self, s, frame):
        for t in s.targets:
            if isinstance(t, ast.Subscript):
                base = self.eval(t.value, frame)
                idx = self.eval(t.slice, frame)
                self.world.ops.delitem(self, base, idx)
            else:
                raise OutOfReach('del target')

    def st_If(self, s, frame):
        if self.truth(self.eval(s.test, frame)):
            self.exec_block(s.body, frame)
        else:
            self.exec_block(s.orelse, frame)

    def st_Raise(self, s, frame):
        if s.exc is None:
            raise OutOfReach('bare raise')
        e = self.eval(s.exc, frame)
        self.world.note_raise(self, s, e, frame)
        raise self.make_raise(e)

    def make_raise(self, e):
        if isinstance(e, Err):
            return PyRaise('XLError', e)
        if isinstance(e, Sym):
            k = self.ctx.narrow(e)
            if k == ERR:
                return PyRaise('XLError', e)
            return PyRaise('TypeError', msg='exceptions must derive from BaseException')
        if isinstance(e, ExcInst):
            return PyRaise(e.cls, e)
        if isinstance(e, ExcClass):
            return PyRaise(e.name, ExcInst(e.name))
        if isinstance(e, TypeRef) and e is T_XLERROR:
            raise OutOfReach('raise XLError class')
        if plain(e):
            return PyRaise('TypeError', msg='exceptions must derive from BaseException')
        raise OutOfReach('raise of %r' % (e,))

    def st_Try(self, s, frame):
        if s.finalbody:
            raise OutOfReach('try/finally')
        try:
            self.exec_block(s.body, frame)
        except PyRaise as pr:
            for h in s.handlers:
                if self.handler_matches(h, pr, frame):
                    if h.name:
                        frame.locals[h.name] = pr.value if pr.value is not None else ExcInst(pr.cls)
                    self.exec_block(h.body, frame)
                    return
            raise
        else:
            self.exec_block(s.orelse, frame)

    def handler_matches(self, h, pr, frame):
        if h.type is None:
            return True
        t = self.eval(h.type, frame)
        ts = t if isinstance(t, tuple) else (t,)
        for x in ts:
            name = x.name if isinstance(x, (ExcClass, TypeRef)) else None
            if name is None:
                raise OutOfReach('except clause type %r' % (x,))
            if pr.cls == 'AnyException':
                # an unknown Exception subclass (host call-out): caught by `except Exception` only
                if name in ('Exception', 'BaseException'):
                    return True
                if name == 'XLError':
                    continue     # call-outs fork 'raises an XLError' separately: AnyException stands for every other class
                # a specific class: the unknown exception may or may not be an instance of it - both are explored (the object keeps
                # its unknown class either way, so a later `except Exception` still catches it)
                if self.ctx.choose([True, True]) == 0:
                    return True
                continue
            if exc_isinstance(pr.cls, name):
                return True
        return False

    def st_FunctionDef(self, s, frame):
        frame.locals[s.name] = Closure(s, frame, s.name)

    def st_For(self, s, frame):
        if s.orelse:
            raise OutOfReach('for/else')
        self.world.loops.exec_for(self, s, frame)

    def st_While(self, s, frame):
        if s.orelse:
            raise OutOfReach('while/else')
        self.world.loops.exec_while(self, s, frame)

    def st_Assert(self, s, frame):
        if not self.truth(self.eval(s.test, frame)):
            raise PyRaise('AssertionError')

    def st_Global(self, s, frame):
        raise OutOfReach('global statement')

    def st_Import(self, s, frame):
        raise OutOfReach('import inside function')

    # ------------------------------------------------------------------ expressions
    def truth(self, v):
        return self.world.ops.truth(self, v)

    def eval(self, e, frame):
        m = getattr(self, 'ev_' + type(e).__name__, None)
        if m is None:
            raise OutOfReach('expression %s at line %s' % (type(e).__name__, getattr(e, 'lineno', '?')))
        return m(e, frame)

    def ev_Constant(self, e, frame):
        v = e.value
        if isinstance(v, (bytes, complex)) or v is Ellipsis:
            raise OutOfReach('constant %r' % (v,))
        return v

    def ev_Name(self, e, frame):
        try:
            return frame.lookup(e.id)
        except KeyError:
            pass
        return self.world.resolve_global(self, frame.module, e.id)

    def ev_Tuple(self, e, frame):
        out = []
        for x in e.elts:
            if isinstance(x, ast.Starred):
                raise OutOfReach('starred in tuple')
            out.append(self.eval(x, frame))
        return tuple(out)

    def ev_List(self, e, frame):
        out = []
        for x in e.elts:
            if isinstance(x, ast.Starred):
                raise OutOfReach('starred in list')
            out.append(self.eval(x, frame))
        return out

    def ev_Set(self, e, frame):
        # only constant sets used for membership tests
        return tuple(self.eval(x, frame) for x in e.elts)

    def ev_Dict(self, e, frame):
        d = {}
        for k, v in zip(e.keys, e.values):
            if k is None:
                raise OutOfReach('dict unpacking')
            kk = self.eval(k, frame)
            if isinstance(kk, Sym) or isinstance(kk, (list, dict)):
                raise OutOfReach('symbolic dict key')
            d[kk] = self.eval(v, frame)
        return d

    def ev_Lambda(self, e, frame):
        return Closure(e, frame, '<lambda>')

    def ev_IfExp(self, e, frame):
        if self.truth(self.eval(e.test, frame)):
            return self.eval(e.body, frame)
        return self.eval(e.orelse, frame)

    def ev_BoolOp(self, e, frame):
        is_and = isinstance(e.op, ast.And)
        v = None
        for i, x in enumerate(e.values):
            v = self.eval(x, frame)
            if i == len(e.values) - 1:
                return v
            t = self.truth(v)
            if is_and and not t:
                return v
            if (not is_and) and t:
                return v
        return v

    def ev_UnaryOp(self, e, frame):
        v = self.eval(e.operand, frame)
        return self.world.ops.unop(self, type(e.op).__name__, v)

    def ev_BinOp(self, e, frame):
        a = self.eval(e.left, frame)
        b = self.eval(e.right, frame)
        return self.world.ops.binop(self, type(e.op).__name__, a, b)

    def ev_Compare(self, e, frame):
        left = self.eval(e.left, frame)
        result = True
        for op, rnode in zip(e.ops, e.comparators):
            right = self.eval(rnode, frame)
            r = self.world.ops.compare(self, type(op).__name__, left, right)
            if len(e.ops) == 1:
                return r
            if not self.truth(r):
                return r
            result = r
            left = right
        return result

    def ev_Call(self, e, frame):
        fn = self.eval(e.func, frame)
        args = []
        for a in e.args:
            if isinstance(a, ast.Starred):
                v = self.eval(a.value, frame)
                if isinstance(v, (list, tuple)):
                    args.extend(v)
                elif isinstance(v, Sym):
                    if args or len(e.args) != 1:
                        args.append(_Star(v))
                    else:
                        args.append(_Star(v))
                else:
                    raise OutOfReach('star-args of %r' % (v,))
            else:
                args.append(self.eval(a, frame))
        kwargs = {}
        for k in e.keywords:
            if k.arg is None:
                v = self.eval(k.value, frame)
                if isinstance(v, dict):
                    kwargs.update(v)
                elif isinstance(v, Sym) or isinstance(v, HostFn):
                    kwargs['**'] = v
                else:
                    raise OutOfReach('**kwargs of %r' % (v,))
            else:
                kwargs[k.arg] = self.eval(k.value, frame)
        return self.call(fn, args, kwargs, node=e)

    def ev_Attribute(self, e, frame):
        base = self.eval(e.value, frame)
        return self.world.ops.getattr(self, base, e.attr)

    def ev_Subscript(self, e, frame):
        base = self.eval(e.value, frame)
        if isinstance(e.slice, ast.Slice):
            lo = self.eval(e.slice.lower, frame) if e.slice.lower is not None else None
            hi = self.eval(e.slice.upper, frame) if e.slice.upper is not None else None
            st = self.eval(e.slice.step, frame) if e.slice.step is not None else None
            return self.world.ops.getslice(self, base, lo, hi, st)
        idx = self.eval(e.slice, frame)
        return self.world.ops.getitem(self, base, idx)

    def ev_ListComp(self, e, frame):
        return self.world.loops.comprehension(self, e, frame, 'list')

    def ev_GeneratorExp(self, e, frame):
        return self.world.loops.comprehension(self, e, frame, 'gen')

    def ev_SetComp(self, e, frame):
        raise OutOfReach('set comprehension')

    def ev_JoinedStr(self, e, frame):
        raise OutOfReach('f-string')

    def ev_Starred(self, e, frame):
        raise OutOfReach('starred')


class _Star(object):
    """ a symbolic sequence passed as *args """
    def __init__(self, value):
        self.value = value


def _load(t):
    import copy
    t2 = copy.copy(t)
    t2.ctx = ast.Load()
    return t2


def _is_generator(node):
    for n in ast.walk(node):
        if isinstance(n, (ast.Yield, ast.YieldFrom)):
            # ignore yields inside nested defs
            return _yield_owner(node, n)
    return False


def _yield_owner(fn, y):
    # True if y belongs directly to fn (not to a nested function)
    stack = [(fn, c) for c in ast.iter_child_nodes(fn)]
    while stack:
        owner, n = stack.pop()
        if n is y:
            return owner is fn
        nxt_owner = n if isinstance(n, (ast.FunctionDef, ast.Lambda)) else owner
        for c in ast.iter_child_nodes(n):
            stack.append((nxt_owner, c))
    return False
