# -*- coding: utf-8 -*-
"""
pyvc.verify -- contracts as seen by the symbolic executor, path exploration, obligation discharge,
counterexample extraction and native replay.
"""
import ast
import os
import sys
import time
import json
import random
import traceback
import z3

from .vals import *   # noqa
from .interp import (DDict, Prod, OutOfReach, PyRaise, Infeasible, PathEnd, FuncRef, ClassRef, Obj, NamedTupleClass, Closure,
                     HostFn, Frame, Ctx, Interp, ExcInst, TDelta, plain, int_term, _Star, Builtin)
from .world import World, LoopSpec, merge_eval, arg_key
from .ops import SymMapView
from . import api


OUTCOME_CLS = NamedTupleClass('Outcome', ['ret', 'value', 'exc', 'err'])
CALLEE_OUTCOME_CLS = NamedTupleClass('CalleeOutcome', ['ret', 'value', 'exc', 'err', 'raised'])


class DomS(object):
    """ symbolic side of api.Dom """
    def __init__(self, dom, world):
        self.dom = dom
        self.world = world

    def fresh(self, it, name):
        return fresh_of_dom(it, self.dom, name)


def from_native(v):
    """ native python value -> interpreter value """
    if 'XLError' in api.REAL and isinstance(v, api.REAL['XLError']):
        for i, e in enumerate(api.REAL['errors']):
            if v is e:
                return Err(i)
        raise OutOfReach('non canonical error constant')
    if isinstance(v, list):
        return [from_native(x) for x in v]
    if isinstance(v, tuple):
        return tuple(from_native(x) for x in v)
    return v


def fresh_of_dom(it, dom, name):
    ctx = it.ctx
    world = it.world
    if dom is api.OMITTED:
        return dom
    if dom.has_const:
        return from_native(dom.const)
    if dom.parts is not None:
        items = [fresh_of_dom(it, p, '%s_%d' % (name, i)) for i, p in enumerate(dom.parts)]
        return tuple(items) if dom.is_tuple else items
    if 'ddict' in dom.kinds:
        d = DDict()
        for k2, dv in dom.attrs['entries'].items():
            d[k2] = fresh_of_dom(it, dv, '%s[%s]' % (name, k2))
        return d
    if 'prod' in dom.kinds:
        names = [n for n, _ in dom.attrs['parts']]
        vals = [fresh_of_dom(it, d, '%s_%d' % (name, i)) for i, (_, d) in enumerate(dom.attrs['parts'])]
        return Prod(names, vals)
    if 'pyobj' in dom.kinds:
        cls = world.function_or_class(dom.cls)
        o = Obj(cls, {})
        o.from_domain = True
        for a, d in (dom.attrs or {}).items():
            o.attrs[a] = fresh_of_dom(it, d, '%s.%s' % (name, a))
        return o
    if 'exc' in dom.kinds:
        return ExcInst('OtherException')          # class, args and text are not under our control
    if 'hostfn' in dom.kinds:
        s = ctx.fresh_val(name, kinds=(OBJ,))
        ctx.assume(s.pay(OBJ, 0) == CLS_OTHER)
        return HostFn(name, s)
    if 'symmap' in dom.kinds:
        vals = z3.Array(name + '!vals', z3.StringSort(), Val)
        has = z3.Array(name + '!has', z3.StringSort(), z3.BoolSort())
        m = SymMapView(name, vals, has, default_list=bool(dom.attrs and dom.attrs.get('default_list')))
        return m
    s = ctx.fresh_val(name, kinds=dom.kinds)
    if LIST in dom.kinds:
        s.is_tuple = dom.is_tuple
        if dom.elem is not None:
            ek = frozenset(dom.elem.kinds)
            world.set_elem_kinds(s, ek)
            if ek != ALL_KINDS:
                j = z3.Int('dom!j')
                seq = ACC[LIST][0](s.val)
                body = is_kind(seq[j], *sorted(ek))
                if dom.elem.elem is not None and LIST in ek:
                    pass
                guard = z3.And(REC[LIST](s.val), j >= 0, j < z3.Length(seq))
                ctx.assume(z3.ForAll([j], z3.Implies(guard, body)))
        if dom.minlen:
            ctx.assume(z3.Implies(REC[LIST](s.val), z3.Length(ACC[LIST][0](s.val)) >= dom.minlen))
        if dom.maxlen is not None:
            ctx.assume(z3.Implies(REC[LIST](s.val), z3.Length(ACC[LIST][0](s.val)) <= dom.maxlen))
    if OBJ in dom.kinds:
        # host objects: complex numbers or anything else
        ctx.assume(z3.Implies(REC[OBJ](s.val), z3.Or(ACC[OBJ][0](s.val) == CLS_COMPLEX, ACC[OBJ][0](s.val) == CLS_OTHER)))
    return s


def dom_membership(it, dom, v):
    """ Bool term / python bool: v belongs to dom (used for callpre on argument domains) """
    if dom is api.OMITTED:
        return True
    if dom.has_const:
        return True
    if dom.parts is not None or 'pyobj' in dom.kinds or 'exc' in dom.kinds or 'hostfn' in dom.kinds or 'symmap' in dom.kinds or 'prod' in dom.kinds \
            or 'ddict' in dom.kinds:
        return True
    if isinstance(v, Sym):
        if v.kinds <= dom.kinds:
            return True
        inter = v.kinds & dom.kinds
        if not inter:
            return False
        return is_kind(v.val, *sorted(inter))
    k = kinds_of_concrete(v)
    if k is None:
        return True
    return k in dom.kinds


class Contract(object):

    def __init__(self, world, decl, specmod):
        self.world = world
        self.decl = decl
        self.target = decl.target
        self.name = decl.name
        self.props = decl.props
        self.specmod = specmod
        self.is_lemma = decl.target.startswith('lemma:')
        node = None
        for n in specmod.tree.body:
            if isinstance(n, ast.ClassDef) and n.name == decl.name:
                node = n
        if node is None:
            raise KeyError('contract class %s not found in %s' % (decl.name, specmod.path))
        self.node = node
        self.fns = {}
        self.assigns = {}
        for n in node.body:
            if isinstance(n, ast.FunctionDef):
                self.fns[n.name] = FuncRef(specmod, decl.name + '.' + n.name, n, is_spec=True)
            elif isinstance(n, ast.Assign) and isinstance(n.targets[0], ast.Name):
                if n.targets[0].id in ('pre', 'post', 'spec', 'abstract', 'claim', 'attrs', 'post_native'):
                    # would be ignored silently: the clause has to be a def in the class body
                    raise ValueError('contract %s: %s must be defined with def, not assigned' % (decl.name, n.targets[0].id))
                self.assigns[n.targets[0].id] = n.value
        self.args = decl.get('args') or {}
        self.cases = decl.get('cases') or [{}]
        self.ret = decl.get('ret')
        self.raises = decl.get('raises') or ()
        self.note = decl.get('note') or ''
        self.assumes = list(decl.get('assumes') or [])
        self.max_paths = decl.get('max_paths') or 6000
        self.timeout_s = decl.get('timeout_s')
        self._loops = None

    # -- the function under contract
    def funcref(self):
        try:
            return self.world.function(self.target)
        except KeyError as ex:
            # the function the contract names is no longer a `def` at that place (renamed, generated by a factory, moved): there is no body
            # to generate obligations from - that is undecided, for the bounded stand-ins, not a fault of the checker
            raise OutOfReach('%s: no def statement for it in the working tree' % (ex.args[0] if ex.args else self.target))

    def param_names(self, fn):
        a = fn.node.args
        names = [p.arg for p in a.args]
        if a.vararg:
            names.append(a.vararg.arg)
        return names

    # -- loop specs
    def loops(self, it):
        if self._loops is None:
            loops = []
            expr = self.assigns.get('loops')
            if expr is not None:
                it2 = Interp(self.world, Ctx())
                lst = it2.eval(expr, Frame(self.specmod))
                for i, d in enumerate(lst):
                    if d is None:
                        loops.append(None)
                        continue
                    types = {k: DomS(from_dom_value(v), self.world) for k, v in (d.get('types') or {}).items()}
                    loops.append(LoopSpec('loop%d' % i, d.get('inv'), d.get('variant'), types, d.get('index', 'k')))
            self._loops = loops
        return self._loops

    def loop_spec_for(self, it, node):
        fn = self.funcref()
        loops = sorted([n for n in ast.walk(fn.node) if isinstance(n, (ast.For, ast.While))],
                       key=lambda n: (n.lineno, n.col_offset))
        specs = self.loops(it)
        for i, n in enumerate(loops):
            if n is node:
                # loops are matched by ordinal among the loops that have a spec (None entries skip)
                if i < len(specs) and specs[i] is not None and specs[i].inv is not None:
                    return specs[i]
                return None
        return None

    GHOST_LOG = ('emits', 'host_calls', 'setter_values', 'callee_outcomes', 'called', 'calls', 'call_result')

    def post_reads_ghost_log(self):
        if getattr(self, '_ghost', None) is None:
            seen = set()

            def uses(node):
                for n in ast.walk(node):
                    if isinstance(n, ast.Name):
                        if n.id in self.GHOST_LOG:
                            return True
                        if n.id not in seen:
                            seen.add(n.id)
                            for m in self.world.spec_modules:
                                d = m.defs.get(n.id)
                                if d is not None and d[0] == 'func' and uses(d[1]):
                                    return True
                return False
            self._ghost = uses(self.fns['post'].node)
        return self._ghost

    OPAQUE_EXC = ['XLError', 'ValueError', 'TypeError', 'ZeroDivisionError', 'OverflowError', 'IndexError', 'KeyError',
                  'AttributeError', 'AnyException']

    def opaque_apply(self, it, vals):
        """ the callee's outcome as an uninterpreted (deterministic) function of its arguments: sound for functional
            contracts, and all a caller needs when it only passes the result on.  K = 0: returns F(args); K = i: raises
            the i-th class of OPAQUE_EXC (XLError with payload E(args)). """
        ctx = it.ctx
        try:
            ts = [to_val(v) for v in vals]
        except Unliftable as u:
            raise OutOfReach('opaque call of %s: %s' % (self.name, u))
        sorts = [Val] * len(ts)
        F = z3.Function('F_' + self.name, *(sorts + [Val]))
        K = z3.Function('K_' + self.name, *(sorts + [z3.IntSort()]))
        EC = z3.Function('E_' + self.name, *(sorts + [z3.IntSort()]))
        k = K(*ts)
        ctx.flags.add('opaque:' + self.name)
        if ctx.branch(k == 0):
            return Sym(F(*ts), ALL_KINDS)
        for i, cls in enumerate(self.OPAQUE_EXC[:-1]):
            if ctx.branch(k == i + 1):
                if cls == 'XLError':
                    code = EC(*ts)
                    ctx.assume(code >= 0)
                    raise PyRaise('XLError', mk_err(code))
                raise PyRaise(cls, ExcInst(cls))
        raise PyRaise('AnyException', ExcInst('AnyException'))

    # -- call by contract (modular: callers never see the body)
    def apply(self, it, fn, args, kwargs):
        # the outcome the contract produced is kept in the ghost log: the caller's postcondition may refer to it
        # (spec builtin callee_outcome) to state its own result as a function of the callee's
        log = it.ctx.log
        try:
            rv = self._apply(it, fn, args, kwargs)
        except PyRaise as pr:
            log.append(('outcome', self.target, Obj(CALLEE_OUTCOME_CLS, {
                'ret': False, 'value': None, 'exc': pr.cls, 'err': pr.value if pr.cls == 'XLError' else None,
                'raised': pr.value})))
            raise
        log.append(('outcome', self.target, Obj(CALLEE_OUTCOME_CLS, {'ret': True, 'value': rv, 'exc': None, 'err': None, 'raised': None})))
        return rv

    def _apply(self, it, fn, args, kwargs):
        ctx = it.ctx
        frame = Frame(fn.module)
        it.bind_args(fn.node.args, args, kwargs, frame, Frame(fn.module))
        names = self.param_names(fn)
        vals = [frame.locals[n] for n in names]
        ctx.log.append(('call', self.target, vals))
        if self.decl.get('host_effect'):
            # a method that hands its arguments to host code (listeners): every closure among the arguments may be invoked
            # by the host; up to 2 invocations with arbitrary arguments are simulated (bounded: flagged), then self is returned.
            ctx.flags.add('host_effect:%s (escaping closures invoked at most twice)' % self.name)
            clos = [v for v in _flatten_vals(vals) if isinstance(v, Closure)]
            for cl in clos:
                n = ctx.choose([True, True, True])
                for _ in range(n):
                    nargs = len(cl.node.args.args)
                    hargs = [ctx.fresh_val('hostarg') for _ in range(nargs)]
                    ctx.log.append({'kind': 'closure_call', 'closure': cl.name, 'args': hargs})
                    it.call(cl, hargs)
            c = ctx.choose([True, True])
            if c == 1:
                raise PyRaise('AnyException', ExcInst('AnyException'))
            return vals[0]
        cur = self.world.current
        if cur is not None and self.name in (cur.decl.get('opaque_callees') or ()) and 'spec' in self.fns:
            if 'pre' in self.fns:
                g = merge_eval(it, lambda it2: it2.call(self.fns['pre'], vals), key=('callpre', self.name, arg_key(vals)))
                ctx.oblige('callpre', 'callpre.%s' % self.name, g)
                ctx.assume(g)
            return self.opaque_apply(it, vals)
        # argument domains and precondition are proof obligations of the caller
        for n, v in zip(names, vals):
            d = self.args.get(n)
            if d is not None:
                g = dom_membership(it, d, v)
                if g is not True:
                    ctx.oblige('callpre', 'callpre.%s.%s' % (self.name, n), g if not isinstance(g, bool) else z3.BoolVal(g))
        if 'pre' in self.fns:
            g = merge_eval(it, lambda it2: it2.call(self.fns['pre'], vals), key=('callpre', self.name, arg_key(vals)))
            ctx.oblige('callpre', 'callpre.%s' % self.name, g)
            ctx.assume(g)
        if 'abstract' in self.fns:
            # functional abstraction for callers; its agreement with the body is established by the bounded native run only
            ctx.flags.add('assumed-bounded:' + self.name)
            return it.call(self.fns['abstract'], vals)
        if 'attrs' in self.fns:
            d = it.call(self.fns['attrs'], vals)
            for k2, v2 in d.items():
                vals[0].attrs[k2] = v2
            return None
        if 'spec' in self.fns:
            return it.call(self.fns['spec'], vals)
        if 'post' in self.fns:
            if self.post_reads_ghost_log():
                # the postcondition describes the callee's own events (emits, call-outs, setter values): evaluated here it would read the
                # CALLER's log, find nothing and rule the call out altogether.  Callers need an abstraction (`for_callers`) for such a callee.
                raise OutOfReach('the contract of callee %s speaks about its own event log: it cannot stand in for the call' % self.name)
            opts = ['ret'] + list(self.raises)
            c = ctx.choose([True] * len(opts))
            if c == 0:
                rv = fresh_of_dom(it, self.ret, 'ret_' + self.name) if self.ret is not None else ctx.fresh_val('ret_' + self.name)
                out = Obj(OUTCOME_CLS, {'ret': True, 'value': rv, 'exc': None, 'err': None})
                g = merge_eval(it, lambda it2: it2.call(self.fns['post'], vals + [out]))
                ctx.assume(g, check=True)
                return rv
            cls = opts[c]
            err = None
            if cls == 'XLError':
                err = ctx.fresh_val('err_' + self.name, kinds=(ERR,))
            out = Obj(OUTCOME_CLS, {'ret': False, 'value': None, 'exc': cls, 'err': err})
            g = merge_eval(it, lambda it2: it2.call(self.fns['post'], vals + [out]))
            ctx.assume(g, check=True)
            raise PyRaise(cls, err if err is not None else ExcInst(cls))
        raise OutOfReach('contract %s has neither spec nor post' % self.name)


def heap_copy(v, memo=None):
    """ structural copy of interpreter heap values (Obj, dict, list); symbolic and immutable values are shared """
    memo = {} if memo is None else memo
    if id(v) in memo:
        return memo[id(v)]
    if isinstance(v, Obj):
        o = Obj(v.cls, {})
        if getattr(v, 'from_domain', False):
            o.from_domain = True
        memo[id(v)] = o
        for k, x in v.attrs.items():
            o.attrs[k] = heap_copy(x, memo)
        return o
    if isinstance(v, dict):
        d = type(v)()
        memo[id(v)] = d
        for k, x in v.items():
            d[k] = heap_copy(x, memo)
        return d
    if isinstance(v, list):
        l = []
        memo[id(v)] = l
        l.extend(heap_copy(x, memo) for x in v)
        return l
    if isinstance(v, tuple):
        return tuple(heap_copy(x, memo) for x in v)
    return v


def _flatten_vals(vals):
    for v in vals:
        if isinstance(v, (list, tuple)):
            for x in _flatten_vals(v):
                yield x
        else:
            yield v


def from_dom_value(v):
    """ a Dom object obtained by evaluating contract source with the interpreter (names map to api Doms) """
    return v


# -------------------------------------------------------------------------------------------------------

def world_function_or_class(world, fullname):
    modname, _, qual = fullname.partition(':')
    m = world.module(modname)
    return world.module_attr(None, m, qual)


World.function_or_class = world_function_or_class


def _current_fn_contract(world, it):
    return world.current


World.current_fn_contract = _current_fn_contract


def outcome_obj(out):
    kind, payload = out
    if kind == 'ret':
        return Obj(OUTCOME_CLS, {'ret': True, 'value': payload, 'exc': None, 'err': None})
    pr = payload
    err = pr.value if pr.cls == 'XLError' else None
    return Obj(OUTCOME_CLS, {'ret': False, 'value': None, 'exc': pr.cls, 'err': err})


def values_equal_term(pa, pb):
    """ strict equality of two interpreter values as a Bool term; tuples elementwise; type objects by identity """
    from .interp import TypeRef
    if isinstance(pa, tuple) and isinstance(pb, tuple) and (any(_has_type(x) for x in pa) or any(_has_type(x) for x in pb)):
        if len(pa) != len(pb):
            return z3.BoolVal(False)
        return z3.And(*[values_equal_term(x, y) for x, y in zip(pa, pb)]) if pa else z3.BoolVal(True)
    if _has_type(pa) or _has_type(pb):
        return z3.BoolVal(pa == pb if not isinstance(pa, TypeRef) else pa is pb)
    return to_val(pa) == to_val(pb)


def _has_type(x):
    from .interp import TypeRef
    if isinstance(x, TypeRef):
        return True
    return isinstance(x, tuple) and len(x) > 0 and all(isinstance(y, TypeRef) for y in x)


def outcomes_equal(it, a, b):
    """ goal term for 'body outcome == spec outcome' """
    ka, pa = a
    kb, pb = b
    if ka != kb:
        return z3.BoolVal(False)
    if ka == 'ret':
        try:
            return values_equal_term(pa, pb)
        except Unliftable as u:
            raise OutOfReach('functional spec on a non-liftable result (%s): use post' % u)
    if pa.cls != pb.cls:
        return z3.BoolVal(False)
    if pa.cls == 'XLError':
        return to_val(pa.value) == to_val(pb.value)
    return z3.BoolVal(True)


class PathLimit(Exception):
    pass


def explore(run, max_paths):
    """ DFS by re-execution; run(ctx) performs one path. yields ctx after each run """
    stack = [[]]
    n = 0
    while stack:
        prefix = stack.pop()
        n += 1
        if n > max_paths:
            raise OutOfReach('more than %d paths' % max_paths)
        ctx = Ctx(prefix)
        status = 'done'
        try:
            run(ctx)
        except Infeasible:
            status = 'infeasible'
        except PathEnd:
            status = 'pathend'
        except OutOfReach as o:
            status = 'out_of_reach'
            ctx.reach_reason = str(o)
        for i in range(len(prefix), len(ctx.trace)):
            ch, cnt = ctx.trace[i]
            for alt in range(ch + 1, cnt):
                stack.append([x[0] for x in ctx.trace[:i]] + [alt])
        yield ctx, status


def prove(pc, goal, timeout_ms):
    s = z3.Solver()
    s.set('timeout', timeout_ms)
    for c in pc:
        s.add(c)
    s.add(z3.Not(goal))
    t0 = time.time()
    r = s.check()
    dt = time.time() - t0
    if r == z3.unsat:
        return 'unsat', None, dt
    if r == z3.sat:
        return 'sat', s.model(), dt
    return 'unknown', s.reason_unknown(), dt


def value_from_model(model, v):
    """ interpreter input value -> native-ish python value under the model """
    if isinstance(v, Sym):
        return val_to_py(model.eval(v.val, model_completion=True))
    if isinstance(v, (list, tuple)):
        r = [value_from_model(model, x) for x in v]
        return tuple(r) if isinstance(v, tuple) else r
    if isinstance(v, Obj):
        return {'__class__': getattr(v.cls, 'fullname', getattr(v.cls, 'name', '?')),
                'attrs': {k: value_from_model(model, x) for k, x in v.attrs.items()}}
    if isinstance(v, HostFn):
        return {'__hostfn__': v.name}
    if isinstance(v, Prod):
        return {'__prod__': list(v.names), 'vals': [value_from_model(model, x) for x in v.init_vals]}
    if isinstance(v, SymMapView):
        return {'__symmap__': v.name}
    if isinstance(v, dict):
        return {'__dict__': {str(k): value_from_model(model, x) for k, x in v.items()}}
    return v


class Result(object):
    def __init__(self, contract):
        self.contract = contract.name
        self.target = contract.target
        self.props = contract.props
        self.status = 'ok'          # ok | out_of_reach | error
        self.reason = None
        self.obligations = []       # dicts
        self.paths = 0
        self.post_prunes = 0
        self.completed = 0
        self.unreached = []
        self.flags = set()
        self.solver_s = 0.0
        self.wall_s = 0.0
        self.source_sha = None

    def to_json(self):
        return {'contract': self.contract, 'target': self.target, 'props': self.props, 'status': self.status,
                'reason': self.reason, 'obligations': self.obligations, 'paths': self.paths, 'post_prunes': self.post_prunes,
                'unreached_paths': len(self.unreached), 'unreached_reasons': sorted(set(self.unreached))[:8],
                'flags': sorted(self.flags), 'solver_s': round(self.solver_s, 3), 'wall_s': round(self.wall_s, 3),
                'source_sha': self.source_sha}


TRANSPARENT_DECORATORS = ('register_for', 'staticmethod', 'classmethod')


def opaque_decorators(node):
    """ decorators of a function definition other than the ones known to hand the function back unchanged (the registration
        decorator of hotxlfp.formulas - checked by the C09 table obligations - and static/class method markers) """
    out = []
    for d in getattr(node, 'decorator_list', ()):
        f = d.func if isinstance(d, ast.Call) else d
        name = f.attr if isinstance(f, ast.Attribute) else (f.id if isinstance(f, ast.Name) else '?')
        if name not in TRANSPARENT_DECORATORS:
            out.append(ast.unparse(d))
    return out


def verify_contract(world, c, timeout_ms=10000, only_case=None, budget_s=None):
    """ generate and discharge all obligations of one contract; returns Result """
    res = Result(c)
    t_start = time.time()
    budget_s = c.timeout_s or budget_s or 240
    deadline = t_start + budget_s
    try:
        if c.is_lemma:
            fn = None
        else:
            fn = c.funcref()
            res.source_sha = fn.module.sha_of(fn.node)
            odd = opaque_decorators(fn.node)
            if odd and not c.decl.get('bounded_only'):
                # what runs under this name is whatever the decorator returned, not the body the obligations would be generated from
                # (functools.lru_cache, for one, answers from a table keyed by == and hash: 1, 1.0 and True share an entry)
                raise OutOfReach('decorated with %s: the callable that runs is not the function body' % ', '.join(odd))
        seen = set()
        counter = {'post': 0}
        for ci, case in enumerate(c.cases):
            if only_case is not None and ci != only_case:
                continue
            case_tag = ('case%d.' % ci) if len(c.cases) > 1 else ''

            def run(ctx, case=case):
                it = Interp(world, ctx)
                world.current = c
                if c.is_lemma:
                    names = list(c.args.keys())
                else:
                    names = c.param_names(fn)
                vals = []
                for n in names:
                    if n in case:
                        if isinstance(case[n], api.Dom):
                            vals.append(fresh_of_dom(it, case[n], n))
                        else:
                            vals.append(from_native(case[n]))
                    elif n in c.args:
                        vals.append(fresh_of_dom(it, c.args[n], n))
                    else:
                        raise OutOfReach('contract %s declares no domain for parameter %s' % (c.name, n))
                ctx.inputs = list(zip(names, vals))
                ctx.inputs_vals = vals
                if '_where' in case:
                    # a case may add a side condition (work splitting): cases together must cover the precondition
                    try:
                        if not it.truth(it.call(c.fns[case['_where']], vals + [case.get('_k')])):
                            raise Infeasible()
                    except PyRaise:
                        raise Infeasible()
                old = heap_copy(vals[0]) if ('post' in c.fns and 'old' in [a.arg for a in c.fns['post'].node.args.args]) else None
                if 'pre' in c.fns:
                    ctx.phase = 'pre'
                    # merged into one assumption (paths of the precondition are not multiplied with those of the body);
                    # a precondition path that raises counts as false
                    if c.decl.get('merge_pre'):
                        # one merged assumption: the paths of the precondition are not multiplied with those of the body
                        g = merge_eval(it, lambda it2: it2.call(c.fns['pre'], vals), key=('toppre', c.name, arg_key(vals)))
                        ctx.assume(g, check=True)
                    else:
                        try:
                            if not it.truth(it.call(c.fns['pre'], vals)):
                                raise Infeasible()
                        except PyRaise:
                            raise Infeasible()     # a precondition that raises does not hold
                    ctx.phase = 'body'
                if c.is_lemma:
                    ctx.phase = 'post'
                    ok = it.truth(it.call(c.fns['claim'], vals))
                    ctx.oblige('lemma', 'claim', z3.BoolVal(bool(ok)))
                    return
                call_vals = []
                a = fn.node.args
                for n, v in zip(names, vals):
                    if v is api.OMITTED:
                        continue
                    if a.vararg is not None and n == a.vararg.arg:
                        if isinstance(v, (tuple, list)):
                            call_vals.extend(v)
                        else:
                            call_vals.append(_Star(v))
                    else:
                        call_vals.append(v)
                try:
                    v = it.run_function(fn.node, fn.module, call_vals, func=fn)
                    out = ('ret', v)
                except PyRaise as pr:
                    out = ('raise', pr)
                if c.decl.get('result_is_p0') and out[0] == 'ret':
                    out = ('ret', [v for v in vals if isinstance(v, Prod)][0].vals[0])
                ctx.phase = 'post'
                if 'spec' in c.fns:
                    try:
                        sv = it.call(c.fns['spec'], vals)
                        sout = ('ret', sv)
                    except PyRaise as pr:
                        sout = ('raise', pr)
                    goal = outcomes_equal(it, out, sout)
                    ctx.oblige('post', 'post', goal, note='%s vs spec %s' % (describe_outcome(out), describe_outcome(sout)))
                if 'attrs' in c.fns:
                    d = it.call(c.fns['attrs'], vals)
                    if out[0] != 'ret':
                        ctx.oblige('post', 'post', z3.BoolVal(False), note='constructor raised %s' % out[1].cls)
                    else:
                        obj = vals[0]
                        goal = z3.BoolVal(set(d.keys()) == set(obj.attrs.keys()))
                        if set(d.keys()) == set(obj.attrs.keys()):
                            goal = z3.And(*[to_val(obj.attrs[k2]) == to_val(d[k2]) for k2 in d]) if d else z3.BoolVal(True)
                        ctx.oblige('post', 'post', goal, note='constructor attributes')
                if 'post' in c.fns:
                    oo = outcome_obj(out)
                    try:
                        ghosts = [fresh_of_dom(it, d, g) for g, d in (c.decl.get('ghost') or {}).items()]
                        pargs = vals + ghosts + [oo]
                        if old is not None:
                            pargs = vals + ghosts + [old, oo]
                        ok = it.truth(it.call(c.fns['post'], pargs))
                    except PyRaise as pr:
                        raise OutOfReach('the postcondition itself raised %s on this path' % pr.cls)
                    ctx.oblige('post', 'post', z3.BoolVal(bool(ok)), note=describe_outcome(out))
                world.current = None

            for ctx, status in explore(run, c.max_paths):
                res.paths += 1
                if time.time() > deadline:
                    res.unreached.append('time budget of %ds for this contract exhausted' % budget_s)
                    break
                if status == 'out_of_reach':
                    res.unreached.append(ctx.reach_reason)
                    continue
                res.flags |= ctx.flags
                res.post_prunes += ctx.post_prunes
                if status in ('done', 'pathend') or ctx.phase == 'post' or ctx.obligations:
                    res.completed += 1
                for ob in ctx.obligations:
                    goal = z3.simplify(ob.goal) if not isinstance(ob.goal, bool) else z3.BoolVal(ob.goal)
                    if z3.is_true(goal):
                        key = ('T', ob.name)
                        rec = {'name': case_tag + ob.name, 'kind': ob.kind, 'result': 'discharged', 'backend': 'simplify',
                               's': 0.0}
                        # count trivially true goals once per name to keep evidence readable
                        if key in seen:
                            continue
                        seen.add(key)
                        res.obligations.append(rec)
                        continue
                    key = (ob.name, tuple(sorted(str(x.sexpr()) for x in ob.pc)), goal.sexpr())
                    if key in seen:
                        continue
                    seen.add(key)
                    r, info, dt = prove(ob.pc, goal, c.decl.get('solver_timeout_ms') or timeout_ms)
                    res.solver_s += dt
                    counter['post'] += 1
                    rec = {'name': '%s%s#%d' % (case_tag, ob.name, counter['post']), 'kind': ob.kind, 's': round(dt, 3),
                           'backend': 'z3', 'where': ob.where, 'note': ob.note}
                    if r == 'unsat':
                        rec['result'] = 'discharged'
                    elif r == 'sat':
                        rec['result'] = 'failed'
                        try:
                            rec['model'] = {n: repr(value_from_model(info, v)) for n, v in ctx.inputs}
                            rec['_inputs'] = [(n, value_from_model(info, v)) for n, v in ctx.inputs]
                        except Exception as ex:
                            rec['model_error'] = repr(ex)
                    else:
                        rec['result'] = 'undecided'
                        rec['reason'] = str(info)
                    res.obligations.append(rec)
        if not c.is_lemma and res.completed == 0 and not res.unreached:
            # vacuity guard: no path of the function reached its postcondition (contradictory precondition / domain)
            res.status = 'error'
            res.reason = 'vacuous: none of the %d explored paths satisfies the precondition and reaches the postcondition' % res.paths
        elif res.unreached and res.paths == len(res.unreached):
            res.status = 'out_of_reach'
            res.reason = '; '.join(sorted(set(res.unreached))[:3])
        elif res.unreached:
            res.status = 'partial'
            res.reason = '%d of %d paths out of reach: %s' % (len(res.unreached), res.paths, '; '.join(sorted(set(res.unreached))[:3]))
    except OutOfReach as o:
        res.status = 'out_of_reach'
        res.reason = str(o)
    except Exception as ex:
        res.status = 'error'
        res.reason = '%s: %s\n%s' % (type(ex).__name__, ex, traceback.format_exc())
    finally:
        world.current = None
    res.wall_s = time.time() - t_start
    return res


def describe_outcome(out):
    k, p = out
    if k == 'ret':
        return 'return'
    return 'raise %s' % p.cls


# ------------------------------------------------------------------------------------------------------- loading

def load_contracts(world, contract_dir, files=None):
    """ exec the contract files natively (needs api.bind_real done) and register symbolic Contracts """
    api.REGISTRY[:] = []
    specs_path = os.path.join(contract_dir, 'specs.py')
    ns = api.native_namespace()
    specmod = None
    if os.path.isfile(specs_path):
        with open(specs_path, 'r', encoding='utf-8') as f:
            exec(compile(f.read(), specs_path, 'exec'), ns)
        specmod = world.spec_module(specs_path, 'specs')
    out = []
    for fn in sorted(os.listdir(contract_dir)):
        if not fn.endswith('.py') or fn == 'specs.py' or fn.startswith('_'):
            continue
        if files is not None and fn[:-3] not in files:
            continue
        path = os.path.join(contract_dir, fn)
        before = len(api.REGISTRY)
        ns2 = ns            # one shared namespace: contract files may refer to each other's contract classes
        with open(path, 'r', encoding='utf-8') as f:
            exec(compile(f.read(), path, 'exec'), ns2)
        m = world.spec_module(path, fn[:-3], fallback=specmod)
        world.spec_modules.append(m)
        for decl in api.REGISTRY[before:]:
            c = Contract(world, decl, m)
            c.native_ns = ns2
            c.file = fn
            prev = world.contracts.get(c.target)
            if prev is None or decl.get('for_callers') or not prev.decl.get('for_callers'):
                world.contracts[c.target] = c          # what callers of the target see
            out.append(c)
    return out
