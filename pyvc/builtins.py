# -*- coding: utf-8 -*-
"""
pyvc.builtins -- Python builtins, str/list methods and the external libraries hotxlfp calls
(math, operator, re, datetime, fnmatch, random, statistics, functools.reduce) as far as they are
modelled.  External library behaviour is an *assumed contract* (DESIGN section 3): each handler here
is the statement of that assumption; every use is recorded in ctx.flags as 'ext:<name>'.
"""
import z3
import math
import datetime
import operator as _op
from .vals import *   # noqa
from .interp import (DDict, Prod, SliceSym, OutOfReach, PyRaise, TypeRef, ExcClass, ExcInst, FuncRef, ClassRef, Obj, NamedTupleClass,
                     BoundMethod, Closure, Builtin, ExtRef, ModRef, TDelta, HostFn, int_term, real_term,
                     real_floor, real_ceil, real_trunc, plain, KIND_TYPE, T_INT, T_FLOAT, T_BOOL, T_STR, T_LIST,
                     T_TUPLE, T_NONE, T_COMPLEX, T_DATETIME, T_DATE, T_XLERROR, T_DICT, T_OBJECT, _Star,
                     exc_isinstance, EXC_PARENT)
from .ops import native, nativeish, is_plain_index, SymMapView

EXC_NAMES = list(EXC_PARENT.keys()) + ['BaseException']

TYPE_KINDS = {
    'int': (INT, BOOL), 'bool': (BOOL,), 'float': (FLOAT,), 'str': (STR,), 'list': (LIST,), 'tuple': (LIST,),
    'NoneType': (NONE,), 'XLError': (ERR,), 'datetime': (DATE,), 'date': (DATE,), 'complex': (OBJ,), 'dict': (),
    'object': tuple(KINDS), 'RuntimeError': (ERR,), 'Exception': (ERR,), 'BaseException': (ERR,),
}

# uninterpreted library functions (Real -> Real)
_R = z3.RealSort()
LIBM = {}
for _n in ('acos', 'asin', 'atan', 'sin', 'cos', 'tan', 'sinh', 'cosh', 'tanh', 'asinh', 'acosh', 'atanh', 'sqrt',
           'log', 'exp', 'log10'):
    LIBM[_n] = z3.Function('math_' + _n, _R, _R)
LIBM2 = {'atan2': z3.Function('math_atan2', _R, _R, _R), 'log': z3.Function('math_log2', _R, _R, _R)}
LIBM['acot'] = z3.Function('math_acot', _R, _R)       # spec-side names for the statement's functions that math lacks
LIBM['acoth'] = z3.Function('math_acoth', _R, _R)
LIBM['cot'] = z3.Function('math_cot', _R, _R)
PI = z3.Real('math_pi')
E = z3.Real('math_e')
# domains: (predicate on x for which math.f(x) is defined, exception otherwise)
LIBM_DOMAIN = {
    'acoth': lambda x: z3.Or(x > 1, x < -1),
    'acos': lambda x: z3.And(x >= -1, x <= 1), 'asin': lambda x: z3.And(x >= -1, x <= 1),
    'sqrt': lambda x: x >= 0, 'log': lambda x: x > 0, 'log10': lambda x: x > 0,
    'acosh': lambda x: x >= 1, 'atanh': lambda x: z3.And(x > -1, x < 1),
}
LIBM_OVERFLOW = ('sinh', 'cosh', 'exp')   # may raise OverflowError for large |x|

py_strip_ws = z3.Function('py_strip_ws', z3.StringSort(), z3.StringSort())
py_strip_chars = z3.Function('py_strip_chars', z3.StringSort(), z3.StringSort(), z3.StringSort())
re_sub_f = {}
fnmatch_f = z3.Function('fnmatch', z3.StringSort(), z3.StringSort(), z3.BoolSort())
py_round = z3.Function('py_round', z3.RealSort(), z3.IntSort(), z3.RealSort())
py_round0 = z3.Function('py_round0', z3.RealSort(), z3.IntSort())
py_chr = z3.Function('py_chr', z3.IntSort(), z3.StringSort())
py_ord = z3.Function('py_ord', z3.StringSort(), z3.IntSort())
py_int_base = z3.Function('py_int_base', z3.StringSort(), z3.IntSort(), z3.IntSort())
py_int_base_ok = z3.Function('py_int_base_ok', z3.StringSort(), z3.IntSort(), z3.BoolSort())
py_hex = z3.Function('py_hex', z3.IntSort(), z3.StringSort())
py_factorial = z3.Function('py_factorial', z3.IntSort(), z3.IntSort())
seq_sum = z3.Function('seq_sum', SeqVal, Val)
seq_fold = {}
date_field = {f: z3.Function('date_' + f, z3.RealSort(), z3.IntSort()) for f in
              ('year', 'month', 'day', 'hour', 'minute', 'second', 'microsecond', 'weekday')}
civil_us = z3.Function('civil_us', *([z3.IntSort()] * 7 + [z3.RealSort()]))
civil_ok = z3.Function('civil_ok', *([z3.IntSort()] * 7 + [z3.BoolSort()]))


def _num_kind(it, v):
    """ narrow to a numeric kind; returns Sym (or raises TypeError) """
    s = as_sym(v)
    k = it.ctx.narrow(s)
    if k not in NUMERIC:
        if k == OBJ:
            raise OutOfReach('numeric builtin on host object')
        raise PyRaise('TypeError', ExcInst('TypeError'))
    return s, k


class Builtins(object):

    def __init__(self, world):
        self.world = world
        self.table = {}
        for name in ('len', 'str', 'int', 'float', 'bool', 'abs', 'min', 'max', 'sum', 'isinstance', 'type', 'ord',
                     'chr', 'range', 'zip', 'enumerate', 'list', 'tuple', 'sorted', 'any', 'all', 'round', 'hasattr',
                     'hex', 'iter', 'next', 'repr', 'print', 'reversed', 'getattr', 'callable', 'super', 'complex',
                     'dict', 'object', 'divmod'):
            fn = getattr(self, 'b_' + name, None)
            if fn is None:
                # a builtin of Python that the model does not implement is out of reach - never a NameError of the program
                def fn(it, a, k, _n=name):
                    raise OutOfReach('builtin %s()' % _n)
            self.table[name] = Builtin(name, fn)
        for t in ('int', 'float', 'bool', 'str', 'list', 'tuple', 'complex', 'dict', 'object'):
            pass

    def lookup(self, name):
        if name in ('int', 'float', 'bool', 'str', 'list', 'tuple', 'complex', 'dict', 'object'):
            return TypeRef(name)
        if name in self.table:
            return self.table[name]
        if name in EXC_NAMES:
            return ExcClass(name)
        if name in ('True', 'False', 'None'):
            return {'True': True, 'False': False, 'None': None}[name]
        if name == 'raw_input':
            raise OutOfReach('raw_input')
        import builtins as _pyb
        if hasattr(_pyb, name):
            # a name Python itself defines (map, filter, set, pow, format ...) that the model does not implement
            def unmodelled(it, a, k, _n=name):
                raise OutOfReach('builtin %s' % _n)
            return Builtin(name, unmodelled)
        return NotImplemented

    # ------------------------------------------------------------------ type objects
    def call_type(self, it, t, args, kwargs):
        n = t.name
        if n == 'str':
            return self.b_str(it, args, kwargs)
        if n == 'int':
            return self.b_int(it, args, kwargs)
        if n == 'float':
            return self.b_float(it, args, kwargs)
        if n == 'bool':
            return self.b_bool(it, args, kwargs)
        if n == 'list':
            return self.b_list(it, args, kwargs)
        if n == 'tuple':
            return self.b_tuple(it, args, kwargs)
        if n == 'XLError':
            # a fresh non-canonical instance
            c = it.ctx.fresh(z3.IntSort(), 'errinst')
            it.ctx.assume(c >= 9)
            if args:
                m = as_sym(args[0])
                if it.ctx.narrow(m) == STR:
                    it.ctx.assume(errmsg(c) == m.pay(STR))
            s = mk_err(c)
            s.fresh = True
            return s
        if n == 'datetime':
            return self.mk_datetime(it, args, kwargs)
        if n == 'complex':
            raise OutOfReach('complex()')
        if n == 'dict':
            if not args:
                return dict(kwargs)
        raise OutOfReach('call of type %s' % n)

    def type_attr(self, it, t, name):
        if t.name == 'datetime':
            if name == 'now' or name == 'today':
                return Builtin('datetime.now', lambda it2, a, k: self.clock(it2, 'datetime.' + name))
            if name == 'combine':
                raise OutOfReach('datetime.combine')
        if t.name == 'date' and name == 'today':
            return Builtin('date.today', lambda it2, a, k: self.clock(it2, 'date.today'))
        raise OutOfReach('attribute %s of type %s' % (name, t.name))

    def clock(self, it, what):
        it.ctx.flags.add('clock:' + what)
        us = it.ctx.fresh(z3.RealSort(), 'now')
        it.ctx.assume(z3.And(us >= 0, us <= z3.RealVal(date_to_us(datetime.datetime(9999, 12, 31)))))
        return mk_date(us)

    def mk_datetime(self, it, args, kwargs):
        names = ['year', 'month', 'day', 'hour', 'minute', 'second', 'microsecond']
        vals = list(args)
        for nme in names[len(vals):]:
            vals.append(kwargs.get(nme, 0))
        if len(vals) < 3 or any(kwargs.get(nme) is None and i < 3 and i >= len(args) for i, nme in enumerate(names[:3])):
            raise PyRaise('TypeError', ExcInst('TypeError'))
        if all(isinstance(v, int) and not isinstance(v, bool) for v in vals):
            return native(lambda: datetime.datetime(*vals))
        ts = []
        for v in vals:
            s = as_sym(v)
            k = it.ctx.narrow(s)
            if k not in (INT, BOOL):
                # float -> TypeError in py3; str -> TypeError
                if k == OBJ:
                    raise OutOfReach('datetime() of host object')
                raise PyRaise('TypeError', ExcInst('TypeError'))
            ts.append(int_term(it.ctx, s))
        it.ctx.flags.add('ext:datetime.datetime')
        ok = civil_ok(*ts)
        self.world.axioms.civil(it, ts)
        if not it.ctx.branch(ok):
            raise PyRaise('ValueError', ExcInst('ValueError'))
        return mk_date(civil_us(*ts))

    # ------------------------------------------------------------------ external modules
    def ext_attr(self, it, base, name):
        d = base.dotted + '.' + name
        if d == 'math.pi':
            it.ctx.flags.add('ext:math.pi')
            it.ctx.axiom(z3.And(PI > z3.RealVal('3.14159'), PI < z3.RealVal('3.1416')))
            return mk_float(PI)
        if d == 'math.e':
            it.ctx.flags.add('ext:math.e')
            it.ctx.axiom(z3.And(E > z3.RealVal('2.71828'), E < z3.RealVal('2.71829')))
            return mk_float(E)
        if d == 'datetime.datetime':
            return T_DATETIME
        if d == 'datetime.date':
            return T_DATE
        if d == 'datetime.timedelta':
            return Builtin('timedelta', self.e_timedelta)
        return ExtRef(d)

    def call_ext(self, it, fn, args, kwargs):
        d = fn.dotted
        h = getattr(self, 'x_' + d.replace('.', '_'), None)
        if h is not None:
            return h(it, args, kwargs)
        mod, _, name = d.partition('.')
        if mod == 'math' and (name in LIBM or name in LIBM2):
            return self.libm(it, name, args)
        if mod == 'operator' and name in ('add', 'sub', 'mul', 'truediv', 'gt', 'lt', 'ne', 'eq', 'ge', 'le'):
            a, b = args
            if name in ('add', 'sub', 'mul', 'truediv'):
                return self.world.ops.binop(it, {'add': 'Add', 'sub': 'Sub', 'mul': 'Mult', 'truediv': 'Div'}[name], a, b)
            return self.world.ops.compare(it, {'gt': 'Gt', 'lt': 'Lt', 'ne': 'NotEq', 'eq': 'Eq', 'ge': 'GtE', 'le': 'LtE'}[name], a, b)
        raise OutOfReach('external call %s' % d)

    def libm(self, it, name, args):
        ctx = it.ctx
        ctx.flags.add('ext:math.' + name)
        xs = []
        for a in args:
            s, k = _num_kind(it, a)
            xs.append(real_term(ctx, s))
        if len(xs) == 2 and name in LIBM2:
            if name == 'log':
                x, b = xs
                if not ctx.branch(x > 0):
                    raise PyRaise('ValueError', ExcInst('ValueError'))
                if not ctx.branch(b > 0):
                    raise PyRaise('ValueError', ExcInst('ValueError'))
                if ctx.branch(b == 1):
                    raise PyRaise('ZeroDivisionError', ExcInst('ZeroDivisionError'))
                return mk_float(LIBM2['log'](x, b))
            return mk_float(LIBM2[name](*xs))
        if len(xs) != 1:
            raise PyRaise('TypeError', ExcInst('TypeError'))
        x = xs[0]
        if name in LIBM_DOMAIN:
            if not ctx.branch(LIBM_DOMAIN[name](x)):
                raise PyRaise('ValueError', ExcInst('ValueError'))
        if name == 'cot':
            # cot is undefined where sin vanishes
            if ctx.branch(LIBM['sin'](x) == 0):
                raise PyRaise('ZeroDivisionError', ExcInst('ZeroDivisionError'))
        if name in LIBM_OVERFLOW:
            ovf = z3.Function('math_overflows_' + name, _R, z3.BoolSort())
            if ctx.branch(ovf(x)):
                raise PyRaise('OverflowError', ExcInst('OverflowError'))
        self.identities(it, name, x)
        return mk_float(LIBM[name](x))

    def identities(self, it, name, x):
        """ defining identities of the statement (C16), assumed as mathematics about the uninterpreted real functions """
        ax = it.ctx.axiom
        L = LIBM
        if name == 'sqrt':
            ax(z3.Implies(x >= 0, z3.And(L['sqrt'](x) >= 0, L['sqrt'](x) * L['sqrt'](x) == x)))
        elif name == 'log':
            ax(z3.Implies(x == 1, L['log'](x) == 0))
        elif name == 'acosh':
            ax(z3.Implies(x >= 1, L['acosh'](x) == L['log'](x + L['sqrt'](x * x - 1))))
        elif name == 'acot':
            ax(z3.Implies(x != 0, L['acot'](x) == L['atan'](1 / x)))
            ax(z3.Implies(x == 0, L['acot'](x) == PI / 2))
            ax(z3.And(PI > z3.RealVal('3.14159'), PI < z3.RealVal('3.1416')))
        elif name == 'acoth':
            ax(z3.Implies(z3.Or(x > 1, x < -1), L['acoth'](x) == z3.RealVal('1/2') * L['log']((x + 1) / (x - 1))))
        elif name == 'cot':
            ax(z3.Implies(L['sin'](x) != 0, L['cot'](x) == L['cos'](x) / L['sin'](x)))
        elif name == 'exp':
            ax(L['exp'](x) == rpow(E, x))
        elif name == 'log10':
            ax(z3.Implies(x > 0, L['log10'](x) == LIBM2['log'](x, z3.RealVal(10))))

    def x_math_floor(self, it, args, kwargs):
        s, k = _num_kind(it, args[0])
        it.ctx.flags.add('ext:math.floor')
        if k == FLOAT:
            return mk_int(real_floor(s.pay(FLOAT)))
        return mk_int(int_term(it.ctx, s))

    def x_math_ceil(self, it, args, kwargs):
        s, k = _num_kind(it, args[0])
        it.ctx.flags.add('ext:math.ceil')
        if k == FLOAT:
            return mk_int(real_ceil(s.pay(FLOAT)))
        return mk_int(int_term(it.ctx, s))

    def x_math_isnan(self, it, args, kwargs):
        s, k = _num_kind(it, args[0])
        it.ctx.flags.add('finite_floats')
        return False

    def x_math_isinf(self, it, args, kwargs):
        s, k = _num_kind(it, args[0])
        it.ctx.flags.add('finite_floats')
        return False

    def x_math_factorial(self, it, args, kwargs):
        s, k = _num_kind(it, args[0])
        if k == FLOAT:
            raise PyRaise('TypeError', ExcInst('TypeError'))
        n = int_term(it.ctx, s)
        if it.ctx.branch(n < 0):
            raise PyRaise('ValueError', ExcInst('ValueError'))
        it.ctx.flags.add('ext:math.factorial')
        return mk_int(py_factorial(n))

    def x_fnmatch_fnmatch(self, it, args, kwargs):
        a, b = args
        sa, sb = as_sym(a), as_sym(b)
        ka, kb = it.ctx.narrow(sa), it.ctx.narrow(sb)
        if ka != STR or kb != STR:
            if OBJ in (ka, kb):
                raise OutOfReach('fnmatch on host object')
            # fnmatch on non-strings: os.path.normcase raises TypeError
            raise PyRaise('TypeError', ExcInst('TypeError'))
        it.ctx.flags.add('ext:fnmatch.fnmatch')
        return mk_bool(fnmatch_f(sa.pay(STR), sb.pay(STR)))

    def x_dateutil_parser_parse(self, it, args, kwargs):
        """ assumed contract of dateutil.parser.parse(text): a datetime that is a function of the text AND of the current
            date (missing fields are filled from today), or ValueError / OverflowError """
        s = as_sym(args[0])
        if it.ctx.narrow(s) != STR:
            raise PyRaise('TypeError', ExcInst('TypeError'))
        it.ctx.flags.add('ext:dateutil.parser.parse (reads the clock for missing fields)')
        st = s.pay(STR)
        ok = z3.Function('dateutil_ok', z3.StringSort(), z3.IntSort())
        f = z3.Function('dateutil_us', z3.StringSort(), z3.RealSort())
        c = it.ctx.choose([ok(st) == 0, ok(st) == 1, z3.And(ok(st) != 0, ok(st) != 1)])
        if c == 1:
            raise PyRaise('ValueError', ExcInst('ValueError'))
        if c == 2:
            raise PyRaise('OverflowError', ExcInst('OverflowError'))
        it.ctx.axiom(z3.And(f(st) >= 0, f(st) <= z3.RealVal(date_to_us(datetime.datetime(9999, 12, 31, 23, 59, 59, 999999)))))
        return mk_date(f(st))

    def x_random_random(self, it, args, kwargs):
        it.ctx.flags.add('random:random.random')
        r = it.ctx.fresh(z3.RealSort(), 'rand')
        it.ctx.assume(z3.And(r >= 0, r < 1))
        return mk_float(r)

    def x_random_randint(self, it, args, kwargs):
        it.ctx.flags.add('random:random.randint')
        a, b = args
        sa, ka = _num_kind(it, a)
        sb, kb = _num_kind(it, b)
        if ka == FLOAT or kb == FLOAT:
            raise OutOfReach('randint with float bounds')
        x, y = int_term(it.ctx, sa), int_term(it.ctx, sb)
        if it.ctx.branch(x > y):
            raise PyRaise('ValueError', ExcInst('ValueError'))
        r = it.ctx.fresh(z3.IntSort(), 'randint')
        it.ctx.assume(z3.And(r >= x, r <= y))
        return mk_int(r)

    def x_re_sub(self, it, args, kwargs):
        pat, repl, s = args[:3]
        if not (isinstance(pat, str) and isinstance(repl, str)):
            raise OutOfReach('re.sub with non-constant pattern')
        if isinstance(s, str):
            import re
            return re.sub(pat, repl, s)
        ss = as_sym(s)
        if it.ctx.narrow(ss) != STR:
            raise PyRaise('TypeError', ExcInst('TypeError'))
        key = (pat, repl)
        if key not in re_sub_f:
            re_sub_f[key] = z3.Function('re_sub_%d' % len(re_sub_f), z3.StringSort(), z3.StringSort())
        it.ctx.flags.add('ext:re.sub(%r,%r)' % key)
        return mk_str(re_sub_f[key](ss.pay(STR)))

    def regex_method(self, it, rx, name, args, kwargs):
        """ compiled.match(s) for patterns anchored at both ends whose groups are top-level: the match object's groups are
            fresh strings constrained by s = g1 g2 ... (some decomposition; exact when the decomposition is unique) """
        from . import lexre
        ctx = it.ctx
        if name not in ('match', 'search'):
            raise OutOfReach('regex method %s' % name)
        s = args[0]
        if isinstance(s, str):
            import re
            m = getattr(re.compile(rx.pattern, rx.flags), name)(s)
            if m is None:
                return None
            groups = tuple(m.groups())
            gd = m.groupdict()
            return Obj(NamedTupleClass('Match', []), {'groups': Builtin('groups', lambda it2, a, k: groups),
                                                     'group': Builtin('group', lambda it2, a, k: gd[a[0]] if isinstance(a[0], str) else m.group(a[0]))})
        ss = as_sym(s)
        kd = ctx.narrow(ss)
        if kd != STR:
            if kd == OBJ:
                raise OutOfReach('regex match on host object')
            raise PyRaise('TypeError', ExcInst('TypeError'))
        try:
            P = lexre.Parsed(rx.pattern, rx.flags)
            if not P.begin or P.end is None:
                raise lexre.Unsupported('only fully anchored patterns are modelled for match()')
            parts = P.flat_parts()
            lang = P.fullmatch_language()
        except lexre.Unsupported as u:
            raise OutOfReach('regex %r: %s' % (rx.pattern, u))
        ctx.flags.add('ext:re (pattern %r as z3 regex)' % rx.pattern)
        st = ss.pay(STR)
        if not ctx.branch(z3.InRe(st, lang)):
            return None
        pieces = []
        groups = {}
        for i, (rgx, gno, optional) in enumerate(parts):
            g = ctx.fresh(z3.StringSort(), 'grp%d' % i)
            if optional:
                if ctx.branch(z3.Length(g) == 0):
                    if gno is not None:
                        groups[gno] = None
                    pieces.append(g)
                    continue
            ctx.assume(z3.InRe(g, rgx))
            pieces.append(g)
            if gno is not None:
                groups[gno] = mk_str(g)
        whole = z3.Concat(*pieces) if len(pieces) > 1 else pieces[0]
        if P.end == '$':
            if ctx.branch(st == whole):
                pass
            else:
                ctx.assume(st == z3.Concat(whole, z3.StringVal('\n')))
        else:
            ctx.assume(st == whole)
        tup = tuple(groups.get(i + 1) for i in range(P.ngroups))
        return Obj(NamedTupleClass('Match', []), {'groups': Builtin('groups', lambda it2, a, k: tup)})

    def x_collections_defaultdict(self, it, args, kwargs):
        from .interp import T_LIST
        if len(args) == 1 and args[0] is T_LIST:
            return DDict()
        raise OutOfReach('defaultdict of %r' % (args,))

    def _stat(self, it, name, args, minlen=1):
        """ statistics.<name>(data): an uninterpreted function of the data sequence; StatisticsError on too few data """
        seq = args[0]
        if isinstance(seq, (list, tuple)):
            try:
                seq = mk_list(ACC[LIST][0](to_val(seq)))
            except Unliftable as u:
                raise OutOfReach(str(u))
        if not isinstance(seq, Sym) or it.ctx.narrow(seq) != LIST:
            raise OutOfReach('statistics.%s of %r' % (name, seq))
        it.ctx.flags.add('ext:statistics.' + name)
        s = seq.pay(LIST)
        if it.ctx.branch(z3.Length(s) < minlen):
            raise PyRaise('StatisticsError', ExcInst('StatisticsError'))
        f = z3.Function('stat_' + name, SeqVal, Val)
        r = Sym(f(s), (INT, FLOAT))
        it.ctx.axiom(z3.Or(REC[INT](f(s)), REC[FLOAT](f(s))))
        return r

    def x_statistics_mean(self, it, args, kwargs):
        return self._stat(it, 'mean', args)

    def x_statistics_median(self, it, args, kwargs):
        return self._stat(it, 'median', args)

    def x_statistics_mode(self, it, args, kwargs):
        return self._stat(it, 'mode', args)

    def x_statistics_variance(self, it, args, kwargs):
        return self._stat(it, 'variance', args, 2)

    def x_statistics_pvariance(self, it, args, kwargs):
        return self._stat(it, 'pvariance', args)

    def x_statistics_stdev(self, it, args, kwargs):
        return self._stat(it, 'stdev', args, 2)

    def x_statistics_pstdev(self, it, args, kwargs):
        return self._stat(it, 'pstdev', args)

    def x_traceback_print_exc(self, it, args, kwargs):
        it.ctx.log.append(('stderr', 'traceback.print_exc'))
        return None

    def x_traceback_format_exc(self, it, args, kwargs):
        # some text that is not under our control
        return mk_str(it.ctx.fresh(z3.StringSort(), 'tbtext'))

    def x_functools_reduce(self, it, args, kwargs):
        # reduce(operator.mul, data): the product of the data as an uninterpreted function of the sequence (like sum / statistics.*);
        # TypeError on no data
        fn = args[0]
        if len(args) == 2 and not kwargs and isinstance(fn, ExtRef) and fn.dotted == 'operator.mul':
            seq = args[1]
            if isinstance(seq, (list, tuple)):
                try:
                    seq = mk_list(ACC[LIST][0](to_val(seq)))
                except Unliftable as u:
                    raise OutOfReach(str(u))
            if not isinstance(seq, Sym) or it.ctx.narrow(seq) != LIST:
                raise OutOfReach('reduce over %r' % (seq,))
            ek = self.world.elem_kinds(seq)
            if not ek <= NUMERIC:
                raise OutOfReach('product over a sequence that may hold non-numbers')
            it.ctx.flags.add('ext:reduce(operator.mul)')
            s = seq.pay(LIST)
            if it.ctx.branch(z3.Length(s) == 0):
                raise PyRaise('TypeError', ExcInst('TypeError'))
            f = z3.Function('stat_product', SeqVal, Val)
            it.ctx.axiom(z3.Or(REC[INT](f(s)), REC[FLOAT](f(s))))
            return Sym(f(s), (INT, FLOAT))
        raise OutOfReach('functools.reduce')

    def x_statistics_product(self, it, args, kwargs):
        # spec side: stat('product', data)
        return self.x_functools_reduce(it, [ExtRef('operator.mul'), args[0]], {})

    def e_timedelta(self, it, args, kwargs):
        if args:
            raise OutOfReach('timedelta positional args')
        us = z3.RealVal(0)
        for k, mult in (('days', 86400 * 10**6), ('seconds', 10**6), ('microseconds', 1), ('milliseconds', 1000),
                        ('minutes', 60 * 10**6), ('hours', 3600 * 10**6)):
            if k in kwargs:
                s, kk = _num_kind(it, kwargs[k])
                us = us + real_term(it.ctx, s) * mult
        it.ctx.flags.add('timedelta_exact_us')
        return TDelta(z3.simplify(us))

    # ------------------------------------------------------------------ attributes / methods of values
    def value_attr(self, it, base, name):
        if isinstance(base, TDelta) or isinstance(base, datetime.timedelta):
            if name == 'total_seconds':
                us = base.us if isinstance(base, TDelta) else z3.RealVal(int(base.total_seconds() * 10**6))
                return Builtin('total_seconds', lambda it2, a, k: mk_float(us / 10**6))
            if isinstance(base, datetime.timedelta) and name in ('days', 'seconds', 'microseconds'):
                return getattr(base, name)
            raise OutOfReach('timedelta.%s' % name)
        if isinstance(base, ExcInst):
            raise OutOfReach('attribute %s of exception' % name)
        if name == 'args' and (isinstance(base, Err) or (isinstance(base, Sym) and ERR in base.kinds)):
            # an error value is an exception instance built from its message: args == (message,)
            if isinstance(base, Err) or it.ctx.narrow(base) == ERR:
                return (self.b_str(it, [base], {}),)
        if isinstance(base, dict):
            if name == 'get':
                def dget(it2, a, k, _d=base):
                    key = a[0]
                    default = a[1] if len(a) > 1 else None
                    if isinstance(key, Sym):
                        for kk in _d:
                            if it2.truth(self.world.ops.compare(it2, 'Eq', key, kk)):
                                return _d[kk]
                        return default
                    try:
                        return _d.get(key, default)
                    except TypeError:
                        raise PyRaise('TypeError', ExcInst('TypeError'))
                return Builtin('dict.get', dget)
            if name in ('items', 'keys', 'values'):
                return Builtin('dict.' + name, lambda it2, a, k, _d=base: [tuple(x) if name == 'items' else x for x in getattr(_d, name)()])
            if name in ('update', 'copy', 'clear', 'pop', 'setdefault'):
                def dmut(it2, a, k, _d=base, _n=name):
                    # concrete keys only (the keys of a symbolic mapping live in SymMapView, not here)
                    if _n == 'copy' and not a:
                        return dict(_d)
                    if _n == 'clear' and not a:
                        self.world.note_write(it2, _d, _n)
                        _d.clear()
                        return None
                    if _n == 'update' and len(a) <= 1 and all(isinstance(x, str) for x in k):
                        other = a[0] if a else {}
                        if isinstance(other, dict) and all(not isinstance(x, Sym) for x in other):
                            self.world.note_write(it2, _d, _n)
                            _d.update(other)
                            _d.update(k)
                            return None
                    if _n in ('pop', 'setdefault') and a and not isinstance(a[0], Sym):
                        self.world.note_write(it2, _d, _n)
                        try:
                            return getattr(_d, _n)(*a)
                        except KeyError:
                            raise PyRaise('KeyError', ExcInst('KeyError'))
                        except TypeError:
                            raise PyRaise('TypeError', ExcInst('TypeError'))
                    raise OutOfReach('dict.%s with these arguments' % _n)
                return Builtin('dict.' + name, dmut)
            raise OutOfReach('dict.%s' % name)
        if isinstance(base, list) and name in ('append', 'extend', 'insert', 'pop', 'sort', 'reverse', 'remove', 'clear'):
            def mut(it2, a, k, _l=base, _n=name):
                self.world.note_write(it2, _l, _n)
                if _n == 'append':
                    _l.append(a[0])
                    return None
                if _n == 'extend' and isinstance(a[0], (list, tuple)):
                    _l.extend(a[0])
                    return None
                if _n == 'pop' and (not a or is_plain_index(a[0])):
                    if not _l:
                        raise PyRaise('IndexError', ExcInst('IndexError'))
                    return _l.pop(*a)
                if _n == 'clear':
                    del _l[:]
                    return None
                raise OutOfReach('list.%s' % _n)
            return Builtin('list.' + name, mut)
        if isinstance(base, Sym) and name in ('append', 'extend', 'insert', 'pop', 'sort', 'reverse', 'remove', 'clear'):
            def mut2(it2, a, k, _s=base, _n=name):
                kk = it2.ctx.narrow(_s)
                if kk != LIST:
                    raise PyRaise('AttributeError', ExcInst('AttributeError'))
                self.world.note_write(it2, _s, _n)
                if _n == 'append' and len(a) == 1:
                    # in-place: every alias of this list object sees the new item (Sym objects are the heap objects)
                    try:
                        _s.val = CON[LIST](z3.Concat(_s.pay(LIST), z3.Unit(to_val(a[0]))))
                    except Unliftable as u:
                        raise OutOfReach('append: %s' % u)
                    return None
                raise OutOfReach('in-place mutation of symbolic list (.%s)' % _n)
            return Builtin('list.' + name, mut2)
        if isinstance(base, datetime.datetime) and name in date_field or (isinstance(base, Sym) and name in date_field) \
                or name in ('weekday', 'time', 'date', 'strftime'):
            return self.date_attr(it, base, name)
        # string methods
        if isinstance(base, str) or isinstance(base, Sym):
            return Builtin('str.' + name, lambda it2, a, k, _b=base, _n=name: self.str_method(it2, _b, _n, a, k))
        if base is None or isinstance(base, (bool, int, float, Err, list, tuple)):
            if isinstance(base, (list, tuple)) and name in ('index', 'count'):
                raise OutOfReach('list.%s' % name)
            if isinstance(base, float) and name == 'is_integer':
                return Builtin('is_integer', lambda it2, a, k: base.is_integer())
            raise PyRaise('AttributeError', ExcInst('AttributeError'))
        raise OutOfReach('attribute %s of %r' % (name, type(base).__name__))

    def date_attr(self, it, base, name):
        ctx = it.ctx
        if isinstance(base, datetime.datetime):
            if name in date_field and name != 'weekday':
                return getattr(base, name)
            if name == 'weekday':
                return Builtin('weekday', lambda it2, a, k: base.weekday())
            raise OutOfReach('datetime.%s' % name)
        s = base
        k = ctx.narrow(s)
        if k != DATE:
            if k == OBJ:
                raise OutOfReach('attribute of host object')
            raise PyRaise('AttributeError', ExcInst('AttributeError'))
        us = s.pay(DATE)
        ctx.flags.add('ext:datetime fields')
        if name in date_field and name != 'weekday':
            self.world.axioms.date_fields(it, us)
            return mk_int(date_field[name](us))
        if name == 'weekday':
            self.world.axioms.date_fields(it, us)
            return Builtin('weekday', lambda it2, a, kk: mk_int(date_field['weekday'](us)))
        raise OutOfReach('datetime.%s' % name)

    def str_method(self, it, base, name, args, kwargs):
        ctx = it.ctx
        if isinstance(base, str) and all(isinstance(a, (str, int)) or a is None for a in args) and not kwargs:
            if name in ('upper', 'lower', 'title', 'strip', 'replace', 'find', 'rjust', 'ljust', 'isdigit', 'startswith',
                        'endswith', 'split', 'lstrip', 'rstrip', 'count', 'index', 'zfill'):
                return native(getattr(base, name), *args)
        if name == 'join':
            return self.str_join(it, base, args[0])
        sb = as_sym(base)
        kb = ctx.narrow(sb)
        if kb != STR:
            if kb == OBJ:
                raise OutOfReach('method %s of host object' % name)
            if kb == LIST and name in ('index', 'count'):
                raise OutOfReach('list.%s' % name)
            raise PyRaise('AttributeError', ExcInst('AttributeError'))
        s = sb.pay(STR)

        def str_arg(a):
            sa = as_sym(a)
            if ctx.narrow(sa) != STR:
                raise PyRaise('TypeError', ExcInst('TypeError'))
            return sa.pay(STR)
        if name == 'upper':
            ctx.flags.add('ext:str.upper')
            self.world.axioms.case_fn(it, 'upper', s)
            return mk_str(py_upper(s))
        if name == 'lower':
            ctx.flags.add('ext:str.lower')
            self.world.axioms.case_fn(it, 'lower', s)
            return mk_str(py_lower(s))
        if name == 'title':
            ctx.flags.add('ext:str.title')
            return mk_str(py_title(s))
        if name == 'strip':
            if not args or args[0] is None:
                ctx.flags.add('ext:str.strip()')
                return mk_str(py_strip_ws(s))
            ctx.flags.add('ext:str.strip(chars)')
            return mk_str(py_strip_chars(s, str_arg(args[0])))
        if name == 'replace':
            if len(args) != 2:
                raise OutOfReach('str.replace with count')
            old, new = str_arg(args[0]), str_arg(args[1])
            return mk_str(self.world.axioms.replace_all(it, s, old, new))
        if name == 'find':
            if len(args) != 1:
                raise OutOfReach('str.find with bounds')
            return mk_int(z3.IndexOf(s, str_arg(args[0]), 0))
        if name == 'rjust':
            w = as_sym(args[0])
            if ctx.narrow(w) not in (INT, BOOL):
                raise PyRaise('TypeError', ExcInst('TypeError'))
            fill = args[1] if len(args) > 1 else ' '
            if not (isinstance(fill, str) and len(fill) == 1):
                raise OutOfReach('rjust fill')
            f = z3.Function('py_repeat_' + str(ord(fill)), z3.IntSort(), z3.StringSort())
            wt = int_term(ctx, w)
            n = z3.Length(s)
            ctx.axiom(z3.Length(f(wt - n)) == z3.If(wt - n > 0, wt - n, 0))
            ctx.flags.add('ext:str.rjust')
            return mk_str(z3.If(wt > n, z3.Concat(f(wt - n), s), s))
        if name == 'startswith':
            return mk_bool(z3.PrefixOf(str_arg(args[0]), s))
        if name == 'endswith':
            return mk_bool(z3.SuffixOf(str_arg(args[0]), s))
        raise OutOfReach('str.%s on symbolic string' % name)

    def str_join(self, it, sep, items):
        ctx = it.ctx
        if isinstance(items, (list, tuple)):
            if isinstance(sep, str) and all(isinstance(x, str) for x in items):
                return sep.join(items)
            ssep = as_sym(sep)
            if ctx.narrow(ssep) != STR:
                raise PyRaise('AttributeError', ExcInst('AttributeError'))
            parts = []
            for i, x in enumerate(items):
                sx = as_sym(x)
                if ctx.narrow(sx) != STR:
                    raise PyRaise('TypeError', ExcInst('TypeError'))
                if i:
                    parts.append(ssep.pay(STR))
                parts.append(sx.pay(STR))
            if not parts:
                return ''
            return mk_str(z3.simplify(z3.Concat(*parts)) if len(parts) > 1 else parts[0])
        if isinstance(items, Sym):
            ssep = as_sym(sep)
            if ctx.narrow(ssep) != STR:
                raise PyRaise('AttributeError', ExcInst('AttributeError'))
            k = ctx.narrow(items)
            if k == LIST:
                return self.world.axioms.join(it, ssep.pay(STR), items)
            if k == STR:
                raise OutOfReach('join over the characters of a symbolic string')
            raise PyRaise('TypeError', ExcInst('TypeError'))
        raise OutOfReach('join over %r' % (items,))

    # ------------------------------------------------------------------ builtin functions
    def b_len(self, it, args, kwargs):
        v = args[0]
        if isinstance(v, Prod):
            return len(v.vals)
        if isinstance(v, (list, tuple, str, dict)):
            return len(v)
        if isinstance(v, Sym):
            k = it.ctx.narrow(v)
            if k == STR:
                return mk_int(z3.Length(v.pay(STR)))
            if k == LIST:
                return mk_int(z3.Length(v.pay(LIST)))
            if k == OBJ:
                raise OutOfReach('len of host object')
            raise PyRaise('TypeError', ExcInst('TypeError'))
        if isinstance(v, Obj) and isinstance(v.cls, NamedTupleClass):
            return len(v.cls.fields)
        if v is None or isinstance(v, (bool, int, float, Err, datetime.datetime)):
            raise PyRaise('TypeError', ExcInst('TypeError'))
        raise OutOfReach('len of %r' % (v,))

    def b_str(self, it, args, kwargs):
        if not args:
            return ''
        v = args[0]
        ctx = it.ctx
        if isinstance(v, SliceSym):
            return v.name
        if isinstance(v, Err):
            return ERR_MSGS[v.code]
        if isinstance(v, (str, int, float, bool)) or v is None:
            if isinstance(v, float):
                return repr(v)
            return str(v)
        if isinstance(v, ExcInst):
            # str() of a foreign exception: some text that is not under our control
            if v.cls == 'XLError':
                raise OutOfReach('str of XLError instance')
            if len(v.args) == 1 and isinstance(v.args[0], (str, Sym)):
                a = v.args[0]
                if isinstance(a, str):
                    return a
            # the same exception object has one text, however often it is asked for
            if getattr(v, 'text', None) is None:
                v.text = mk_str(ctx.fresh(z3.StringSort(), 'excmsg'))
            return v.text
        if isinstance(v, Sym):
            k = ctx.narrow(v)
            if k == STR:
                return v
            if k == INT:
                ctx.flags.add('ext:str(int)')
                t = v.pay(INT)
                self.world.axioms.str_int(it, t)
                return mk_str(py_str_int(t))
            if k == BOOL:
                return mk_str(z3.If(v.pay(BOOL), z3.StringVal('True'), z3.StringVal('False')))
            if k == NONE:
                return 'None'
            if k == FLOAT:
                ctx.flags.add('ext:str(float)')
                return mk_str(py_str_float(v.pay(FLOAT)))
            if k == ERR:
                c = v.pay(ERR)
                t = z3.StringVal(ERR_MSGS[8])
                for i in range(7, -1, -1):
                    t = z3.If(c == i, z3.StringVal(ERR_MSGS[i]), t)
                return mk_str(z3.simplify(z3.If(z3.And(c >= 0, c <= 8), t, errmsg(c))))
            if k == DATE:
                ctx.flags.add('ext:str(datetime)')
                f = z3.Function('py_str_date', z3.RealSort(), z3.StringSort())
                return mk_str(f(v.pay(DATE)))
            if k == OBJ:
                # host object: __str__ is host code
                return self.world.call_host(it, HostFn('__str__'), [v], {}, want=STR)
            raise OutOfReach('str of symbolic %s' % k)
        if isinstance(v, (list, tuple)):
            raise OutOfReach('str of list')
        if isinstance(v, datetime.datetime):
            return str(v)
        raise OutOfReach('str of %r' % (v,))

    def b_repr(self, it, args, kwargs):
        raise OutOfReach('repr')

    def b_print(self, it, args, kwargs):
        it.ctx.log.append(('stdout', 'print'))
        return None

    def b_int(self, it, args, kwargs):
        ctx = it.ctx
        if not args:
            return 0
        v = args[0]
        if len(args) == 2 or 'base' in kwargs:
            base = args[1] if len(args) == 2 else kwargs['base']
            if isinstance(v, str) and is_plain_index(base):
                return native(int, v, base)
            sv, sbase = as_sym(v), as_sym(base)
            if ctx.narrow(sv) != STR:
                raise PyRaise('TypeError', ExcInst('TypeError'))
            kb = ctx.narrow(sbase)
            if kb not in (INT, BOOL):
                raise PyRaise('TypeError', ExcInst('TypeError'))
            b = int_term(ctx, sbase)
            if not ctx.branch(z3.Or(b == 0, z3.And(b >= 2, b <= 36))):
                raise PyRaise('ValueError', ExcInst('ValueError'))
            ctx.flags.add('ext:int(text,base)')
            if not ctx.branch(py_int_base_ok(sv.pay(STR), b)):
                raise PyRaise('ValueError', ExcInst('ValueError'))
            self.world.axioms.int_base(it, sv.pay(STR), b)
            return mk_int(py_int_base(sv.pay(STR), b))
        if isinstance(v, (int, float, bool)):
            return native(int, v)
        if isinstance(v, str):
            return native(int, v)
        if v is None or isinstance(v, (Err, list, tuple, datetime.datetime)):
            raise PyRaise('TypeError', ExcInst('TypeError'))
        if isinstance(v, Sym):
            k = ctx.narrow(v)
            if k == INT:
                return v
            if k == BOOL:
                return mk_int(int_term(ctx, v))
            if k == FLOAT:
                ctx.flags.add('finite_floats')
                return mk_int(real_trunc(v.pay(FLOAT)))
            if k == STR:
                s = v.pay(STR)
                ctx.flags.add('ext:int(text)')
                self.world.axioms.int_text(it, s)
                if not ctx.branch(py_int_ok(s)):
                    raise PyRaise('ValueError', ExcInst('ValueError'))
                return mk_int(py_int(s))
            if k == OBJ:
                raise OutOfReach('int of host object')
            raise PyRaise('TypeError', ExcInst('TypeError'))
        raise OutOfReach('int of %r' % (v,))

    def b_float(self, it, args, kwargs):
        ctx = it.ctx
        if not args:
            return 0.0
        v = args[0]
        if isinstance(v, (int, float, bool, str)):
            r = native(float, v)
            if r != r or r in (float('inf'), float('-inf')):
                raise OutOfReach('non-finite float literal')
            return r
        if v is None or isinstance(v, (Err, list, tuple, datetime.datetime)):
            raise PyRaise('TypeError', ExcInst('TypeError'))
        if isinstance(v, Sym):
            k = ctx.narrow(v)
            if k == FLOAT:
                return v
            if k in (INT, BOOL):
                ctx.flags.add('int_to_float_exact')
                return mk_float(z3.ToReal(int_term(ctx, v)))
            if k == STR:
                s = v.pay(STR)
                ctx.flags.add('ext:float(text)')
                if not ctx.branch(py_float_ok(s)):
                    raise PyRaise('ValueError', ExcInst('ValueError'))
                ctx.flags.add('finite_floats')
                return mk_float(py_float(s))
            if k == OBJ:
                raise OutOfReach('float of host object')
            raise PyRaise('TypeError', ExcInst('TypeError'))
        raise OutOfReach('float of %r' % (v,))

    def b_bool(self, it, args, kwargs):
        if not args:
            return False
        return it.truth(args[0])

    def b_abs(self, it, args, kwargs):
        v = args[0]
        if plain(v) and not isinstance(v, (str, list, tuple)) and v is not None:
            return native(abs, v)
        if isinstance(v, Err) or v is None or isinstance(v, (str, list, tuple)):
            raise PyRaise('TypeError', ExcInst('TypeError'))
        s, k = _num_kind(it, v)
        if k == FLOAT:
            t = s.pay(FLOAT)
            return mk_float(z3.If(t >= 0, t, -t))
        t = int_term(it.ctx, s)
        return mk_int(z3.If(t >= 0, t, -t))

    def _minmax(self, it, args, kwargs, is_max):
        if kwargs:
            raise OutOfReach('min/max with key')
        if len(args) == 1:
            seq = args[0]
            if isinstance(seq, (list, tuple)):
                args = list(seq)
                if not args:
                    raise PyRaise('ValueError', ExcInst('ValueError'))
            elif isinstance(seq, Sym):
                k = it.ctx.narrow(seq)
                if k != LIST:
                    raise PyRaise('TypeError', ExcInst('TypeError'))
                return self.world.axioms.fold(it, 'max' if is_max else 'min', seq)
            else:
                raise OutOfReach('min/max of %r' % (seq,))
        best = args[0]
        for x in args[1:]:
            r = self.world.ops.compare(it, 'Gt' if is_max else 'Lt', x, best)
            if it.truth(r):
                best = x
        return best

    def b_min(self, it, args, kwargs):
        return self._minmax(it, args, kwargs, False)

    def b_max(self, it, args, kwargs):
        return self._minmax(it, args, kwargs, True)

    def b_sum(self, it, args, kwargs):
        seq = args[0]
        start = args[1] if len(args) > 1 else 0
        if isinstance(seq, (list, tuple)):
            acc = start
            for x in seq:
                acc = self.world.ops.binop(it, 'Add', acc, x)
            return acc
        if isinstance(seq, Sym):
            k = it.ctx.narrow(seq)
            if k != LIST:
                raise PyRaise('TypeError', ExcInst('TypeError'))
            if start != 0:
                raise OutOfReach('sum with start')
            return self.world.axioms.fold(it, 'sum', seq)
        raise OutOfReach('sum of %r' % (seq,))

    def b_any(self, it, args, kwargs):
        seq = args[0]
        if isinstance(seq, (list, tuple)):
            for x in seq:
                if it.truth(x):
                    return True
            return False
        if isinstance(seq, Sym):
            return self.world.axioms.quant_truth(it, seq, False)
        raise OutOfReach('any of %r' % (seq,))

    def b_all(self, it, args, kwargs):
        seq = args[0]
        if isinstance(seq, (list, tuple)):
            for x in seq:
                if not it.truth(x):
                    return False
            return True
        if isinstance(seq, Sym):
            return self.world.axioms.quant_truth(it, seq, True)
        raise OutOfReach('all of %r' % (seq,))

    def kinds_of_types(self, it, t):
        ts = t if isinstance(t, tuple) else (t,)
        kinds = set()
        complex_in = False
        names = []
        for x in ts:
            if isinstance(x, tuple):
                k2, n2, c2 = self.kinds_of_types(it, x)
                kinds |= k2
                names += n2
                complex_in = complex_in or c2
                continue
            if isinstance(x, (TypeRef, ExcClass)):
                nm = x.name
            elif isinstance(x, ClassRef):
                nm = 'class:' + x.fullname
            elif isinstance(x, NamedTupleClass):
                nm = 'nt:' + x.name
            else:
                raise OutOfReach('isinstance against %r' % (x,))
            names.append(nm)
            if nm == 'complex':
                complex_in = True
            kinds |= set(TYPE_KINDS.get(nm, ()))
        return kinds, names, complex_in

    def b_isinstance(self, it, args, kwargs):
        v, t = args
        ctx = it.ctx
        kinds, names, complex_in = self.kinds_of_types(it, t)
        if isinstance(v, Sym):
            if 'list' in names and 'tuple' not in names and v.is_tuple:
                kinds = kinds - {LIST}
            if 'tuple' in names and 'list' not in names and not v.is_tuple:
                kinds = kinds - {LIST}
            if OBJ in v.kinds and complex_in:
                if ctx.test_kinds(v, (OBJ,)):
                    return ctx.branch(v.pay(OBJ, 0) == CLS_COMPLEX)
            elif OBJ in v.kinds and OBJ in kinds and not complex_in:
                pass
            return ctx.test_kinds(v, kinds - ({OBJ} if complex_in else set()))
        if isinstance(v, Obj):
            for nm in names:
                if isinstance(v.cls, ClassRef) and nm == 'class:' + v.cls.fullname:
                    return True
                if isinstance(v.cls, NamedTupleClass) and nm in ('nt:' + v.cls.name, 'tuple'):
                    return True
                if nm == 'object':
                    return True
            return False
        if isinstance(v, (Closure, FuncRef, Builtin, HostFn)):
            return 'object' in names
        if isinstance(v, ExcInst):
            return any(exc_isinstance(v.cls, nm) for nm in names)
        if isinstance(v, TDelta):
            return False
        k = kinds_of_concrete(v)
        if k is None:
            if isinstance(v, dict):
                return 'dict' in names
            raise OutOfReach('isinstance of %r' % (v,))
        if k == LIST:
            return ('list' in names and isinstance(v, list)) or ('tuple' in names and isinstance(v, tuple)) or 'object' in names
        return k in kinds

    def b_type(self, it, args, kwargs):
        v = args[0]
        if isinstance(v, Sym):
            k = it.ctx.narrow(v)
            if k == OBJ:
                if it.ctx.branch(v.pay(OBJ, 0) == CLS_COMPLEX):
                    return T_COMPLEX
                raise OutOfReach('type of host object')
            if k == LIST and v.is_tuple:
                return T_TUPLE
            return KIND_TYPE[k]
        k = kinds_of_concrete(v)
        if k is None:
            raise OutOfReach('type of %r' % (v,))
        if isinstance(v, tuple):
            return T_TUPLE
        return KIND_TYPE[k]

    def b_ord(self, it, args, kwargs):
        v = args[0]
        if isinstance(v, str):
            return native(ord, v)
        if isinstance(v, Sym):
            k = it.ctx.narrow(v)
            if k == STR:
                s = v.pay(STR)
                if not it.ctx.branch(z3.Length(s) == 1):
                    raise PyRaise('TypeError', ExcInst('TypeError'))
                return mk_int(z3.StrToCode(s))
            if k == OBJ:
                raise OutOfReach('ord of host object')
        raise PyRaise('TypeError', ExcInst('TypeError'))

    def b_chr(self, it, args, kwargs):
        v = args[0]
        if is_plain_index(v) or isinstance(v, bool):
            return native(chr, v)
        if isinstance(v, Sym):
            k = it.ctx.narrow(v)
            if k in (INT, BOOL):
                i = int_term(it.ctx, v)
                if not it.ctx.branch(z3.And(i >= 0, i <= 0x10FFFF)):
                    raise PyRaise('ValueError', ExcInst('ValueError'))
                if it.ctx.branch(i > 0x2FFFF):
                    raise OutOfReach('chr beyond the solver alphabet')
                return mk_str(z3.StrFromCode(i))
            if k == OBJ:
                raise OutOfReach('chr of host object')
        raise PyRaise('TypeError', ExcInst('TypeError'))

    def b_hex(self, it, args, kwargs):
        v = args[0]
        if is_plain_index(v):
            return hex(v)
        if isinstance(v, Sym):
            k = it.ctx.narrow(v)
            if k in (INT, BOOL):
                it.ctx.flags.add('ext:hex')
                i = int_term(it.ctx, v)
                self.world.axioms.hex(it, i)
                return mk_str(py_hex(i))
            if k == OBJ:
                raise OutOfReach('hex of host object')
        raise PyRaise('TypeError', ExcInst('TypeError'))

    def b_range(self, it, args, kwargs):
        if all(is_plain_index(a) for a in args):
            return list(range(*args))
        return SymRange(it, args)

    def b_zip(self, it, args, kwargs):
        if all(isinstance(a, (list, tuple)) for a in args):
            return [tuple(x) for x in zip(*args)]
        return SymZip(list(args))

    def b_enumerate(self, it, args, kwargs):
        start = args[1] if len(args) > 1 else kwargs.get('start', 0)
        if isinstance(args[0], (list, tuple)) and is_plain_index(start):
            return [tuple(x) for x in enumerate(args[0], start)]
        return SymEnumerate(args[0], start)

    def b_list(self, it, args, kwargs):
        if not args:
            return []
        v = args[0]
        if isinstance(v, (list, tuple)):
            return list(v)
        if isinstance(v, Sym):
            k = it.ctx.narrow(v)
            if k == LIST:
                r = mk_list(v.pay(LIST))
                self.world.copy_elem_kinds(v, r)
                r.fresh = True
                return r
            if k == STR:
                raise OutOfReach('list of symbolic string')
            if k == OBJ:
                raise OutOfReach('list of host object')
            raise PyRaise('TypeError', ExcInst('TypeError'))
        if isinstance(v, (SymRange, SymZip, SymEnumerate)):
            raise OutOfReach('list() of symbolic iterator')
        if isinstance(v, str):
            return list(v)
        raise OutOfReach('list of %r' % (v,))

    def b_tuple(self, it, args, kwargs):
        if not args:
            return ()
        v = args[0]
        if isinstance(v, (list, tuple)):
            return tuple(v)
        raise OutOfReach('tuple of %r' % (v,))

    def b_sorted(self, it, args, kwargs):
        v = args[0]
        if isinstance(v, (list, tuple)) and all(plain(x) for x in v) and not kwargs:
            return native(sorted, v)
        if isinstance(v, Sym) and it.ctx.narrow(v) == LIST and not kwargs:
            return self.world.axioms.sorted(it, v)
        raise OutOfReach('sorted of %r' % (v,))

    def b_round(self, it, args, kwargs):
        if all(plain(a) for a in args):
            return native(round, *args)
        ctx = it.ctx
        s, k = _num_kind(it, args[0])
        ctx.flags.add('ext:round')
        if len(args) == 1 or args[1] is None:
            if k == FLOAT:
                return mk_int(py_round0(s.pay(FLOAT)))
            return mk_int(int_term(ctx, s))
        d = as_sym(args[1])
        kd = ctx.narrow(d)
        if kd not in (INT, BOOL):
            raise PyRaise('TypeError', ExcInst('TypeError'))
        dt = int_term(ctx, d)
        if k == FLOAT:
            return mk_float(py_round(s.pay(FLOAT), dt))
        f = z3.Function('py_round_int', z3.IntSort(), z3.IntSort(), z3.IntSort())
        x = int_term(ctx, s)
        return mk_int(z3.If(dt >= 0, x, f(x, dt)))

    def b_getattr(self, it, args, kwargs):
        # a constant attribute name: the attribute access itself (with CPython's default / AttributeError behaviour)
        if len(args) not in (2, 3) or not isinstance(args[1], str):
            raise OutOfReach('getattr with a computed name')
        try:
            return self.world.ops.getattr(it, args[0], args[1])
        except PyRaise as pr:
            if pr.cls == 'AttributeError' and len(args) == 3:
                return args[2]
            raise

    def b_hasattr(self, it, args, kwargs):
        return self.world.ops.hasattr(it, args[0], args[1])

    def b_iter(self, it, args, kwargs):
        raise OutOfReach('iter()')

    def b_next(self, it, args, kwargs):
        from .world import GenItems
        if args and isinstance(args[0], GenItems):
            if args[0]:
                return args[0].pop(0)
            if len(args) > 1:
                return args[1]
            raise PyRaise('StopIteration', ExcInst('StopIteration'))
        raise OutOfReach('next()')

    def b_super(self, it, args, kwargs):
        raise OutOfReach('super()')

    def b_callable(self, it, args, kwargs):
        raise OutOfReach('callable()')


class SymRange(object):
    """ range() with symbolic bounds: only usable as a loop iterable """
    def __init__(self, it, args):
        ctx = it.ctx
        ts = []
        for a in args:
            s = as_sym(a)
            k = ctx.narrow(s)
            if k not in (INT, BOOL):
                raise PyRaise('TypeError', ExcInst('TypeError'))
            ts.append(int_term(ctx, s))
        if len(ts) == 1:
            self.start, self.stop, self.step = z3.IntVal(0), ts[0], 1
        elif len(ts) == 2:
            self.start, self.stop, self.step = ts[0], ts[1], 1
        else:
            st = z3.simplify(ts[2])
            if not z3.is_int_value(st) or st.as_long() == 0:
                raise OutOfReach('range with symbolic step')
            self.start, self.stop, self.step = ts[0], ts[1], st.as_long()

    def length(self):
        if self.step > 0:
            d = self.stop - self.start
            n = (d + (self.step - 1)) / self.step if self.step != 1 else d
        else:
            d = self.start - self.stop
            n = (d + (-self.step - 1)) / (-self.step) if self.step != -1 else d
        return z3.If(d > 0, n, z3.IntVal(0))

    def item(self, k):
        return mk_int(self.start + k * self.step)


class SymZip(object):
    def __init__(self, parts):
        self.parts = parts


class SymEnumerate(object):
    def __init__(self, seq, start):
        self.seq = seq
        self.start = start
