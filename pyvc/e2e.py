# -*- coding: utf-8 -*-
"""
pyvc.e2e -- bounded end-to-end stand-ins through the real Parser.parse (scratch copy).  Everything here is labelled
*bounded* in the evidence and never counted as proved.  Each function returns (cases, failures) where a failure is a
dict with at least 'formula' and 'detail' and can be replayed with replay_formula().
"""
import itertools
import random
import datetime
import math
from fractions import Fraction


def new_parser(debug=False):
    import hotxlfp
    return hotxlfp.Parser(debug=debug)


def CODES():
    return ['#ERROR!', '#DIV/0!', '#NAME?', '#N/A', '#NULL!', '#NUM!', '#REF!', '#VALUE!', '#GETTING_DATA']


def well_formed(r):
    from hotxlfp.formulas.error import XLError
    if not isinstance(r, dict) or set(r.keys()) != {'result', 'error'}:
        return 'record keys %r' % (r,)
    if r['error'] is not None and r['error'] not in CODES():
        return 'error entry %r is not a canonical code' % (r['error'],)
    if r['error'] is not None and r['result'] is not None:
        return 'error set but result %r' % (r['result'],)
    if isinstance(r['result'], XLError):
        return 'result is an error object'
    return None


# ------------------------------------------------------------------------------------------------ C04 expression trees

ARITH = ['+', '-', '*', '/']
LEVEL = {'<': 0, '>': 0, '=': 0, '<>': 0, '<=': 0, '>=': 0, '+': 1, '-': 1, '*': 2, '/': 2, 'neg': 3}


class Leaf(object):
    def __init__(self, text, value):
        self.text = text
        self.value = value


def gen_tree(rng, nops, leaves, allow_cmp=True):
    """ random tree with nops binary/unary operators; at most one comparison, at the root """
    if nops == 0:
        return ('leaf', rng.choice(leaves))
    if allow_cmp and rng.random() < 0.2:
        k = rng.randint(0, nops - 1)
        return ('bin', rng.choice(['<', '>', '=', '<>', '<=', '>=']), gen_tree(rng, k, leaves, False), gen_tree(rng, nops - 1 - k, leaves, False))
    if rng.random() < 0.2:
        return ('neg', gen_tree(rng, nops - 1, leaves, False))
    k = rng.randint(0, nops - 1)
    return ('bin', rng.choice(ARITH), gen_tree(rng, k, leaves, False), gen_tree(rng, nops - 1 - k, leaves, False))


def all_trees(nops, leaves):
    """ every arithmetic tree (binary + - * / and unary minus) with exactly nops operators over the leaves """
    if nops == 0:
        for l in leaves:
            yield ('leaf', l)
        return
    for t in all_trees(nops - 1, leaves):
        yield ('neg', t)
    for k in range(nops):
        for op in ARITH:
            for l in all_trees(k, leaves):
                for r in all_trees(nops - 1 - k, leaves):
                    yield ('bin', op, l, r)


class DivZero(Exception):
    pass


def eval_tree(t):
    if t[0] == 'leaf':
        return t[1].value
    if t[0] == 'neg':
        return -eval_tree(t[1])
    op, l, r = t[1], eval_tree(t[2]), eval_tree(t[3])
    if op == '+':
        return l + r
    if op == '-':
        return l - r
    if op == '*':
        return l * r
    if op == '/':
        if r == 0:
            raise DivZero()
        return Fraction(l) / Fraction(r)
    return {'<': l < r, '>': l > r, '=': l == r, '<>': l != r, '<=': l <= r, '>=': l >= r}[op]


def render_full(t):
    if t[0] == 'leaf':
        return t[1].text
    if t[0] == 'neg':
        return '(-%s)' % render_full(t[1])
    return '(%s%s%s)' % (render_full(t[2]), t[1], render_full(t[3]))


def render_min(t, parent=-1, right=False):
    """ minimal parentheses under the usual reading (unary minus > * / > + - > comparisons, left associative) """
    if t[0] == 'leaf':
        return t[1].text
    if t[0] == 'neg':
        inner = render_min(t[1], 3, False)
        if t[1][0] == 'neg':
            inner = '(%s)' % render_min(t[1])        # avoid "--"
        s = '-' + inner
        return s
    lv = LEVEL[t[1]]
    s = '%s%s%s' % (render_min(t[2], lv, False), t[1], render_min(t[3], lv, True))
    if lv < parent or (lv == parent and right):
        return '(%s)' % s
    return s


def check_trees(rng, tier):
    leaves = [Leaf('2', 2), Leaf('3', 3), Leaf('5', 5), Leaf('7', 7), Leaf('1.5', Fraction(3, 2)), Leaf('0.25', Fraction(1, 4))]
    p = new_parser()
    cases = 0
    fails = []

    def one(t):
        try:
            expect = eval_tree(t)
        except DivZero:
            return
        for text in (render_min(t), render_full(t), '((%s))' % render_min(t)):
            r = p.parse(text)
            ok = r['error'] is None and matches(r['result'], expect)
            if not ok and len(fails) < 5:
                fails.append({'formula': text, 'detail': 'expected %s got %r' % (expect, r)})
    exhaustive_ops = 3 if tier == 'thorough' else 2
    small = leaves[:3] if tier == 'thorough' else leaves[:2]
    for n in range(0, exhaustive_ops + 1):
        for t in all_trees(n, small):
            one(t)
            cases += 1
    for _ in range(20000 if tier == 'thorough' else 2500):
        one(gen_tree(rng, rng.randint(1, 5 if tier == 'thorough' else 4), leaves))
        cases += 1
    # & chains and & against comparisons
    for a, b, c in itertools.product(['"x"', '2', '"y z"'], repeat=3):
        r = p.parse('%s&%s&%s' % (a, b, c))
        exp = ''.join(x.strip('"') for x in (a, b, c))
        cases += 1
        if r['result'] != exp and len(fails) < 5:
            fails.append({'formula': '%s&%s&%s' % (a, b, c), 'detail': 'expected %r got %r' % (exp, r)})
        r = p.parse('%s&%s=%s' % (a, b, c))
        exp2 = ((a.strip('"') + b.strip('"')) == c.strip('"')) if c.startswith('"') else False
        cases += 1
        if r['result'] is not exp2 and len(fails) < 5:
            fails.append({'formula': '%s&%s=%s' % (a, b, c), 'detail': 'expected %r got %r' % (exp2, r)})
    return cases, fails


def matches(got, expect):
    if isinstance(expect, bool):
        return got is expect
    if isinstance(got, bool) or not isinstance(got, (int, float)):
        return False
    e = float(expect)
    return got == e or abs(got - e) <= 1e-9 * max(abs(e), 1.0)


# ------------------------------------------------------------------------------------------------ C01 totality sweep

def value_pool():
    from hotxlfp.formulas import error
    return [None, True, 0, -2, 3.5, 'abc', '12', '', error.VALUE, error.NOT_AVAILABLE, datetime.datetime(2020, 2, 29, 12),
            [1, 2, 3], [[1, 2], [3, 4]], ['a', None, 2.5], []]


VARS = ['va', 'vb', 'vc', 'vd']     # identifier-shaped, not cell-shaped (v0 would lex as a cell reference)


class Budget(BaseException):
    pass


def run_budgeted(fn, max_lines=400000):
    """ run fn() under a line budget (sys.settrace): a loop that does not terminate is reported instead of hanging """
    import sys
    count = [0]

    def tracer(frame, event, arg):
        if event == 'line':
            count[0] += 1
            if count[0] > max_lines:
                raise Budget()
        return tracer
    old = sys.gettrace()
    sys.settrace(tracer)
    try:
        return fn()
    finally:
        sys.settrace(old)


def run_with_deadline(fn, seconds):
    """ run fn() under a wall-clock alarm (the `re` matcher checks signals while it backtracks) """
    import signal

    def handler(signum, frame):
        raise Budget()
    old = signal.signal(signal.SIGALRM, handler)
    signal.setitimer(signal.ITIMER_REAL, seconds)
    try:
        return fn()
    finally:
        signal.setitimer(signal.ITIMER_REAL, 0)
        signal.signal(signal.SIGALRM, old)


LISTENER_EVENTS = (('callFunction', 'SUM(1)+SUM(2)'), ('callVariable', 'x+x'), ('callCellValue', 'A1+B2'), ('callRangeValue', 'SUM(A1:B2)+SUM(A1:B2)'))
LISTENER_ACTS = ('resubscribe-self', 'subscribe-successor', 'subscribe-once-self', 'unsubscribe-self', 'unsubscribe-all', 'emit-other',
                 'set-variable', 'set-function', 'nested-parse', 'raise-unhashable', 'raise-dict', 'raise-noargs')


def _throw(e):
    raise e


def listener_case(ev, act, text):
    """ one evaluation with a listener of `ev` that does `act` on the emitter / parser during the delivery; '' or what went wrong """
    q = new_parser()

    def lst(*a):
        {'resubscribe-self': lambda: q.on(ev, lst),
         'subscribe-successor': lambda: q.on(ev, lambda *a2: None),
         'subscribe-once-self': lambda: q.once(ev, lst),
         'unsubscribe-self': lambda: q.off(ev, lst),
         'unsubscribe-all': lambda: q.off(ev),
         'emit-other': lambda: q.emit('somethingElse', 1),
         'set-variable': lambda: q.set_variable('x', 5),
         'set-function': lambda: q.set_function('G', lambda *a2: 1),
         'nested-parse': lambda: q.parse('1+1'),
         'raise-unhashable': lambda: _throw(ValueError([1, 2])),
         'raise-dict': lambda: _throw(KeyError({'a': 1})),
         'raise-noargs': lambda: _throw(RuntimeError())}[act]()
        if callable(a[-1]):
            a[-1](3)
    q.on(ev, lst)
    try:
        r = run_budgeted(lambda: q.parse(text))
        return well_formed(r)
    except Budget:
        return 'does not terminate within the line budget'
    except BaseException as ex:
        return 'parse raised %s' % type(ex).__name__


def odd_exceptions():
    from hotxlfp.formulas import error
    return [ValueError([1, 2]), KeyError({'a': 1}), TypeError({1, 2}), RuntimeError(), error.XLError(['#N/A']), error.XLError(), OSError(2, 'x')]


def raising_case(i, text):
    exc = odd_exceptions()[i]
    q = new_parser()
    q.set_function('F', lambda *a: _throw(exc))
    try:
        r = run_budgeted(lambda: q.parse(text))
        return well_formed(r)
    except Budget:
        return 'does not terminate within the line budget'
    except BaseException as ex:
        return 'parse raised %s' % type(ex).__name__


def check_totality(rng, tier, names=None):
    from hotxlfp import formulas
    pool = value_pool()
    p = new_parser()
    names = names or formulas.supported()
    cases = 0
    fails = []
    max_arity = 3 if tier == 'thorough' else 2
    for name in names:
        if name in ('NOW', 'TODAY', 'RAND'):
            pass
        for arity in range(0, max_arity + 1):
            combos = itertools.product(range(len(pool)), repeat=arity)
            if arity == 3:
                combos = [tuple(rng.randrange(len(pool)) for _ in range(3)) for _ in range(150)]
            for combo in combos:
                for i, vi in enumerate(combo):
                    p.set_variable(VARS[i], pool[vi])
                text = '%s(%s)' % (name, ','.join(VARS[i] for i in range(arity)))
                cases += 1
                try:
                    r = run_budgeted(lambda: p.parse(text))
                    bad = well_formed(r)
                except Budget:
                    bad = 'does not terminate within the line budget'
                except BaseException as ex:
                    bad = 'parse raised %s' % type(ex).__name__
                if bad and len(fails) < 5:
                    fails.append({'formula': text, 'bindings': [repr(pool[vi]) for vi in combo], 'binding_idx': list(combo), 'detail': bad})
    # token soups and truncations
    atoms = ['1', '2.5', '"a"', 'A1', '$B$2', 'A1:B2', 'x', 'SUM(', '(', ')', '{', '}', ',', ';', '+', '-', '*', '/', '&', '<', '>=', '<>',
             '=', '%', '^', '.', '#N/A', '#', '!', "'", '"', ' ', '\t', 'é', '中', '\\', ':', 'TRUE', 'IF(1,2,3)', '1/0']
    for _ in range(6000 if tier == 'thorough' else 1500):
        text = ''.join(rng.choice(atoms) for _ in range(rng.randint(1, 8)))
        cases += 1
        try:
            r = run_budgeted(lambda: p.parse(text))
            bad = well_formed(r)
        except Budget:
            bad = 'does not terminate within the line budget'
        except BaseException as ex:
            bad = 'parse raised %s' % type(ex).__name__
        if bad and len(fails) < 5:
            fails.append({'formula': text, 'detail': bad})
    # host callbacks that return every pool value or raise
    from hotxlfp.formulas import error

    class Boom(Exception):
        pass
    outcomes = [('ret', v) for v in pool] + [('ret', error.XLError('custom')), ('raise', ValueError('x')), ('raise', error.NUM),
                                             ('raise', error.XLError('custom raised')), ('raise', Boom()), ('raise', KeyError('k'))]
    for kind, v in outcomes:
        def f(*a, _k=kind, _v=v):
            if _k == 'raise':
                raise _v
            return _v
        q = new_parser()
        q.set_function('F', f)
        for text in ('F()', 'F(1)+1', 'IFERROR(F(),7)', 'SUM(F(),1)', '-F()', 'F()&"a"', 'F()=1'):
            cases += 1
            try:
                r = q.parse(text)
                bad = well_formed(r)
            except BaseException as ex:
                bad = 'parse raised %s' % type(ex).__name__
            if bad and len(fails) < 5:
                fails.append({'formula': text, 'host': '%s %r' % (kind, v), 'detail': bad})
        for ev in ('callFunction', 'callVariable', 'callCellValue', 'callRangeValue'):
            q2 = new_parser()
            q2.on(ev, lambda *a, _k=kind, _v=v: (_ for _ in ()).throw(_v) if _k == 'raise' else a[-1](_v))
            for text in ('SUM(1)', 'x', 'A1', 'A1:B2', 'SUM(A1:B2)+x'):
                cases += 1
                try:
                    r = q2.parse(text)
                    bad = well_formed(r)
                except BaseException as ex:
                    bad = 'parse raised %s' % type(ex).__name__
                if bad and len(fails) < 5:
                    fails.append({'formula': text, 'host': 'listener %s: %s %r' % (ev, kind, v), 'detail': bad})
    # listeners that work on the emitter / the parser while an event is being delivered: subscribe (themselves, a successor),
    # unsubscribe, subscribe once, emit, register names, evaluate; exceptions with args of every shape
    for ev, text in LISTENER_EVENTS:
        for act in LISTENER_ACTS:
            cases += 1
            bad = listener_case(ev, act, text)
            if bad and len(fails) < 5:
                fails.append({'formula': text, 'listener_case': [ev, act], 'host': 'listener of %s that does %s during the delivery' % (ev, act),
                              'detail': bad})
    for i in range(len(odd_exceptions())):
        for text in ('F()', 'F(1)+1', 'IFERROR(F(),7)', 'SUM(F(),1)'):
            cases += 1
            bad = raising_case(i, text)
            if bad and len(fails) < 5:
                fails.append({'formula': text, 'raising_case': i, 'host': 'custom function raising %r' % (odd_exceptions()[i],), 'detail': bad})
    return cases, fails


def replay_formula(rp):
    """ generic replay of an e2e failure: formula (+ variable bindings by pool index) """
    if rp.get('listener_case'):
        bad = listener_case(rp['listener_case'][0], rp['listener_case'][1], rp['formula'])
        print('listener of %s doing %s during parse(%r): %s' % (rp['listener_case'][0], rp['listener_case'][1], rp['formula'], bad or 'well-formed result'))
        return bad or {'result': None, 'error': None}
    if rp.get('raising_case') is not None:
        bad = raising_case(rp['raising_case'], rp['formula'])
        print('custom function raising %r in parse(%r): %s' % (odd_exceptions()[rp['raising_case']], rp['formula'], bad or 'well-formed result'))
        return bad or {'result': None, 'error': None}
    p = new_parser()
    pool = value_pool()
    for i, vi in enumerate(rp.get('binding_idx') or []):
        p.set_variable(VARS[i], pool[vi])
    try:
        r = run_budgeted(lambda: p.parse(rp['formula']))
    except Budget:
        r = 'does not terminate within the line budget'
    print('parse(%r) -> %r' % (rp['formula'], r))
    return r
