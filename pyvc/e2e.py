# -*- coding: utf-8 -*-
"""
pyvc.e2e -- bounded end-to-end stand-ins through the real Parser.parse (scratch copy).  Everything here is labelled
*bounded* in the evidence and never counted as proved.  Each function returns (cases, failures) where a failure is a
dict with at least 'formula' and 'detail' and can be replayed with replay_formula().
"""
import itertools
import random
import datetime
import math
from fractions import Fraction


def new_parser(debug=False):
    import hotxlfp
    return hotxlfp.Parser(debug=debug)


def CODES():
    return ['#ERROR!', '#DIV/0!', '#NAME?', '#N/A', '#NULL!', '#NUM!', '#REF!', '#VALUE!', '#GETTING_DATA']


def well_formed(r):
    from hotxlfp.formulas.error import XLError
    if not isinstance(r, dict) or set(r.keys()) != {'result', 'error'}:
        return 'record keys %r' % (r,)
    if r['error'] is not None and r['error'] not in CODES():
        return 'error entry %r is not a canonical code' % (r['error'],)
    if r['error'] is not None and r['result'] is not None:
        return 'error set but result %r' % (r['result'],)
    if isinstance(r['result'], XLError):
        return 'result is an error object'
    return None


# ------------------------------------------------------------------------------------------------ C04 expression trees

ARITH = ['+', '-', '*', '/']
LEVEL = {'<': 0, '>': 0, '=': 0, '<>': 0, '<=': 0, '>=': 0, '+': 1, '-': 1, '*': 2, '/': 2, 'neg': 3}


class Leaf(object):
    def __init__(self, text, value):
        self.text = text
        self.value = value


def gen_tree(rng, nops, leaves, allow_cmp=True):
    """ random tree with nops binary/unary operators; at most one comparison, at the root """
    if nops == 0:
        return ('leaf', rng.choice(leaves))
    if allow_cmp and rng.random() < 0.2:
        k = rng.randint(0, nops - 1)
        return ('bin', rng.choice(['<', '>', '=', '<>', '<=', '>=']), gen_tree(rng, k, leaves, False), gen_tree(rng, nops - 1 - k, leaves, False))
    if rng.random() < 0.2:
        return ('neg', gen_tree(rng, nops - 1, leaves, False))
    k = rng.randint(0, nops - 1)
    return ('bin', rng.choice(ARITH), gen_tree(rng, k, leaves, False), gen_tree(rng, nops - 1 - k, leaves, False))


def all_trees(nops, leaves):
    """ every arithmetic tree (binary + - * / and unary minus) with exactly nops operators over the leaves """
    if nops == 0:
        for l in leaves:
            yield ('leaf', l)
        return
    for t in all_trees(nops - 1, leaves):
        yield ('neg', t)
    for k in range(nops):
        for op in ARITH:
            for l in all_trees(k, leaves):
                for r in all_trees(nops - 1 - k, leaves):
                    yield ('bin', op, l, r)


class DivZero(Exception):
    pass


def eval_tree(t):
    if t[0] == 'leaf':
        return t[1].value
    if t[0] == 'neg':
        return -eval_tree(t[1])
    op, l, r = t[1], eval_tree(t[2]), eval_tree(t[3])
    if op == '+':
        return l + r
    if op == '-':
        return l - r
    if op == '*':
        return l * r
    if op == '/':
        if r == 0:
            raise DivZero()
        return Fraction(l) / Fraction(r)
    return {'<': l < r, '>': l > r, '=': l == r, '<>': l != r, '<=': l <= r, '>=': l >= r}[op]


def render_full(t):
    if t[0] == 'leaf':
        return t[1].text
    if t[0] == 'neg':
        return '(-%s)' % render_full(t[1])
    return '(%s%s%s)' % (render_full(t[2]), t[1], render_full(t[3]))


def render_min(t, parent=-1, right=False):
    """ minimal parentheses under the usual reading (unary minus > * / > + - > comparisons, left associative) """
    if t[0] == 'leaf':
        return t[1].text
    if t[0] == 'neg':
        inner = render_min(t[1], 3, False)
        if t[1][0] == 'neg':
            inner = '(%s)' % render_min(t[1])        # avoid "--"
        s = '-' + inner
        return s
    lv = LEVEL[t[1]]
    s = '%s%s%s' % (render_min(t[2], lv, False), t[1], render_min(t[3], lv, True))
    if lv < parent or (lv == parent and right):
        return '(%s)' % s
    return s


def representable(v):
    """ is the exact value a double (or a bool)? """
    if isinstance(v, bool):
        return True
    try:
        return Fraction(float(v)) == Fraction(v)
    except OverflowError:
        return False


def all_steps_exact(t):
    """ every sub-tree's exact value is a double: IEEE arithmetic then makes no rounding error at any step, so the float result has to
        be THE exact value, not merely close to it """
    try:
        v = eval_tree(t)
    except DivZero:
        return False
    if not representable(v):
        return False
    if t[0] == 'leaf':
        return True
    if t[0] == 'neg':
        return all_steps_exact(t[1])
    return all_steps_exact(t[2]) and all_steps_exact(t[3])


def check_trees(rng, tier):
    leaves = [Leaf('2', 2), Leaf('3', 3), Leaf('5', 5), Leaf('7', 7), Leaf('1.5', Fraction(3, 2)), Leaf('0.25', Fraction(1, 4))]
    # powers of two far apart: sums and differences that need all 53 bits of the significand and are still exact
    wide = leaves + [Leaf('4503599627370496', 2 ** 52), Leaf('1125899906842624', 2 ** 50), Leaf('0.5', Fraction(1, 2)), Leaf('1', 1),
                     Leaf('9007199254740991', 2 ** 53 - 1), Leaf('0.0000152587890625', Fraction(1, 65536))]
    p = new_parser()
    cases = 0
    fails = []

    def one(t, only_exact=False):
        try:
            expect = eval_tree(t)
        except DivZero:
            return
        exact = all_steps_exact(t)
        if only_exact and not exact:
            return            # far-apart magnitudes: cancellation makes the float result legitimately differ from the exact one
        for text in (render_min(t), render_full(t), '((%s))' % render_min(t)):
            r = p.parse(text)
            ok = r['error'] is None and matches(r['result'], expect)
            if ok and exact and not isinstance(expect, bool) and Fraction(r['result']) != Fraction(expect):
                ok = False
            if not ok and len(fails) < 5:
                fails.append({'formula': text, 'detail': 'expected %s%s got %r' % (expect, ' (exactly: no step of this tree rounds)' if exact else '', r)})
    exhaustive_ops = 3 if tier == 'thorough' else 2
    small = leaves[:3] if tier == 'thorough' else leaves[:2]
    for n in range(0, exhaustive_ops + 1):
        for t in all_trees(n, small):
            one(t)
            cases += 1
    for _ in range(20000 if tier == 'thorough' else 2500):
        one(gen_tree(rng, rng.randint(1, 5 if tier == 'thorough' else 4), leaves))
        cases += 1
    for _ in range(20000 if tier == 'thorough' else 2500):
        one(gen_tree(rng, rng.randint(1, 4), wide), only_exact=True)
        cases += 1
    # size does not matter: long chains, deep (redundant) nesting, thousands of characters - the three renderings still agree with the tree
    def chain(n, op):
        t = ('leaf', rng.choice(leaves))
        for _ in range(n):
            t = ('bin', op, t, ('leaf', rng.choice(leaves)))
        return t

    def right_chain(n, op):
        t = ('leaf', rng.choice(leaves))
        for _ in range(n):
            t = ('bin', op, ('leaf', rng.choice(leaves)), t)
        return t
    big = [chain(70, '+'), chain(150, '-'), right_chain(80, '-'), chain(300, '+'), right_chain(120, '+')]
    for t in big:
        cases += 1
        one(t)
    for depth in (65, 100, 400):
        cases += 1
        text = '1+' + '(' * depth + '2' + ')' * depth + '*3'
        r = p.parse(text)
        if r != {'result': 7, 'error': None} and len(fails) < 5:
            fails.append({'formula': text, 'detail': '%d redundant parentheses around a leaf: expected 7 got %r' % (depth, r)})
    wide_sum = '+'.join(['(1+2*3)'] * 1500)          # about 10 500 characters
    cases += 1
    r = p.parse(wide_sum)
    if r != {'result': 10500, 'error': None} and len(fails) < 5:
        fails.append({'formula': wide_sum[:60] + '... (%d characters)' % len(wide_sum), 'detail': 'expected 10500 got %r' % (r,)})
    # leaves whose value is itself computed by evaluating a formula on the SAME parser while the outer formula is being parsed
    # (a cell handler that evaluates the cell's own formula, a function or variable handler doing the same)
    pn = new_parser()
    pn.on('callCellValue', lambda cell, setter: setter(pn.parse({'A1': '2*3', 'B2': '(1+2)*4', 'C3': '7-10'}[cell.label])['result']))
    pn.set_function('NESTED', lambda *a: pn.parse('1+2*3')['result'])
    pn.on('callVariable', lambda name, setter: setter(pn.parse('10/4')['result']) if name == 'nv' else None)
    nested = [Leaf('A1', 6), Leaf('B2', 12), Leaf('C3', -3), Leaf('NESTED()', 7), Leaf('nv', Fraction(5, 2)), Leaf('2', 2), Leaf('5', 5)]
    for _ in range(4000 if tier == 'thorough' else 600):
        t = gen_tree(rng, rng.randint(1, 4), nested)
        cases += 1
        try:
            expect = eval_tree(t)
        except DivZero:
            continue
        for text in (render_min(t), render_full(t)):
            r = pn.parse(text)
            if not (r['error'] is None and matches(r['result'], expect)) and len(fails) < 5:
                fails.append({'formula': text, 'nested': True, 'detail': 'with A1 = 2*3, B2 = (1+2)*4, C3 = 7-10, NESTED() = 1+2*3, nv = 10/4 evaluated on the same '
                              'parser by the handlers: expected %s got %r' % (expect, r)})
    # & chains and & against comparisons
    for a, b, c in itertools.product(['"x"', '2', '"y z"'], repeat=3):
        r = p.parse('%s&%s&%s' % (a, b, c))
        exp = ''.join(x.strip('"') for x in (a, b, c))
        cases += 1
        if r['result'] != exp and len(fails) < 5:
            fails.append({'formula': '%s&%s&%s' % (a, b, c), 'detail': 'expected %r got %r' % (exp, r)})
        r = p.parse('%s&%s=%s' % (a, b, c))
        exp2 = ((a.strip('"') + b.strip('"')) == c.strip('"')) if c.startswith('"') else False
        cases += 1
        if r['result'] is not exp2 and len(fails) < 5:
            fails.append({'formula': '%s&%s=%s' % (a, b, c), 'detail': 'expected %r got %r' % (exp2, r)})
    return cases, fails


def matches(got, expect):
    if isinstance(expect, bool):
        return got is expect
    if isinstance(got, bool) or not isinstance(got, (int, float)):
        return False
    e = float(expect)
    return got == e or abs(got - e) <= 1e-9 * max(abs(e), 1.0)


# ------------------------------------------------------------------------------------------------ C01 totality sweep

def value_pool():
    from hotxlfp.formulas import error
    return [None, True, 0, -2, 3.5, 'abc', '12', '', error.VALUE, error.NOT_AVAILABLE, datetime.datetime(2020, 2, 29, 12),
            [1, 2, 3], [[1, 2], [3, 4]], ['a', None, 2.5], []]


VARS = ['va', 'vb', 'vc', 'vd']     # identifier-shaped, not cell-shaped (v0 would lex as a cell reference)


class Budget(BaseException):
    pass


def run_budgeted(fn, max_lines=400000):
    """ run fn() under a line budget (sys.settrace): a loop that does not terminate is reported instead of hanging """
    import sys
    count = [0]

    def tracer(frame, event, arg):
        if event == 'line':
            count[0] += 1
            if count[0] > max_lines:
                raise Budget()
        return tracer
    old = sys.gettrace()
    sys.settrace(tracer)
    try:
        return fn()
    finally:
        sys.settrace(old)


def run_with_deadline(fn, seconds):
    """ run fn() under a wall-clock alarm (the `re` matcher checks signals while it backtracks) """
    import signal

    def handler(signum, frame):
        raise Budget()
    old = signal.signal(signal.SIGALRM, handler)
    signal.setitimer(signal.ITIMER_REAL, seconds)
    try:
        return fn()
    finally:
        signal.setitimer(signal.ITIMER_REAL, 0)
        signal.signal(signal.SIGALRM, old)


def sheet_case(sheet, text):
    """ a listener resolves cells by evaluating their formulas on the same parser (depth-limited so that a cyclic sheet ends); '' or what
        went wrong - the evaluation has to come back with a well-formed record within the line budget """
    q = new_parser()
    depth = [0]

    def resolve(cell, setter):
        f = sheet.get(cell.label)
        if f is None:
            return
        if depth[0] >= 6:
            setter(0)
            return
        depth[0] += 1
        try:
            setter(q.parse(f)['result'])
        finally:
            depth[0] -= 1
    q.on('callCellValue', resolve)
    try:
        r = run_budgeted(lambda: q.parse(text), 600000)
        return well_formed(r)
    except Budget:
        return 'does not terminate within the line budget'
    except BaseException as ex:
        return 'parse raised %s' % type(ex).__name__


SHEETS = [({'A1': 'B1 + 1', 'B1': '#REF! + B1 + B1'}, 'A1'), ({'A1': 'B1 + 1', 'B1': '#REF! + B1 + B1'}, 'A1+A1'), ({'A1': '2*3', 'B1': 'A1+'}, 'B1+A1'),
          ({'A1': 'A1+1'}, 'A1'), ({'A1': '"abc', 'B1': 'A1&"x"'}, 'B1&A1'), ({'A1': 'SUM(B1:B2)', 'B1': '((', 'B2': '1/0'}, 'A1*2+B1'),
          ({'A1': 'B1', 'B1': 'C1', 'C1': 'A1 + ~'}, 'SUM(A1,B1,C1)')]


LISTENER_EVENTS = (('callFunction', 'SUM(1)+SUM(2)'), ('callVariable', 'x+x'), ('callCellValue', 'A1+B2'), ('callRangeValue', 'SUM(A1:B2)+SUM(A1:B2)'))
LISTENER_ACTS = ('resubscribe-self', 'subscribe-successor', 'subscribe-once-self', 'unsubscribe-self', 'unsubscribe-all', 'emit-other',
                 'set-variable', 'set-function', 'nested-parse', 'raise-unhashable', 'raise-dict', 'raise-noargs')


def _throw(e):
    raise e


def listener_case(ev, act, text):
    """ one evaluation with a listener of `ev` that does `act` on the emitter / parser during the delivery; '' or what went wrong """
    q = new_parser()

    def lst(*a):
        {'resubscribe-self': lambda: q.on(ev, lst),
         'subscribe-successor': lambda: q.on(ev, lambda *a2: None),
         'subscribe-once-self': lambda: q.once(ev, lst),
         'unsubscribe-self': lambda: q.off(ev, lst),
         'unsubscribe-all': lambda: q.off(ev),
         'emit-other': lambda: q.emit('somethingElse', 1),
         'set-variable': lambda: q.set_variable('x', 5),
         'set-function': lambda: q.set_function('G', lambda *a2: 1),
         'nested-parse': lambda: q.parse('1+1'),
         'raise-unhashable': lambda: _throw(ValueError([1, 2])),
         'raise-dict': lambda: _throw(KeyError({'a': 1})),
         'raise-noargs': lambda: _throw(RuntimeError())}[act]()
        if callable(a[-1]):
            a[-1](3)
    q.on(ev, lst)
    try:
        r = run_budgeted(lambda: q.parse(text))
        return well_formed(r)
    except Budget:
        return 'does not terminate within the line budget'
    except BaseException as ex:
        return 'parse raised %s' % type(ex).__name__


def odd_exceptions():
    from hotxlfp.formulas import error

    class Speechless(Exception):
        """ an exception whose own __str__ fails """
        def __str__(self):
            raise RuntimeError('no text for you')

    class SpeechlessError(error.XLError):
        def __str__(self):
            raise RuntimeError('no text for you')
    return [ValueError([1, 2]), KeyError({'a': 1}), TypeError({1, 2}), RuntimeError(), error.XLError(['#N/A']), error.XLError(), OSError(2, 'x'),
            Speechless(), SpeechlessError('x')]


def raising_case(i, text):
    exc = odd_exceptions()[i]
    q = new_parser()
    q.set_function('F', lambda *a: _throw(exc))
    q.set_function('G', lambda *a: exc)                          # ... handed over as a value
    q.on('callCellValue', lambda cell, setter: _throw(exc))      # ... raised by a listener
    q.set_variable('oddvalue', exc)
    try:
        r = run_budgeted(lambda: q.parse(text))
        return well_formed(r)
    except Budget:
        return 'does not terminate within the line budget'
    except BaseException as ex:
        return 'parse raised %s' % type(ex).__name__


INTERFERENCE_FORMULAS = [
    'TRUE+0', '1.0+0', '(1.0+0)&""', '(1+0)&""', 'f1*2', 'i1*2', 't*2', '(t*1)&""', 'f1&""', 'i1&""', 't&""', '1=TRUE', 'TRUE=1', '"a"<1', '"a"<TRUE', '1<TRUE',
    '0=FALSE', 'FALSE&""', 'zf&""', 'z0&""', 'z0=FALSE', 'zf+TRUE', 'SUM(1,TRUE)', 'SUM(f1,i1,t)', 'IF(1,"y","n")', 'IF(t,f1,i1)&""', '1/0', 'x&"a"',
    'MATCH("banana",words,0)', 'INDEX(words,2)', 'MATCH(4,lst,0)', 'LARGE({5,1,4},2)', 'LARGE(lst,2)', 'A1+$B$2', 'SUM(A1:B2)', 'when+1', 'DAY(when)', 'N(when)',
    '"abc', 'nosuch', 'NOSUCH(1)', '((', '#N/A', 'IFERROR(1/0,"e")', 'TRIM("  a  b ")', 'UPPER("aé")', '{1,2;3,4}', '{1,2,3}*2', 'lst', '1.5=1.5', '2>1.0',
    'ROUND(2.5,0)', 'INT(f1)&""', 'MAX(i1,f1)&""', 'MIN(t,2)', 'COUNT(lst)', 'CONCATENATE(i1,f1,t)', 'TEXTJOIN(",",TRUE,i1,f1,t)', 'AND(1,t)', 'OR(z0,zf)',
    'XOR(i1,f1)', 'NOT(zf)', 'PI()', 'TRUE()', 'FALSE()', 'NA()', 'PI()*2', 'SUM()', 'ISNUMBER(t)', 'ISNUMBER(f1)', 'ISLOGICAL(i1)', 'ISLOGICAL(t)', 'TYPE(1)', 'SIGN(f1)&""', 'ABS(t)', 'DEC2HEX(255)', 'BASE(10,2)']


def fresh_process_outcomes(scratch, formulas):
    """ formula -> repr(outcome) in a process that evaluated nothing else (pyvc.e2e_fresh) """
    import json
    import subprocess
    import sys
    import os
    here = os.path.dirname(os.path.dirname(os.path.abspath(__file__)))
    r = subprocess.run([sys.executable, '-m', 'pyvc.e2e_fresh', scratch], cwd=here, input=json.dumps(list(formulas)), stdout=subprocess.PIPE,
                       stderr=subprocess.PIPE, universal_newlines=True, timeout=600)
    if r.returncode != 0:
        raise RuntimeError('fresh-process oracle failed: %s' % r.stderr[-500:])
    return json.loads(r.stdout)


def interference_case(seq, fresh=None):
    """ seq: list of (parser index, formula, nested) - evaluated in this order on three parsers carrying the same registrations; `nested`
        is None or (parser index, formula) evaluated by a custom function of the outer parser in the middle of the outer evaluation.
        Returns the first step whose outcome differs from the fresh-process outcome of the same formula, or None. """
    from . import e2e_fresh, native
    if fresh is None:
        need = set(f for _, f, _ in seq) | set(n[1] for _, _, n in seq if n)
        fresh = fresh_process_outcomes(native.SCRATCH['dir'], sorted(need))
    ps = [e2e_fresh.setup(new_parser()) for _ in range(3)]
    # listeners that answer nothing but scribble on what they are handed (the argument list of a call, the cell objects of a
    # reference): whatever they are handed belongs to that one event - no later evaluation, on any parser, may see the scribble
    def scribble_args(name, args, setter):
        try:
            args.append('scribble')
        except Exception:
            pass

    def scribble_cell(*a):
        for c in a[:-1]:
            for attr, v in (('label', 'ZZ9'), ('row', None), ('col', None)):
                try:
                    setattr(c, attr, v)
                except Exception:
                    pass
    for q in ps[:2]:
        q.on('callFunction', scribble_args)
        q.on('callCellValue', scribble_cell)
        q.on('callRangeValue', scribble_cell)
    for step, (pi, f, nested) in enumerate(seq):
        if nested is not None:
            got_inner = []
            ps[pi].set_function('NEST', lambda *a, _n=nested: got_inner.append(repr(ps[_n[0]].parse(_n[1]))) or 0)
            outer = repr(ps[pi].parse('IF(NEST()=0,%s,0)' % f if not f.startswith(('"abc', '((')) else f))
            if got_inner and got_inner[0] != fresh[nested[1]]:
                return step, 'nested evaluation of %r on parser %d gave %s, in a fresh process %s' % (nested[1], nested[0], got_inner[0], fresh[nested[1]])
            plain = repr(ps[pi].parse(f))
            if plain != fresh[f]:
                return step, '%r on parser %d after a nested evaluation gave %s, in a fresh process %s' % (f, pi, plain, fresh[f])
            continue
        got = repr(ps[pi].parse(f))
        if got != fresh[f]:
            return step, '%r on parser %d gave %s, in a fresh process %s' % (f, pi, got, fresh[f])
    return None


def check_interference(rng, tier, scratch):
    """ seeded interleavings over three parsers against the fresh-process oracle; (cases, fails) """
    fresh = fresh_process_outcomes(scratch, INTERFERENCE_FORMULAS)
    cases = 0
    fails = []
    n = len(INTERFERENCE_FORMULAS)
    seqs = []
    # every ordered pair once (the second formula sees whatever the first left behind), then seeded longer interleavings
    for a in range(n):
        for b in range(n):
            if a != b:
                seqs.append([(0, INTERFERENCE_FORMULAS[a], None), (1, INTERFERENCE_FORMULAS[b], None)])
    for _ in range(300 if tier == 'quick' else 5000):
        seq = []
        for _k in range(rng.randint(2, 7)):
            nested = (rng.randrange(3), rng.choice(INTERFERENCE_FORMULAS)) if rng.random() < 0.3 else None
            seq.append((rng.randrange(3), rng.choice(INTERFERENCE_FORMULAS), nested))
        seqs.append(seq)
    for seq in seqs:
        cases += len(seq)
        r = interference_case(seq, fresh)
        if r is not None and len(fails) < 5:
            fails.append({'formula': seq[r[0]][1], 'interference': [list(s[:2]) + [list(s[2]) if s[2] else None] for s in seq],
                          'detail': 'step %d of %r: %s' % (r[0], [(pi, f) for pi, f, _ in seq], r[1])})
            # a polluted process would make every later sequence fail for the same reason: one witness is enough
            break
    return cases, fails


def lazy_iterables_sweep(scratch, only=None, timeout=240):
    """ run pyvc.e2e_child in a child process; returns (cases, failures).  A case that never reports END is a failure too. """
    import json
    import subprocess
    import sys
    import os
    here = os.path.dirname(os.path.dirname(os.path.abspath(__file__)))
    cmd = [sys.executable, '-m', 'pyvc.e2e_child', scratch] + ([json.dumps(only)] if only is not None else [])
    proc = subprocess.Popen(cmd, cwd=here, stdout=subprocess.PIPE, stderr=subprocess.DEVNULL, universal_newlines=True)
    try:
        out, _ = proc.communicate(timeout=timeout)
        killed = False
    except subprocess.TimeoutExpired:
        proc.kill()
        out, _ = proc.communicate()
        killed = True
    started = {}
    fails = []
    n = 0
    for line in out.splitlines():
        try:
            ev = json.loads(line)
        except ValueError:
            continue
        if ev['ev'] == 'START':
            started[ev['i']] = ev
        else:
            n += 1
            st = started.pop(ev['i'], None)
            if ev['bad'] and st is not None:
                fails.append({'formula': st['formula'], 'lazy_case': [st['formula'], st['where'], st['how']],
                              'host': '%s supplied as %s' % (st['how'], st['where']), 'detail': ev['bad']})
    for st in started.values():
        fails.append({'formula': st['formula'], 'lazy_case': [st['formula'], st['where'], st['how']], 'host': '%s supplied as %s' % (st['how'], st['where']),
                      'detail': 'the child process never came back from this evaluation (%s)' % ('killed after %d s' % timeout if killed else 'it died, exit %s' % proc.returncode)})
    if n == 0 and not fails:
        fails.append({'formula': '(none)', 'detail': 'the child process reported no case: exit %s' % proc.returncode})
    return n + len(started), fails


def check_totality(rng, tier, names=None):
    from hotxlfp import formulas
    pool = value_pool()
    p = new_parser()
    names = names or formulas.supported()
    cases = 0
    fails = []
    max_arity = 3 if tier == 'thorough' else 2
    for name in names:
        if name in ('NOW', 'TODAY', 'RAND'):
            pass
        for arity in range(0, max_arity + 1):
            combos = itertools.product(range(len(pool)), repeat=arity)
            if arity == 3:
                combos = [tuple(rng.randrange(len(pool)) for _ in range(3)) for _ in range(150)]
            for combo in combos:
                for i, vi in enumerate(combo):
                    p.set_variable(VARS[i], pool[vi])
                text = '%s(%s)' % (name, ','.join(VARS[i] for i in range(arity)))
                cases += 1
                try:
                    r = run_budgeted(lambda: p.parse(text))
                    bad = well_formed(r)
                except Budget:
                    bad = 'does not terminate within the line budget'
                except BaseException as ex:
                    bad = 'parse raised %s' % type(ex).__name__
                if bad and len(fails) < 5:
                    fails.append({'formula': text, 'bindings': [repr(pool[vi]) for vi in combo], 'binding_idx': list(combo), 'detail': bad})
    # token soups and truncations
    atoms = ['1', '2.5', '"a"', 'A1', '$B$2', 'A1:B2', 'x', 'SUM(', '(', ')', '{', '}', ',', ';', '+', '-', '*', '/', '&', '<', '>=', '<>',
             '=', '%', '^', '.', '#N/A', '#', '!', "'", '"', ' ', '\t', 'é', '中', '\\', ':', 'TRUE', 'IF(1,2,3)', '1/0']
    for _ in range(6000 if tier == 'thorough' else 1500):
        text = ''.join(rng.choice(atoms) for _ in range(rng.randint(1, 8)))
        cases += 1
        try:
            r = run_budgeted(lambda: p.parse(text))
            bad = well_formed(r)
        except Budget:
            bad = 'does not terminate within the line budget'
        except BaseException as ex:
            bad = 'parse raised %s' % type(ex).__name__
        if bad and len(fails) < 5:
            fails.append({'formula': text, 'detail': bad})
    # host callbacks that return every pool value or raise
    from hotxlfp.formulas import error

    class Boom(Exception):
        pass
    outcomes = [('ret', v) for v in pool] + [('ret', error.XLError('custom')), ('raise', ValueError('x')), ('raise', error.NUM),
                                             ('raise', error.XLError('custom raised')), ('raise', Boom()), ('raise', KeyError('k'))]
    for kind, v in outcomes:
        def f(*a, _k=kind, _v=v):
            if _k == 'raise':
                raise _v
            return _v
        q = new_parser()
        q.set_function('F', f)
        for text in ('F()', 'F(1)+1', 'IFERROR(F(),7)', 'SUM(F(),1)', '-F()', 'F()&"a"', 'F()=1'):
            cases += 1
            try:
                r = q.parse(text)
                bad = well_formed(r)
            except BaseException as ex:
                bad = 'parse raised %s' % type(ex).__name__
            if bad and len(fails) < 5:
                fails.append({'formula': text, 'host': '%s %r' % (kind, v), 'detail': bad})
        for ev in ('callFunction', 'callVariable', 'callCellValue', 'callRangeValue'):
            q2 = new_parser()
            q2.on(ev, lambda *a, _k=kind, _v=v: (_ for _ in ()).throw(_v) if _k == 'raise' else a[-1](_v))
            for text in ('SUM(1)', 'x', 'A1', 'A1:B2', 'SUM(A1:B2)+x'):
                cases += 1
                try:
                    r = q2.parse(text)
                    bad = well_formed(r)
                except BaseException as ex:
                    bad = 'parse raised %s' % type(ex).__name__
                if bad and len(fails) < 5:
                    fails.append({'formula': text, 'host': 'listener %s: %s %r' % (ev, kind, v), 'detail': bad})
    # the same record shape with debug output on (stderr swallowed): failing formulas of every kind
    import contextlib
    import io
    import hotxlfp as _h
    pd = _h.Parser(debug=True)
    pd.set_function('BOOM', lambda *a: (_ for _ in ()).throw(RuntimeError('boom')))
    pd.set_variable('arr', [1, 2])
    for text in ('1+1', '-"a"', '-{1,2}', '{1,2}<1', 'BOOM()', 'BOOM()+1', 'SQRT(-1)', '1/0', '((', '"abc', 'nosuch', 'NOSUCH(1)', '#N/A', 'arr&arr', '-arr', 'arr<arr',
                 'SUM(BOOM())', 'IF(BOOM(),1,2)', 'A1', 'A1:B2', ''):
        cases += 1
        try:
            with contextlib.redirect_stderr(io.StringIO()):
                r = run_budgeted(lambda: pd.parse(text))
            bad = well_formed(r)
        except Budget:
            bad = 'does not terminate within the line budget'
        except BaseException as ex:
            bad = 'parse raised %s' % type(ex).__name__
        if bad and len(fails) < 5:
            fails.append({'formula': text, 'debug': True, 'host': 'Parser(debug=True)', 'detail': bad})
    # listeners that work on the emitter / the parser while an event is being delivered: subscribe (themselves, a successor),
    # unsubscribe, subscribe once, emit, register names, evaluate; exceptions with args of every shape
    for ev, text in LISTENER_EVENTS:
        for act in LISTENER_ACTS:
            cases += 1
            bad = listener_case(ev, act, text)
            if bad and len(fails) < 5:
                fails.append({'formula': text, 'listener_case': [ev, act], 'host': 'listener of %s that does %s during the delivery' % (ev, act),
                              'detail': bad})
    for si, (sheet, text) in enumerate(SHEETS):
        cases += 1
        bad = sheet_case(sheet, text)
        if bad and len(fails) < 5:
            fails.append({'formula': text, 'sheet_case': si, 'host': 'cells resolved by evaluating %r on the same parser' % (sheet,), 'detail': bad})
    for i in range(len(odd_exceptions())):
        for text in ('F()', 'F(1)+1', 'IFERROR(F(),7)', 'SUM(F(),1)', 'A1+1', 'SUM(A1,2)', 'G()', 'oddvalue', 'IFERROR(A1,7)'):
            cases += 1
            bad = raising_case(i, text)
            if bad and len(fails) < 5:
                fails.append({'formula': text, 'raising_case': i, 'host': 'custom function raising %r' % (odd_exceptions()[i],), 'detail': bad})
    return cases, fails


def replay_formula(rp):
    """ generic replay of an e2e failure: formula (+ variable bindings by pool index) """
    if rp.get('sheet_case') is not None:
        sheet, text = SHEETS[rp['sheet_case']]
        bad = sheet_case(sheet, text)
        print('parse(%r) with cells %r resolved on the same parser: %s' % (text, sheet, bad or 'well-formed result'))
        return bad or {'result': None, 'error': None}
    if rp.get('debug'):
        import contextlib
        import io
        import hotxlfp as _h
        pd = _h.Parser(debug=True)
        pd.set_function('BOOM', lambda *a: (_ for _ in ()).throw(RuntimeError('boom')))
        pd.set_variable('arr', [1, 2])
        with contextlib.redirect_stderr(io.StringIO()):
            r = pd.parse(rp['formula'])
        print('Parser(debug=True).parse(%r) -> %r' % (rp['formula'], r))
        return r
    if rp.get('interference'):
        seq = [(s[0], s[1], tuple(s[2]) if s[2] else None) for s in rp['interference']]
        r = interference_case(seq)
        print('evaluating %r in this order: %s' % ([(pi, f) for pi, f, _ in seq], 'every outcome equals the fresh-process outcome' if r is None else 'step %d: %s' % r))
        return (r[1] if r else {'result': None, 'error': None})
    if rp.get('lazy_case'):
        from . import native
        n, fails = lazy_iterables_sweep(native.SCRATCH['dir'], only=rp['lazy_case'], timeout=60)
        print('%r with %s: %s' % (rp['formula'], rp.get('host'), fails[0]['detail'] if fails else 'comes back with a well-formed record'))
        return fails[0]['detail'] if fails else {'result': None, 'error': None}
    if rp.get('listener_case'):
        bad = listener_case(rp['listener_case'][0], rp['listener_case'][1], rp['formula'])
        print('listener of %s doing %s during parse(%r): %s' % (rp['listener_case'][0], rp['listener_case'][1], rp['formula'], bad or 'well-formed result'))
        return bad or {'result': None, 'error': None}
    if rp.get('raising_case') is not None:
        bad = raising_case(rp['raising_case'], rp['formula'])
        print('custom function raising %r in parse(%r): %s' % (odd_exceptions()[rp['raising_case']], rp['formula'], bad or 'well-formed result'))
        return bad or {'result': None, 'error': None}
    if rp.get('nested'):
        pn = new_parser()
        pn.on('callCellValue', lambda cell, setter: setter(pn.parse({'A1': '2*3', 'B2': '(1+2)*4', 'C3': '7-10'}[cell.label])['result']))
        pn.set_function('NESTED', lambda *a: pn.parse('1+2*3')['result'])
        pn.on('callVariable', lambda name, setter: setter(pn.parse('10/4')['result']) if name == 'nv' else None)
        r = pn.parse(rp['formula'])
        print('parse(%r) with handlers evaluating on the same parser -> %r' % (rp['formula'], r))
        return r
    p = new_parser()
    pool = value_pool()
    for i, vi in enumerate(rp.get('binding_idx') or []):
        p.set_variable(VARS[i], pool[vi])
    try:
        r = run_budgeted(lambda: p.parse(rp['formula']))
    except Budget:
        r = 'does not terminate within the line budget'
    print('parse(%r) -> %r' % (rp['formula'], r))
    return r
