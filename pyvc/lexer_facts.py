# -*- coding: utf-8 -*-
"""
pyvc.lexer_facts -- the token rules of hotxlfp/grammarparser/lexer.py read from the real source (docstring = pattern,
source order = priority, as PLY uses them), and regex obligations over them (z3 regular expressions).
"""
import ast
import os
import z3
from . import lexre


def rules(repo):
    path = os.path.join(repo, 'hotxlfp', 'grammarparser', 'lexer.py')
    tree = ast.parse(open(path, encoding='utf-8').read())
    out = []
    for n in tree.body:
        if isinstance(n, ast.FunctionDef) and n.name.startswith('t_') and n.name != 't_error':
            doc = ast.get_docstring(n, clean=False)
            returns_token = any(isinstance(x, ast.Return) and x.value is not None for x in ast.walk(n))
            out.append({'name': n.name[2:], 'pattern': doc, 'line': n.lineno, 'returns': returns_token})
    out.sort(key=lambda r: r['line'])
    return out


def ignore_chars(repo):
    """ the module-level t_ignore string of the lexer module, or None """
    path = os.path.join(repo, 'hotxlfp', 'grammarparser', 'lexer.py')
    tree = ast.parse(open(path, encoding='utf-8').read())
    for n in tree.body:
        if isinstance(n, ast.Assign) and any(isinstance(t, ast.Name) and t.id == 't_ignore' for t in n.targets):
            if isinstance(n.value, ast.Constant) and isinstance(n.value.value, str):
                return n.value.value
            return ''
    return None


def lang(rule):
    body, la = lexre.token_language(rule['pattern'])
    return body, la


ANY = z3.Star(lexre.allchar())


def contains(chars_re):
    return z3.Concat(ANY, chars_re, ANY)


def nested_unbounded_repeat(pattern):
    """ True if an unbounded repeat contains (through groups / alternations) another unbounded repeat: the shape that makes
        Python's backtracking matcher exponential on non-matching input, e.g. (a|b+)*   (bounded-time clause of C01) """
    C = lexre.C

    def has_unbounded(seq):
        for op, av in seq:
            if op in (C.MAX_REPEAT, C.MIN_REPEAT):
                if av[1] == C.MAXREPEAT:
                    return True
                if has_unbounded(av[2]):
                    return True
            elif op == C.SUBPATTERN:
                if has_unbounded(av[3]):
                    return True
            elif op == C.BRANCH:
                if any(has_unbounded(alt) for alt in av[1]):
                    return True
            elif op in (C.ASSERT, C.ASSERT_NOT):
                if has_unbounded(av[1]):
                    return True
        return False

    def walk(seq):
        for op, av in seq:
            if op in (C.MAX_REPEAT, C.MIN_REPEAT):
                if av[1] == C.MAXREPEAT and has_unbounded(av[2]):
                    return True
                if walk(av[2]):
                    return True
            elif op == C.SUBPATTERN:
                if walk(av[3]):
                    return True
            elif op == C.BRANCH:
                if any(walk(alt) for alt in av[1]):
                    return True
            elif op in (C.ASSERT, C.ASSERT_NOT):
                if walk(av[1]):
                    return True
        return False
    return walk(list(lexre.sre_parse.parse(pattern)))


def obligations(repo):
    rs = rules(repo)
    by = {r['name']: r for r in rs}
    order = [r['name'] for r in rs]
    out = []

    def add(name, ok, detail=''):
        out.append((name, ok, detail))

    def before(a, b):
        add('L1.order.%s<%s' % (a, b), a in order and b in order and order.index(a) < order.index(b), 'rule order %r' % (order,))
    # whitespace is discarded either by a rule that returns no token (it then has to come first) or by PLY's t_ignore character set
    ignore = ignore_chars(repo)
    has_ws_rule = 'WHITESPACE' in by
    add('L1.whitespace-first', (order[0] == 'WHITESPACE') if has_ws_rule else bool(ignore), order[0] if has_ws_rule else 't_ignore = %r' % (ignore,))
    for r in rs:
        add('L0.no-nested-unbounded-repeat.%s' % r['name'], not nested_unbounded_repeat(r['pattern']),
            'an unbounded repeat inside an unbounded repeat: exponential backtracking on non-matching input (%s)' % r['pattern'])
    add('L2.whitespace-discarded', (not by['WHITESPACE']['returns']) if has_ws_rule else bool(ignore),
        't_WHITESPACE returns a token' if has_ws_rule else 'no rule and no t_ignore set discards whitespace')
    for a, b in (('STRING', 'QUOTATION'), ('STRING', 'APOSTROPHE'), ('FUNCTION', 'ABSOLUTE_CELL'), ('FUNCTION', 'RELATIVE_CELL'),
                 ('FUNCTION', 'VARIABLE'), ('ABSOLUTE_CELL', 'MIXED_CELL'), ('MIXED_CELL', 'RELATIVE_CELL'), ('RELATIVE_CELL', 'VARIABLE'),
                 ('VARIABLE', 'NUMBER'), ('NOTEQUAL', 'LESS'), ('NOTEQUAL', 'GREATER'), ('GREATEREQ', 'GREATER'), ('LESSEQ', 'LESS'),
                 ('GREATEREQ', 'EQUAL'), ('LESSEQ', 'EQUAL'), ('XLERROR', 'HASH')):
        before(a, b)
    langs = {}
    for r in rs:
        try:
            langs[r['name']] = lang(r)
        except lexre.Unsupported as u:
            add('regex.supported.%s' % r['name'], False, 'pattern outside the modelled subset: %s' % u)
    ws = lexre.union(lexre.lit(c) for c in (' ', '\t', '\n', '\r'))
    if has_ws_rule and 'WHITESPACE' in langs:
        ok, w = lexre.included(z3.Plus(ws), langs['WHITESPACE'][0])
        add('L2.blank-tab-newline-in-WHITESPACE', ok is True, 'witness %r' % (w,))
    else:
        missing = [c for c in (' ', '\t', '\n', '\r') if c not in (ignore or '')]
        add('L2.blank-tab-newline-in-WHITESPACE', not missing, 'not discarded between tokens: %r (t_ignore = %r, no WHITESPACE rule)' % (missing, ignore))
    anyws = lexre.category(lexre.C.CATEGORY_SPACE)
    for name, (body, la) in langs.items():
        if name in ('WHITESPACE', 'STRING', 'SINGLESPACE'):
            continue
        ok, w = lexre.disjoint(body, contains(anyws))
        add('L3.no-whitespace-inside.%s' % name, ok is True, 'witness %r' % (w,))
        if name != 'FUNCTION':
            add('L3.no-lookahead.%s' % name, la is None, 'rule has a look-ahead')
    digits = z3.Plus(z3.Range(z3.StringVal('0'), z3.StringVal('9')))
    a, w1 = lexre.included(langs['NUMBER'][0], digits)
    b, w2 = lexre.included(digits, langs['NUMBER'][0])
    add('L4.NUMBER=digits', a is True and b is True, 'witness %r %r' % (w1, w2))
    # no earlier rule can start with a digit
    for name in order[:order.index('NUMBER')]:
        if name in ('WHITESPACE', 'STRING') or name not in langs:
            continue
        ok, w = lexre.disjoint(langs[name][0], z3.Concat(z3.Range(z3.StringVal('0'), z3.StringVal('9')), ANY))
        add('L4.no-earlier-rule-starts-with-digit.%s' % name, ok is True, 'witness %r' % (w,))
    for q in ('"', "'"):
        notq = z3.Intersect(lexre.allchar(), z3.Complement(lexre.lit(q)))
        nobs = z3.Intersect(notq, z3.Complement(lexre.lit('\\')))
        # bodies without the delimiting quote and not ending in a backslash (a trailing backslash escapes the quote: noted in DESIGN)
        body = z3.Union(z3.Re(z3.StringVal('')), z3.Concat(z3.Star(notq), nobs))
        ok, w = lexre.included(z3.Concat(lexre.lit(q), body, lexre.lit(q)), langs['STRING'][0])
        add('L5.quoted-literal-is-one-STRING.%s' % ('dq' if q == '"' else 'sq'), ok is True, 'witness %r' % (w,))
    for code in ('#ERROR!', '#DIV/0!', '#NAME?', '#N/A', '#NULL!', '#NUM!', '#REF!', '#VALUE!'):
        ok, w = lexre.included(z3.Re(z3.StringVal(code)), langs['XLERROR'][0])
        add('L7.error-literal-token.%s' % code, ok is True, 'not in L(XLERROR)')
    letters = z3.Plus(z3.Union(z3.Range(z3.StringVal('a'), z3.StringVal('z')), z3.Range(z3.StringVal('A'), z3.StringVal('Z'))))
    d = lexre.lit('$')
    for name, shape in (('ABSOLUTE_CELL', z3.Concat(d, letters, d, digits)), ('RELATIVE_CELL', z3.Concat(letters, digits)),
                        ('MIXED_CELL', z3.Union(z3.Concat(d, letters, digits), z3.Concat(letters, d, digits)))):
        a, w1 = lexre.included(shape, langs[name][0])
        b, w2 = lexre.included(langs[name][0], shape)
        add('L6.%s=shape' % name, a is True and b is True, 'witness %r %r' % (w1, w2))
    return out, langs, order
