# -*- coding: utf-8 -*-
"""
pyvc.native -- running the *real* code: scratch copy of the working tree, conversion of counterexample
values to real objects, replay of counterexamples, bounded native search over a contract's domain,
and the CPython cross-check of the symbolic executor.
"""
import os
import sys
import shutil
import tempfile
import importlib
import itertools
import datetime
import random
import atexit
import inspect
import copy
import time

from . import api
from .vals import Err, ForeignErr, HostObj


SCRATCH = {'dir': None}


def make_scratch(repo_root):
    """ copy the working tree's package to a scratch dir outside /repo and /verif and import from there,
        so PLY can never rewrite parsetab/parser.out inside /repo """
    d = tempfile.mkdtemp(prefix='hotxlfp_scratch_')
    shutil.copytree(os.path.join(repo_root, 'hotxlfp'), os.path.join(d, 'hotxlfp'),
                    ignore=shutil.ignore_patterns('__pycache__', '*.pyc'))
    SCRATCH['dir'] = d
    atexit.register(cleanup)
    return d


def cleanup():
    d = SCRATCH.get('dir')
    if d and os.path.isdir(d) and SCRATCH.get('owner', os.getpid()) == os.getpid():
        shutil.rmtree(d, ignore_errors=True)


def use_scratch(d, owner=False):
    SCRATCH['dir'] = d
    if owner:
        SCRATCH['owner'] = os.getpid()
    else:
        SCRATCH['owner'] = -1
    sys.dont_write_bytecode = True
    if d not in sys.path:
        sys.path.insert(0, d)
    for k in list(sys.modules):
        if k == 'hotxlfp' or k.startswith('hotxlfp.'):
            del sys.modules[k]
    cwd = os.getcwd()
    os.chdir(d)          # PLY writes parser.out / parsetab relative to cwd or the module dir: keep it in scratch
    try:
        import hotxlfp
        from hotxlfp.formulas import error
    finally:
        os.chdir(cwd)
    assert os.path.realpath(hotxlfp.__file__).startswith(os.path.realpath(d)), hotxlfp.__file__
    api.bind_real(error)
    return hotxlfp


def real_function(fullname):
    modname, _, qual = fullname.partition(':')
    m = importlib.import_module(modname)
    o = m
    for p in qual.split('.'):
        o = getattr(o, p)
    return o


def to_real(v):
    """ counterexample / sampled value -> real python object (fresh mutable objects on every call) """
    if isinstance(v, Err):
        return api.REAL['errors'][v.code]
    if isinstance(v, ForeignErr):
        return api.REAL['XLError']('custom error %d' % v.code)
    if isinstance(v, HostObj):
        return complex(1, 2) if v.cls == 1 else object()
    if isinstance(v, list):
        return [to_real(x) for x in v]
    if isinstance(v, tuple):
        return tuple(to_real(x) for x in v)
    if isinstance(v, api.ProdSpec):
        return make_production(v.names, [to_real(x) for x in v.vals])
    if isinstance(v, api.HostFnSpec):
        return api.Recorder()
    if isinstance(v, api.ObjSpec):
        cls = real_function(v.cls)
        o = cls.__new__(cls)
        for k, x in v.attrs.items():
            setattr(o, k, to_real(x))
        return o
    if isinstance(v, dict) and '__class__' in v:
        cls = real_function(v['__class__'])
        o = cls.__new__(cls)
        for k, x in v['attrs'].items():
            setattr(o, k, to_real(x))
        return o
    if isinstance(v, dict) and '__hostfn__' in v:
        return api.Recorder(v['__hostfn__'])
    if isinstance(v, dict) and '__prod__' in v:
        return make_production(v['__prod__'], [to_real(x) for x in v['vals']])
    return v


def struct_copy(v, memo=None):
    """ copy of the containers and repo-class instances of a value; leaves (numbers, text, error singletons, dates, host callables) are
        shared, so identity-based comparisons of leaves keep working """
    memo = {} if memo is None else memo
    if id(v) in memo:
        return memo[id(v)]
    if isinstance(v, list):
        out = []
        memo[id(v)] = out
        out.extend(struct_copy(x, memo) for x in v)
        return out
    if isinstance(v, tuple) and not hasattr(v, '_fields'):
        return tuple(struct_copy(x, memo) for x in v)
    if isinstance(v, dict):
        out = type(v)() if not hasattr(v, 'default_factory') else type(v)(v.default_factory)
        memo[id(v)] = out
        for k, x in v.items():
            out[k] = struct_copy(x, memo)
        return out
    mod = getattr(type(v), '__module__', '') or ''
    if mod.startswith('hotxlfp') and not isinstance(v, BaseException) and (hasattr(v, '__dict__') or hasattr(type(v), '__slots__')):
        out = type(v).__new__(type(v))
        memo[id(v)] = out
        names = list(getattr(v, '__dict__', {}).keys()) + [n for n in getattr(type(v), '__slots__', ()) if hasattr(v, n)]
        for n in names:
            try:
                setattr(out, n, struct_copy(getattr(v, n), memo))
            except AttributeError:
                return v          # immutable (namedtuple-like): share it
        return out
    return v


def make_production(names, vals):
    from ply.yacc import YaccProduction, YaccSymbol
    syms = []
    for n, x in zip(names, vals):
        sy = YaccSymbol()
        sy.type = n
        sy.value = x
        syms.append(sy)
    return YaccProduction(syms)


def call_outcome(fn, args):
    try:
        r = fn(*args)
        if inspect.isgenerator(r):
            r = list(r)       # a generator function's outcome is the sequence it yields (or what consuming it raises)
        return api.Outcome(True, value=r)
    except api.SpecRaise as sr:
        return api.Outcome(False, exc=sr.cls, err=sr.value)
    except api.REAL['XLError'] as e:
        return api.Outcome(False, exc='XLError', err=e)
    except RecursionError:
        return api.Outcome(False, exc='RecursionError')
    except Exception as e:
        return api.Outcome(False, exc=type(e).__name__)


def outcomes_same(a, b):
    if a.ret != b.ret:
        return False
    if a.ret:
        return api.same(a.value, b.value)
    if a.exc != b.exc:
        return False
    if a.exc == 'XLError':
        return a.err is b.err
    return True


def expand_call_args(fn_decl_names, vararg_name, values):
    out = []
    for n, v in zip(fn_decl_names, values):
        if v is api.OMITTED:
            continue
        if n == vararg_name:
            out.extend(list(v))
        else:
            out.append(v)
    return out


def copy_lists(v):
    """ copy list structure only (error singletons and host objects keep their identity) """
    if type(v).__name__ == 'YaccProduction':
        return v
    if isinstance(v, list):
        return [copy_lists(x) for x in v]
    if isinstance(v, tuple):
        return tuple(copy_lists(x) for x in v)
    return v


class NativeContract(object):
    """ native view of a contract: real function + native pre/spec/post """
    def __init__(self, contract):
        self.c = contract
        self.decl = contract.decl
        cls = self.decl.cls
        self.pre = cls.__dict__.get('pre')
        self.spec = cls.__dict__.get('spec')
        self.post = cls.__dict__.get('post')
        self.post_native = cls.__dict__.get('post_native')     # clauses only the bounded native run can evaluate
        self.abstract = cls.__dict__.get('abstract')           # functional abstraction handed to callers
        self.claim = cls.__dict__.get('claim')
        self.is_lemma = contract.is_lemma
        if not self.is_lemma:
            self.real = real_function(contract.target)
            try:
                fn = contract.funcref()
                self.names = contract.param_names(fn)
                self.vararg = fn.node.args.vararg.arg if fn.node.args.vararg else None
            except Exception:
                # no def statement for the target in the source (generated by a factory ...): the real callable still has a signature
                sig = inspect.signature(self.real)
                self.names = [n for n, q in sig.parameters.items() if q.kind in (q.POSITIONAL_ONLY, q.POSITIONAL_OR_KEYWORD, q.VAR_POSITIONAL)]
                va = [n for n, q in sig.parameters.items() if q.kind == q.VAR_POSITIONAL]
                self.vararg = va[0] if va else None
        else:
            self.names = list(contract.args.keys())
            self.vararg = None

    def check(self, values):
        """ values: list aligned with self.names -> (applicable, ok, detail) """
        ft = self.decl.get('float_tol')
        api.FLOAT_TOL[0] = 1e-9 if ft is None else float(ft)      # exact comparison is opt-in (float_tol = 0)
        vals = [to_real(v) for v in values]
        try:
            if self.pre is not None and not self.pre(*vals):
                return False, True, None
        except Exception as ex:
            return False, True, 'pre raised %r' % (ex,)
        if self.is_lemma:
            try:
                ok = bool(self.claim(*vals))
            except Exception as ex:
                return True, False, 'claim raised %r' % (ex,)
            return True, ok, None if ok else 'claim is false'
        # a postcondition with an `old` parameter compares the object under the call with its state before the call
        wants_old = any(pf is not None and 'old' in inspect.signature(pf).parameters for pf in (self.post, self.post_native))
        old_self = struct_copy(vals[0]) if (wants_old and vals) else None
        call_args = expand_call_args(self.names, self.vararg, copy_lists(vals))
        if wants_old and vals:
            call_args = [vals[0]] + list(call_args[1:])          # the method works on THE object the postcondition then looks at
        actual = call_outcome(self.real, call_args)
        if self.decl.get('result_is_p0') and actual.ret:
            prod = [v for v in vals if type(v).__name__ == 'YaccProduction'][0]
            actual = api.Outcome(True, value=prod[0])
        detail = {'observed': repr(actual)}
        ok = True
        if self.abstract is not None:
            expected = call_outcome(self.abstract, vals)
            detail['expected'] = repr(expected)
            if not outcomes_same(actual, expected):
                ok = False
        if self.spec is not None:
            expected = call_outcome(self.spec, vals)
            detail['expected'] = repr(expected)
            if not outcomes_same(actual, expected):
                ok = False
        ghost = self.decl.get('ghost') or {}
        gpools = [api.samples_of(d, random.Random(0)) for d in ghost.values()]
        for pf in (self.post, self.post_native):
            if pf is None:
                continue
            if pf is self.post and self.decl.get('post_exact_reals'):
                continue      # stated over exact reals (floor / multiples): only meaningful symbolically; natively see post_native / the grids
            if ghost:
                # ghost arguments quantify over probe values: natively every sample is tried
                bad = None
                for combo in itertools.islice(itertools.product(*gpools), 200):
                    try:
                        if not pf(*(vals + list(combo) + [actual])):
                            bad = combo
                            break
                    except Exception as ex:
                        bad = (combo, repr(ex))
                        break
                if bad is not None:
                    ok = False
                    detail['ghost'] = repr(bad)
                    detail.setdefault('expected', '%s(...) holds for every probe value' % pf.__name__)
                continue
            try:
                r = pf(*(vals + ([old_self] if 'old' in inspect.signature(pf).parameters else []) + [actual]))
            except Exception as ex:
                r = False
                detail['post_raised'] = repr(ex)
            if not r:
                ok = False
                detail.setdefault('expected', '%s(...) holds' % pf.__name__)
        return True, ok, detail

    def sample_inputs(self, rng, limit):
        """ finite list of input vectors from the contract's domains (product if small, random otherwise) """
        out = []
        if self.decl.get('no_native'):
            return out
        dom_fn = self.decl.get('domain')
        if dom_fn is not None:
            for vec in dom_fn(rng):
                out.append(list(vec))
                if len(out) >= limit:
                    break
            return out
        for case in self.c.cases:
            pools = []
            bargs = self.c.decl.get('bounded_args') or {}
            if case.get('_where') and case.get('_k') not in (None, 1, 0):
                continue          # work-splitting cases share one domain: sample it once
            for n in self.names:
                if n in case and n not in bargs:
                    pools.append(api.samples_of(case[n], rng) if isinstance(case[n], api.Dom) else [case[n]])
                else:
                    d = bargs.get(n) or self.c.args.get(n)
                    if d is None or (d is not api.OMITTED and 'symmap' in d.kinds):
                        return []
                    pools.append(api.samples_of(d, rng))
            total = 1
            for p in pools:
                total *= max(1, len(p))
            per_case = max(1, limit // len(self.c.cases))
            if total <= per_case:
                out.extend(list(x) for x in itertools.product(*pools))
            else:
                for _ in range(per_case):
                    out.append([rng.choice(p) for p in pools])
        return out

    def check_guarded(self, vals, seconds=3):
        """ check() under an alarm: a native call that does not come back is skipped (reported as not applicable), it must not
            hang the checker """
        import signal

        class _Alarm(BaseException):
            pass

        def handler(signum, frame):
            raise _Alarm()
        try:
            old = signal.signal(signal.SIGALRM, handler)
        except ValueError:
            return self.check(vals)
        signal.setitimer(signal.ITIMER_REAL, seconds)
        try:
            return self.check(vals)
        except _Alarm:
            return False, True, 'native call exceeded %ds (skipped)' % seconds
        finally:
            signal.setitimer(signal.ITIMER_REAL, 0)
            signal.signal(signal.SIGALRM, old)

    def bounded_search(self, rng, limit, deadline=None):
        """ run the real function against the contract on sampled inputs; returns (cases, applicable, failures[:3]) """
        cases = 0
        applicable = 0
        fails = []
        for vals in self.sample_inputs(rng, limit):
            if deadline is not None and time.time() > deadline:
                break
            cases += 1
            try:
                app, ok, detail = self.check_guarded(vals)
            except Exception as ex:     # checker problem, not a violation
                app, ok, detail = False, True, 'check raised %r' % (ex,)
            if app:
                applicable += 1
                if not ok and len(fails) < 3:
                    fails.append({'inputs': [(n, repr(v)[:300]) for n, v in zip(self.names, vals)], 'detail': detail,
                                  '_vals': vals})
        return cases, applicable, fails
