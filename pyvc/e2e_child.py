# -*- coding: utf-8 -*-
"""
Child process of the C01 totality sweep for host values that are lazy, never-ending iterables (itertools.count(), generators,
itertools.cycle): a formula over such a value has to come back - the value is one opaque object, not a sequence to walk.
Run as:  python -m pyvc.e2e_child <scratch dir>      Prints one JSON line per case (START before, END after) so that the parent knows
which case never came back if it has to kill this process.  Address space is capped: a C-level loop that materialises the
iterable ends with MemoryError instead of taking the machine down.
"""
import itertools
import json
import resource
import sys


def self_containing_list():
    a = [1, 2]
    a.append([3, a])
    return a


def cases(formulas):
    names = sorted(formulas.supported())
    makers = {
        'itertools.count()': lambda: itertools.count(),
        'a generator that never ends': lambda: (i for i in itertools.count()),
        'itertools.cycle([1, 2])': lambda: itertools.cycle([1, 2]),
        'a list that contains itself': self_containing_list,
    }
    for name in names:
        for how, mk in makers.items():
            yield ('%s(lazy)' % name, 'variable', how, mk)
        yield ('%s(LAZYFN())' % name, 'function', 'itertools.count()', makers['itertools.count()'])
        yield ('%s(A1:B2)' % name, 'range', 'itertools.cycle([1, 2])', makers['itertools.cycle([1, 2])'])
        yield ('%s(1,lazy)' % name, 'variable', 'itertools.count()', makers['itertools.count()'])
    for text in ('lazy', 'lazy+1', 'lazy&"a"', 'lazy=1', '-lazy', 'IF(TRUE,lazy,1)', '{1,2}+lazy'):
        yield (text, 'variable', 'itertools.count()', makers['itertools.count()'])


def main():
    scratch = sys.argv[1]
    only = json.loads(sys.argv[2]) if len(sys.argv) > 2 else None
    resource.setrlimit(resource.RLIMIT_AS, (3 * 1024 ** 3, 3 * 1024 ** 3))
    sys.path.insert(0, scratch)
    import hotxlfp
    from hotxlfp import formulas
    sys.path.insert(0, __file__.rsplit('/pyvc/', 1)[0])
    from pyvc import e2e
    for i, (text, where, how, mk) in enumerate(cases(formulas)):
        if only is not None and [text, where, how] != only:
            continue
        print(json.dumps({'ev': 'START', 'i': i, 'formula': text, 'where': where, 'how': how}), flush=True)
        p = hotxlfp.Parser()
        if where == 'variable':
            p.set_variable('lazy', mk())
        elif where == 'function':
            p.set_function('LAZYFN', lambda *a, _mk=mk: _mk())
        else:
            p.on('callRangeValue', lambda a, b, setter, _mk=mk: setter(_mk()))
        try:
            r = e2e.run_with_deadline(lambda: e2e.run_budgeted(lambda: p.parse(text), 200000), 5.0)
            bad = e2e.well_formed(r)
        except e2e.Budget:
            bad = 'does not come back (line budget / 5 s)'
        except MemoryError:
            bad = 'materialises the never-ending iterable (MemoryError under a 3 GB cap)'
        except BaseException as ex:
            bad = 'parse raised %s' % type(ex).__name__
        print(json.dumps({'ev': 'END', 'i': i, 'bad': bad}), flush=True)


if __name__ == '__main__':
    main()
