# -*- coding: utf-8 -*-
"""
pyvc.frame -- ownership / effect analysis (DESIGN 2.5): one `frame` obligation per mutation sink in hotxlfp/**.

Every expression has an abstract owner:
  Fresh      created in this function (display, comprehension, list()/sorted()/dict()/x[:] / a+b / constructor call ...)
  ParseOwned the production object `p` of a grammar action and what hangs off p[0]
  Self       an attribute of self (only the registration methods may write those)
  Host       parameters of anything else, and everything reached from them, from self.<table> reads or from callbacks
  Global     module level names
A sink (in-place method, item/attribute store, del, augmented assignment on a non-fresh name, global statement, raise of a
shared object) whose target is Host or Global is a violation of "evaluation never mutates a value supplied by the host /
keeps no state between evaluations".  The analysis is syntactic and conservative: unknown means Host.
"""
import ast
import os

MUTATORS = ('append', 'extend', 'insert', 'pop', 'remove', 'sort', 'reverse', 'clear', 'update', 'setdefault', 'add', 'discard',
            'appendleft', 'popleft', 'popitem')
FRESH_CALLS = ('list', 'dict', 'set', 'tuple', 'sorted', 'str', 'int', 'float', 'bool', 'len', 'range', 'zip', 'enumerate', 'reversed',
               'defaultdict', 'deque', 'Listener', 'ParsedLabel', 'Cell', 'ExcelComparator', 'ExcelArrayOps', 'complex', 'abs', 'sum',
               'min', 'max', 'round', 'numbers', 'flatten', 'namedtuple', 'Dispatcher', 'XLError', 'Emitter', 'FormulaParser')
# methods that are *meant* to change the receiver (registration API), by class
SELF_WRITERS = {
    'Parser': ('__init__', 'set_function', 'set_variable'),
    'Emitter': ('__init__', 'on', 'once', 'off', 'emit'),     # emit: reading a defaultdict entry may create an empty list
    'FormulaParser': ('__init__',),
    'Dispatcher': ('__init__', 'register_for'),
    'ExcelComparator': ('__init__',),
    'ExcelArrayOps': ('__init__',),
    'Cell': ('__init__',),
}
CLOCK_CALLS = {('datetime', 'now'), ('datetime', 'today'), ('date', 'today'), ('random', 'random'), ('random', 'randint'), ('random', 'choice'),
               ('random', 'uniform'), ('time', 'time'), ('os', 'environ'), ('time', 'localtime'), ('time', 'mktime'), ('os', 'getenv'),
               ('datetime', 'fromtimestamp'), ('datetime', 'utcnow'), ('time', 'timezone'), ('time', 'tzname')}
# methods that read the process environment whatever object they are called on: the local time zone
ENV_METHODS = ('timestamp', 'astimezone', 'tzlocal')
CLOCK_ALLOWED = ('NOW', 'TODAY', 'RAND', 'RANDBETWEEN')


class Sink(object):
    def __init__(self, file, func, line, what, owner, ok, note=''):
        self.file = file
        self.func = func
        self.line = line
        self.what = what
        self.owner = owner
        self.ok = ok
        self.note = note

    @property
    def name(self):
        return '%s:%s:%s' % (self.file, self.func, self.what)


def owner_of(e, env, fn_kind):
    """ abstract owner of expression e; env: name -> owner for locals """
    if isinstance(e, ast.Constant):
        return 'Imm'
    if isinstance(e, (ast.List, ast.Dict, ast.Set, ast.ListComp, ast.DictComp, ast.SetComp, ast.GeneratorExp, ast.Tuple, ast.JoinedStr)):
        return 'Fresh'
    if isinstance(e, (ast.BinOp, ast.BoolOp, ast.Compare, ast.UnaryOp)):
        if isinstance(e, ast.BoolOp):
            owners = [owner_of(v, env, fn_kind) for v in e.values]
            return 'Fresh' if all(o in ('Fresh', 'Imm') for o in owners) else 'Host'
        return 'Fresh'
    if isinstance(e, ast.IfExp):
        a, b = owner_of(e.body, env, fn_kind), owner_of(e.orelse, env, fn_kind)
        return a if a == b else ('Fresh' if set((a, b)) <= set(('Fresh', 'Imm')) else 'Host')
    if isinstance(e, ast.Call):
        f = e.func
        if isinstance(f, ast.Name) and (f.id in FRESH_CALLS or f.id in REPO_CLASSES):
            return 'Fresh'          # builtin constructors; instantiating a class defined in hotxlfp/** creates a new object
        if isinstance(f, ast.Attribute) and f.attr in ('deque', 'defaultdict', 'OrderedDict', 'copy', 'clone', 'upper', 'lower', 'title', 'strip', 'replace', 'join', 'split', 'format',
                                                         'rjust', 'groups', 'group', 'lex', 'yacc', 'flatten', 'numbers', 'compile'):
            return 'Fresh'
        return 'Host'
    if isinstance(e, ast.Subscript):
        if isinstance(e.slice, ast.Slice):
            return 'Fresh'                                # a slice copies
        base = owner_of(e.value, env, fn_kind)
        if base == 'Parse':
            return 'Parse'
        if base == 'Fresh':
            return 'FreshElem'                            # element of a fresh container: may still be a host object
        return base if base in ('Self', 'Global') else 'Host'
    if isinstance(e, ast.Attribute):
        if isinstance(e.value, ast.Name) and e.value.id == 'self':
            return 'Self'
        base = owner_of(e.value, env, fn_kind)
        if base == 'Self':
            return 'Self'
        if base == 'Global':
            return 'Global'
        return 'Host' if base != 'Fresh' else 'Fresh'
    if isinstance(e, ast.Name):
        if e.id in env:
            return env[e.id]
        return 'Global'
    if isinstance(e, ast.Lambda):
        return 'Fresh'
    return 'Host'


def analyse_function(relfile, qual, node, cls_name):
    sinks = []
    is_action = cls_name in ('FormulaParser', 'Parser') and node.name.startswith('p_')
    env = {}
    args = node.args
    all_args = [a.arg for a in args.args] + ([args.vararg.arg] if args.vararg else []) + ([args.kwarg.arg] if args.kwarg else [])
    for a in all_args:
        if a == 'self':
            env[a] = 'SelfObj'
        elif is_action and a == 'p':
            env[a] = 'Parse'
        else:
            env[a] = 'Host'
    # flow-insensitive: a local is Fresh only if EVERY assignment to it is Fresh
    assigns = {}
    for n in ast.walk(node):
        if isinstance(n, ast.Assign):
            for t in n.targets:
                if isinstance(t, ast.Name):
                    assigns.setdefault(t.id, []).append(n.value)
        elif isinstance(n, ast.For):
            for t in ast.walk(n.target):
                if isinstance(t, ast.Name):
                    assigns.setdefault(t.id, []).append(None)          # loop variables hold elements: Host unless proven otherwise
        elif isinstance(n, (ast.FunctionDef, ast.Lambda)) and n is not node:
            if isinstance(n, ast.FunctionDef):
                env[n.name] = 'Fresh'
        elif isinstance(n, ast.ExceptHandler) and n.name:
            assigns.setdefault(n.name, []).append(None)
    # the target of a comprehension / generator expression is a variable of that comprehension only (Python 3 scoping): inside it the
    # name holds items of the iterated container (Host); a function local that happens to have the same name is another variable
    comp_bound = {}
    for c in ast.walk(node):
        if isinstance(c, (ast.ListComp, ast.SetComp, ast.DictComp, ast.GeneratorExp)):
            names = set(t.id for g in c.generators for t in ast.walk(g.target) if isinstance(t, ast.Name))
            for sub in ast.walk(c):
                comp_bound.setdefault(id(sub), set()).update(names)
    for _ in range(3):
        for name, vals in assigns.items():
            if name in all_args:
                # a parameter that is re-bound keeps its Host owner unless every re-binding is fresh AND it is never read before
                owners = [owner_of(v, env, is_action) if v is not None else 'Host' for v in vals]
                env[name] = 'Host' if any(o not in ('Fresh', 'Imm') for o in owners) else env[name]
                continue
            owners = [owner_of(v, env, is_action) if v is not None else 'Host' for v in vals]
            if all(o in ('Fresh', 'Imm') for o in owners):
                env[name] = 'Fresh'
            elif all(o in ('Fresh', 'Imm', 'Parse') for o in owners):
                env[name] = 'Parse'
            elif all(o == 'Self' for o in owners):
                env[name] = 'Self'
            else:
                env[name] = 'Host'
    may_write_self = node.name in SELF_WRITERS.get(cls_name or '', ())

    def judge(target_expr, what, line, at=None):
        bound = comp_bound.get(id(at), ())
        o = owner_of(target_expr, dict(env, **{b: 'Host' for b in bound}) if bound else env, is_action)
        if o in ('Fresh', 'Imm', 'Parse'):
            ok, note = True, o
        elif o in ('Self', 'SelfObj'):
            ok, note = may_write_self, 'self state written in %s.%s' % (cls_name, node.name)
        elif o == 'FreshElem':
            ok, note = False, 'element of a fresh container (may be a host object)'
        else:
            ok, note = False, o
        sinks.append(Sink(relfile, qual, line, what, o, ok, note))
    for n in ast.walk(node):
        if isinstance(n, ast.Call) and isinstance(n.func, ast.Attribute) and n.func.attr in MUTATORS:
            # str/regex methods named like mutators do not exist; deque.appendleft etc. on fresh deques are fine
            judge(n.func.value, 'L%d.%s()' % (n.lineno - node.lineno, n.func.attr), n.lineno, at=n)
        elif isinstance(n, (ast.Assign, ast.AugAssign, ast.Delete)):
            targets = n.targets if isinstance(n, (ast.Assign, ast.Delete)) else [n.target]
            for t in targets:
                if isinstance(t, ast.Subscript):
                    judge(t.value, 'L%d.store[]' % (n.lineno - node.lineno), n.lineno, at=n)
                elif isinstance(t, ast.Attribute) and t.attr in ('__traceback__', '__context__', '__cause__') and \
                        isinstance(n, ast.Assign) and isinstance(n.value, ast.Constant) and n.value.value is None:
                    # dropping retained interpreter state (never creates state)
                    sinks.append(Sink(relfile, qual, n.lineno, 'L%d.reset.%s' % (n.lineno - node.lineno, t.attr), 'Reset', True, 'drops retained state'))
                elif isinstance(t, ast.Attribute):
                    judge(t.value if not (isinstance(t.value, ast.Name) and t.value.id == 'self') else t, 'L%d.store.%s' % (n.lineno - node.lineno, t.attr), n.lineno)
                elif isinstance(t, ast.Name) and isinstance(n, ast.AugAssign) and isinstance(n.op, (ast.Add, ast.Mult, ast.BitOr, ast.BitAnd, ast.Sub)):
                    # x += y mutates x in place when x is a list / set / dict-like: a problem for every x that is not a number or an object
                    # created here - a module level name, or a local that (on some assignment) holds a value that came from the host
                    o = env.get(t.id, 'Global')
                    if o == 'Global':
                        sinks.append(Sink(relfile, qual, n.lineno, 'L%d.augassign.%s' % (n.lineno - node.lineno, t.id), o, False, 'module level name'))
                    elif o in ('Host', 'FreshElem', 'Self', 'SelfObj') and aliases_host_value(node, t.id, n.lineno, all_args):
                        sinks.append(Sink(relfile, qual, n.lineno, 'L%d.augassign.%s' % (n.lineno - node.lineno, t.id), o, False,
                                          '%s may hold an object that came from the host (a list row, a Counter ...): the augmented assignment changes it in place' % t.id))
        elif isinstance(n, ast.Global):
            sinks.append(Sink(relfile, qual, n.lineno, 'L%d.global' % (n.lineno - node.lineno), 'Global', False, 'global statement'))
    return sinks


def aliases_host_value(fn, name, line, params):
    """ may `name` at `line` still be the very object the host supplied (a parameter, an element of a host container, a loop item),
        as opposed to the result of a call / an arithmetic expression / a literal computed from it?  Flow-insensitive over the
        assignments of the function, except that a parameter counts as converted once it has been re-bound on an earlier line. """
    unsafe = False
    converted_before = False
    for n in ast.walk(fn):
        if isinstance(n, ast.Assign):
            for t in n.targets:
                if isinstance(t, ast.Name) and t.id == name:
                    v = n.value
                    if isinstance(v, (ast.Call, ast.BinOp, ast.UnaryOp, ast.Constant, ast.List, ast.Tuple, ast.Dict, ast.ListComp, ast.JoinedStr, ast.Compare, ast.BoolOp)):
                        if n.lineno < line:
                            converted_before = True
                    elif isinstance(v, ast.IfExp) and all(isinstance(x, (ast.Call, ast.BinOp, ast.Constant, ast.UnaryOp)) for x in (v.body, v.orelse)):
                        if n.lineno < line:
                            converted_before = True
                    else:
                        unsafe = True          # an alias: another name, an item of a container, an attribute
        elif isinstance(n, (ast.For, ast.comprehension)):
            for t in ast.walk(n.target):
                if isinstance(t, ast.Name) and t.id == name:
                    unsafe = True
    if unsafe:
        return True
    if name in params:
        return not converted_before
    return False


def walk_functions(repo):
    root = os.path.join(repo, 'hotxlfp')
    for d, _, files in sorted(os.walk(root)):
        for fn in sorted(files):
            if not fn.endswith('.py') or 'parsetab' in fn:
                continue
            path = os.path.join(d, fn)
            rel = os.path.relpath(path, repo)
            tree = ast.parse(open(path, encoding='utf-8').read())
            for n in tree.body:
                if isinstance(n, ast.FunctionDef):
                    yield rel, n.name, n, None, tree
                elif isinstance(n, ast.ClassDef):
                    for m in n.body:
                        if isinstance(m, ast.FunctionDef):
                            yield rel, '%s.%s' % (n.name, m.name), m, n.name, tree


REPO_CLASSES = set()


def collect_repo_classes(repo):
    """ names of the classes defined (at any level) in hotxlfp/** : calling one creates an object that belongs to the caller """
    REPO_CLASSES.clear()
    root = os.path.join(repo, 'hotxlfp')
    for d, _, files in os.walk(root):
        for fn in files:
            if fn.endswith('.py') and 'parsetab' not in fn:
                try:
                    tree = ast.parse(open(os.path.join(d, fn), encoding='utf-8').read())
                except SyntaxError:
                    continue
                for n in ast.walk(tree):
                    if isinstance(n, ast.ClassDef):
                        REPO_CLASSES.add(n.name)


def all_sinks(repo):
    collect_repo_classes(repo)
    out = []
    for rel, qual, node, cls, tree in walk_functions(repo):
        out.extend(analyse_function(rel, qual, node, cls))
    return out


def module_state(repo):
    """ module-level statements other than imports/defs/constant assignments: executed at import only, listed for the record;
        class-level mutable attributes (lists/dicts/sets) would be shared between instances """
    facts = []
    for rel, qual, node, cls, tree in walk_functions(repo):
        pass
    root = os.path.join(repo, 'hotxlfp')
    for d, _, files in sorted(os.walk(root)):
        for fn in sorted(files):
            if not fn.endswith('.py') or 'parsetab' in fn:
                continue
            path = os.path.join(d, fn)
            rel = os.path.relpath(path, repo)
            tree = ast.parse(open(path, encoding='utf-8').read())
            for n in tree.body:
                if isinstance(n, ast.ClassDef):
                    for m in n.body:
                        if isinstance(m, ast.Assign) and isinstance(m.value, (ast.List, ast.Dict, ast.Set, ast.ListComp, ast.DictComp)):
                            facts.append(('%s:%s.class-attr-mutable.%s' % (rel, n.name, getattr(m.targets[0], 'id', '?')), False,
                                          'class level mutable attribute shared by all instances'))
    return facts


READ_ONLY_CALLS = ('len', 'isinstance', 'bool', 'str', 'repr', 'sum', 'min', 'max', 'any', 'all', 'sorted', 'list', 'tuple', 'enumerate', 'zip', 'iter')


PROCESS_STATE_CALLS = {('sys', 'setrecursionlimit'), ('sys', 'settrace'), ('sys', 'setprofile'), ('sys', 'setswitchinterval'), ('locale', 'setlocale'),
                       ('os', 'chdir'), ('os', 'putenv'), ('os', 'umask'), ('random', 'seed'), ('random', 'setstate'), ('decimal', 'setcontext'),
                       ('warnings', 'filterwarnings'), ('warnings', 'simplefilter'), ('warnings', 'warn'), ('warnings', 'warn_explicit'), ('signal', 'signal'), ('signal', 'alarm'), ('socket', 'setdefaulttimeout'),
                       ('gc', 'disable'), ('gc', 'enable'), ('gc', 'set_threshold'), ('time', 'tzset'), ('threading', 'setprofile'), ('threading', 'settrace'),
                       ('faulthandler', 'enable'), ('atexit', 'register')}


def process_state_writes(repo):
    """ calls that change interpreter- or process-wide settings (recursion limit, locale, seed of the shared generator, signal handlers ...):
        whatever one evaluation sets is seen by every other parser and thread; restoring it afterwards is not atomic either """
    out = []
    for rel, qual, node, cls, tree in walk_functions(repo):
        for n in ast.walk(node):
            if isinstance(n, ast.Call) and isinstance(n.func, ast.Attribute) and isinstance(n.func.value, ast.Name) and \
                    (n.func.value.id, n.func.attr) in PROCESS_STATE_CALLS:
                out.append(('%s:%s.process-state.%s.%s' % (rel, qual, n.func.value.id, n.func.attr), False,
                            '%s.%s(...) at line %d changes a process-wide setting' % (n.func.value.id, n.func.attr, n.lineno)))
            elif isinstance(n, (ast.Assign, ast.AugAssign)):
                for t in (n.targets if isinstance(n, ast.Assign) else [n.target]):
                    b = t.value if isinstance(t, (ast.Subscript, ast.Attribute)) else None
                    while isinstance(b, (ast.Subscript, ast.Attribute)):
                        b = b.value if not (isinstance(b, ast.Attribute) and isinstance(b.value, ast.Name) and b.value.id in ('os', 'sys')) else b.value
                    if isinstance(b, ast.Name) and b.id in ('os', 'sys') and isinstance(t, (ast.Subscript, ast.Attribute)):
                        out.append(('%s:%s.process-state.%s-assignment' % (rel, qual, b.id), False, 'assignment into %s at line %d' % (ast.unparse(t), n.lineno)))
    return out


def mutable_defaults(repo):
    """ a parameter whose default is a list / dict / set display is ONE object shared by every call of the function on every parser.
        That is state only if the object can change or get out: obligation = the parameter is neither mutated nor handed to another
        callable, returned, stored or yielded (read-only uses - iteration, indexing, len ... - are fine) """
    out = []
    for rel, qual, node, cls, tree in walk_functions(repo):
        a = node.args
        params = a.args + a.kwonlyargs
        defaults = [None] * (len(a.args) - len(a.defaults)) + list(a.defaults) + list(a.kw_defaults)
        for p_, d in zip(params, defaults):
            if not isinstance(d, (ast.List, ast.Dict, ast.Set)) and not (isinstance(d, ast.Call) and isinstance(d.func, ast.Name) and d.func.id in ('list', 'dict', 'set')):
                continue
            name = p_.arg
            escapes = []
            for n in ast.walk(node):
                if isinstance(n, ast.Call):
                    fname = n.func.id if isinstance(n.func, ast.Name) else None
                    for x in list(n.args) + [k.value for k in n.keywords]:
                        if isinstance(x, ast.Name) and x.id == name and fname not in READ_ONLY_CALLS:
                            escapes.append('passed to %s at line %d' % (ast.unparse(n.func), n.lineno))
                        if isinstance(x, ast.Starred) and isinstance(x.value, ast.Name) and x.value.id == name:
                            pass      # *args unpacking copies the items
                    if isinstance(n.func, ast.Attribute) and isinstance(n.func.value, ast.Name) and n.func.value.id == name and n.func.attr in MUTATORS:
                        escapes.append('mutated by .%s() at line %d' % (n.func.attr, n.lineno))
                elif isinstance(n, (ast.Return, ast.Yield)) and isinstance(n.value, ast.Name) and n.value.id == name:
                    escapes.append('returned at line %d' % n.lineno)
                elif isinstance(n, ast.Assign):
                    if isinstance(n.value, ast.Name) and n.value.id == name:
                        escapes.append('stored at line %d' % n.lineno)
                    for t in n.targets:
                        if isinstance(t, ast.Subscript) and isinstance(t.value, ast.Name) and t.value.id == name:
                            escapes.append('item assigned at line %d' % n.lineno)
                elif isinstance(n, ast.AugAssign) and isinstance(n.target, ast.Name) and n.target.id == name:
                    escapes.append('augmented in place at line %d' % n.lineno)
            out.append(('%s:%s.mutable-default.%s' % (rel, qual, name), not escapes,
                        'parameter %s of %s defaults to one shared %s that is %s' % (name, qual, ast.unparse(d), '; '.join(escapes) or 'only read')))
    return out


def clock_reads(repo):
    """ call sites of clock / random / environment sources; allowed only in NOW, TODAY, RAND, RANDBETWEEN """
    out = []
    for rel, qual, node, cls, tree in walk_functions(repo):
        for n in ast.walk(node):
            if isinstance(n, ast.Attribute) and isinstance(n.value, (ast.Name, ast.Attribute)):
                base = n.value.id if isinstance(n.value, ast.Name) else n.value.attr
                if (base, n.attr) in CLOCK_CALLS:
                    out.append(('%s:%s.reads.%s.%s' % (rel, qual, base, n.attr), qual in CLOCK_ALLOWED, 'clock/random source read in %s' % qual))
                elif n.attr in ENV_METHODS:
                    out.append(('%s:%s.reads.local-time-zone.%s' % (rel, qual, n.attr), False,
                                '.%s() converts through the process time zone: the value depends on where the process runs (%s)' % (n.attr, qual)))
            if isinstance(n, ast.Call) and isinstance(n.func, ast.Name) and n.func.id in CLOCK_ALLOWED and qual not in CLOCK_ALLOWED:
                # the library's own volatile functions called from another function: that function now depends on the clock / generator too
                out.append(('%s:%s.reads.%s()' % (rel, qual, n.func.id), False, '%s calls the volatile function %s()' % (qual, n.func.id)))
            if isinstance(n, ast.Call) and isinstance(n.func, ast.Name) and n.func.id == 'to_date':
                # dateutil.parser.parse without default=: missing fields are filled from today's date
                has_default = any(k.arg == 'default' for k in n.keywords)
                out.append(('%s:%s.reads.dateutil-default' % (rel, qual), has_default, 'dateutil.parser.parse fills missing date fields from the clock'))
    return out


def raise_sites(repo):
    """ `raise X` where X is a shared object (module level error singleton, or a value that came from the host): CPython
        appends the new traceback to the instance on every raise """
    out = []
    for rel, qual, node, cls, tree in walk_functions(repo):
        for n in ast.walk(node):
            if isinstance(n, ast.Raise) and n.exc is not None:
                e = n.exc
                # fresh = an exception object created at the raise site (constructor call, or a bare exception class)
                ctor = e.func if isinstance(e, ast.Call) else e
                cname = ctor.id if isinstance(ctor, ast.Name) else (ctor.attr if isinstance(ctor, ast.Attribute) else '')
                fresh = cname.endswith('Error') or cname.endswith('Exception') or cname == 'StopIteration'
                out.append({'site': '%s:%s:L%d' % (rel, qual, n.lineno - node.lineno), 'fresh': fresh, 'expr': ast.unparse(e)})
    return out
