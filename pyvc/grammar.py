# -*- coding: utf-8 -*-
"""
pyvc.grammar -- finite `table` obligations about the grammar that actually runs: the productions and precedence of the
real FormulaParser class, and the LALR action table of a parser instance built the way the runtime builds it
(from the scratch copy: PLY reads parser_FormulaParser_parsetab.py when its signature matches, else regenerates in memory).
"""
import os

CMP = ('GREATER', 'LESS', 'GREATEREQ', 'LESSEQ', 'EQUAL', 'NOTEQUAL')
ADD = ('PLUS', 'MINUS')
MUL = ('MULT', 'DIV')
BINARY = CMP + ADD + MUL + ('AMP',)
TOK_TEXT = {'GREATER': '>', 'LESS': '<', 'GREATEREQ': '>=', 'LESSEQ': '<=', 'EQUAL': '=', 'NOTEQUAL': '<>', 'PLUS': '+',
            'MINUS': '-', 'MULT': '*', 'DIV': '/', 'AMP': '&'}


def level(tok):
    if tok in CMP:
        return 0
    if tok in ADD:
        return 1
    if tok in MUL:
        return 2
    if tok == 'UMINUS':
        return 3
    return None


def expected_action(item_op, la):
    """ what the statement of C04 demands for a complete item `E -> E item_op E .` (or unary minus: item_op = 'UMINUS')
        with operator lookahead `la`: 'reduce' / 'shift' / None (not determined by the statement) """
    if item_op == 'UMINUS':
        return 'reduce'                       # unary minus binds tightest
    if item_op == 'AMP' or la == 'AMP':
        if item_op == 'AMP' and la == 'AMP':
            return 'reduce'                   # equal level groups left to right
        if item_op == 'AMP' and la in CMP:
            return 'reduce'                   # & binds tighter than comparisons
        if item_op in CMP and la == 'AMP':
            return 'shift'
        return None                           # & against + - * /: not fixed by the statement
    if item_op in CMP and la in CMP:
        return None                           # one comparison per parenthesis-free region
    a, b = level(item_op), level(la)
    return 'reduce' if a >= b else 'shift'


class Tables(object):
    def __init__(self):
        import hotxlfp
        self.parser = hotxlfp.Parser()
        self.fp = self.parser.parser
        self.lr = self.fp.yacc
        self.action = self.lr.action
        self.goto = self.lr.goto
        self.prods = []
        for i, p in enumerate(self.lr.productions):
            s = getattr(p, 'str', None) or str(p)
            lhs, _, rhs = s.partition(' -> ')
            rhs = [] if rhs.strip() in ('', '<empty>') else rhs.split()
            self.prods.append((i, lhs.strip(), rhs, getattr(p, 'func', None) or getattr(p, 'callable', None)))
        self.precedence = type(self.fp).precedence

    def prod_index(self, lhs, rhs):
        for i, l, r, _ in self.prods:
            if l == lhs and r == list(rhs):
                return i
        return None

    def reducible(self, state):
        """ production numbers some lookahead reduces by in this state """
        return set(-a for a in self.action[state].values() if a < 0)


def g1_shape(t):
    """ binary productions are exactly E -> E OP E for the 11 operators; unary minus; parentheses """
    out = []
    for op in BINARY:
        ok = t.prod_index('expression', ['expression', op, 'expression']) is not None
        out.append(('G1.binary.%s' % op, ok, 'expression -> expression %s expression' % op))
    out.append(('G1.uminus', t.prod_index('expression', ['MINUS', 'expression']) is not None, 'expression -> MINUS expression'))
    out.append(('G1.paren', t.prod_index('expression', ['LPAREN', 'expression', 'RPAREN']) is not None, 'expression -> ( expression )'))
    # no other production with an operator token between two expressions
    extra = [r for _, l, r, _ in t.prods if l == 'expression' and len(r) == 3 and r[0] == 'expression' and r[2] == 'expression'
             and r[1] not in BINARY]
    out.append(('G1.no-other-binary', not extra, repr(extra)))
    return out


def g2_relation(t):
    """ the declared precedence satisfies the relation of the statement """
    lvl = {}
    assoc = {}
    for i, row in enumerate(t.precedence):
        for tok in row[1:]:
            lvl[tok] = i
            assoc[tok] = row[0]
    out = []
    needed = ('UMINUS', 'MULT', 'DIV', 'PLUS', 'MINUS', 'AMP') + CMP
    missing = [x for x in needed if x not in lvl]
    if missing:
        # a token without a declared level: the relation of the statement cannot hold for it
        return [('G2.declared.%s' % x, False, 'no precedence declared for %s' % x) for x in missing]

    def chk(name, cond):
        out.append(('G2.' + name, bool(cond), ''))
    chk('uminus>mult', lvl['UMINUS'] > lvl['MULT'] and lvl['UMINUS'] > lvl['DIV'])
    chk('mult=div', lvl['MULT'] == lvl['DIV'])
    chk('mult>plus', lvl['MULT'] > lvl['PLUS'])
    chk('plus=minus', lvl['PLUS'] == lvl['MINUS'])
    for c in CMP:
        chk('plus>%s' % c, lvl['PLUS'] > lvl[c])
        chk('amp>%s' % c, lvl['AMP'] > lvl[c])
    chk('uminus>amp', lvl['UMINUS'] > lvl['AMP'])
    for tok in ADD + MUL + ('AMP',):
        chk('left.%s' % tok, assoc[tok] == 'left')
    return out


def g3_table(t):
    """ every (complete binary/unary item, operator lookahead) entry of the running table agrees with the statement """
    out = []
    items = []
    for op in BINARY:
        r = t.prod_index('expression', ['expression', op, 'expression'])
        if r is not None:
            items.append((op, r))
    r = t.prod_index('expression', ['MINUS', 'expression'])
    if r is not None:
        items.append(('UMINUS', r))
    n = 0
    for state in sorted(t.action):
        red = t.reducible(state)
        for op, r in items:
            if r not in red:
                continue
            for la in BINARY:
                exp = expected_action(op, la)
                if exp is None:
                    continue
                a = t.action[state].get(la)
                got = None if a is None else ('reduce' if a == -r else ('shift' if a > 0 else 'reduce-other'))
                n += 1
                out.append(('G3.state%d.%s.la-%s' % (state, op, la), got == exp, 'expected %s got %s' % (exp, got)))
    # parentheses: the state after ( E has to shift RPAREN
    pr = t.prod_index('expression', ['LPAREN', 'expression', 'RPAREN'])
    out.append(('G3.decision-points>0', n > 0, '%d decision points' % n))
    return out


def expseq_resolution(t):
    """ C05: where several `expseqX : expression` items are complete, the separator lookahead decides the right one """
    want = {'SEMICOLON': 'expseqsemicolon', 'COMMA': 'expseqcomma', 'BACKSLASH': 'expseqbackslash'}
    idx = {nt: t.prod_index(nt, ['expression']) for nt in want.values()}
    out = []
    n = 0
    for state in sorted(t.action):
        red = t.reducible(state)
        if sum(1 for i in idx.values() if i is not None and i in red) < 2:
            continue          # only the states where the reduce/reduce conflict between the three rules exists
        for la, nt in want.items():
            a = t.action[state].get(la)
            if a is None:
                continue
            n += 1
            out.append(('expseq.state%d.la-%s' % (state, la), a == -idx[nt], 'reduces by production %s, expected %s' % (a, -idx[nt])))
    out.append(('expseq.decision-points>0', n > 0, '%d decision points' % n))
    return out


def run(fn_list):
    t = Tables()
    res = []
    for fn in fn_list:
        try:
            res.extend(fn(t))
        except Exception as ex:          # the artefact no longer has the shape the obligation talks about
            res.append(('%s.evaluable' % fn.__name__, False, 'could not be evaluated on this grammar: %r' % (ex,)))
    return res
