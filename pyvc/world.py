# -*- coding: utf-8 -*-
"""
pyvc.world -- module loading from the real source tree, contract registry, call-by-contract,
loops with invariants, lazily instantiated axioms, and the spec API as seen by the symbolic executor.
"""
import ast
import os
import z3
import hashlib
import datetime

from .vals import *   # noqa
from .interp import (OutOfReach, PyRaise, Infeasible, PathEnd, TypeRef, ExcClass, ExcInst, FuncRef, ClassRef, Obj,
                     NamedTupleClass, BoundMethod, Closure, Builtin, ExtRef, ModRef, TDelta, HostFn, Frame, Ctx,
                     Interp, int_term, real_term, plain, _Return, _Break, _Continue, T_XLERROR, T_NONE, T_DATETIME,
                     _Star, EXC_PARENT)
from .ops import Ops, SymMapView, is_plain_index
from .builtins import Builtins, SymRange, SymZip, SymEnumerate, date_field, civil_us, civil_ok
from . import builtins as B

EXTERNAL_MODULES = ('math', 're', 'datetime', 'operator', 'fnmatch', 'itertools', 'functools', 'random', 'statistics',
                    'calendar', 'collections', 'time', 'traceback', 'fractions', 'os', 'ply', 'dateutil')


class ModuleInfo(object):
    def __init__(self, world, name, path, is_spec=False, fallback=None):
        self.world = world
        self.name = name
        self.path = path
        self.is_spec = is_spec
        self.fallback = fallback
        with open(path, 'r', encoding='utf-8') as f:
            self.source = f.read()
        self.sha = hashlib.sha256(self.source.encode('utf-8')).hexdigest()
        self.tree = ast.parse(self.source, path)
        self.defs = {}        # name -> ('func', node) | ('class', node) | ('assign', expr) | ('import', target) ...
        self.cache = {}
        self._scan()

    def runtime_mutated(self):
        """ module-level names bound to objects that some function of this module modifies in place (item store / delete,
            mutating method, attribute store) or re-binds (global statement): state that outlives a call """
        if getattr(self, '_rtm', None) is None:
            from .frame import MUTATORS
            out = set()
            top = set(k for k, v in self.defs.items() if v[0] in ('assign', 'assign_item'))
            for fn in ast.walk(self.tree):
                if not isinstance(fn, (ast.FunctionDef, ast.Lambda)):
                    continue
                a = fn.args
                local = set(x.arg for x in a.args + a.kwonlyargs) | set(x.arg for x in (a.vararg, a.kwarg) if x)
                globs = set()
                for n in ast.walk(fn):
                    if isinstance(n, ast.Global):
                        globs.update(n.names)
                    elif isinstance(n, ast.Name) and isinstance(n.ctx, ast.Store):
                        local.add(n.id)
                local -= globs
                out.update(g for g in globs if g in top)

                def hit(e):
                    if isinstance(e, ast.Name) and e.id in top and e.id not in local:
                        out.add(e.id)
                for n in ast.walk(fn):
                    if isinstance(n, ast.Call) and isinstance(n.func, ast.Attribute) and n.func.attr in MUTATORS:
                        hit(n.func.value)
                    elif isinstance(n, (ast.Assign, ast.AugAssign, ast.Delete)):
                        for t in (n.targets if isinstance(n, (ast.Assign, ast.Delete)) else [n.target]):
                            if isinstance(t, ast.Subscript):
                                hit(t.value)
                            elif isinstance(t, ast.Attribute) and not t.attr.startswith('__'):
                                hit(t.value)
            self._rtm = out
        return self._rtm

    def _scan(self):
        pkg = self.name.rsplit('.', 1)[0] if '.' in self.name else ''
        is_pkg = os.path.basename(self.path) == '__init__.py'
        cur_pkg = self.name if is_pkg else pkg
        for node in self.tree.body:
            if isinstance(node, ast.FunctionDef):
                self.defs[node.name] = ('func', node)
            elif isinstance(node, ast.ClassDef):
                self.defs[node.name] = ('class', node)
            elif isinstance(node, ast.Assign):
                for t in node.targets:
                    if isinstance(t, ast.Name):
                        self.defs[t.id] = ('assign', node.value)
                    elif isinstance(t, ast.Tuple):
                        for i, e in enumerate(t.elts):
                            if isinstance(e, ast.Name):
                                self.defs[e.id] = ('assign_item', (node.value, i))
            elif isinstance(node, ast.Import):
                for a in node.names:
                    nm = a.asname or a.name.split('.')[0]
                    self.defs[nm] = ('extmod', a.name if a.asname else a.name.split('.')[0])
            elif isinstance(node, ast.ImportFrom):
                if node.level:
                    parts = cur_pkg.split('.')
                    base = '.'.join(parts[:len(parts) - (node.level - 1)])
                    modname = base + ('.' + node.module if node.module else '')
                else:
                    modname = node.module
                for a in node.names:
                    nm = a.asname or a.name
                    self.defs[nm] = ('from', (modname, a.name))

    def sha_of(self, node):
        return hashlib.sha256(ast.dump(node).encode('utf-8')).hexdigest()[:16]


class World(object):

    def __init__(self, repo_root, contract_dir):
        self.repo_root = repo_root
        self.contract_dir = contract_dir
        self.modules = {}
        self.ops = Ops(self)
        self.builtins = Builtins(self)
        self.loops = Loops(self)
        self.axioms = Axioms(self)
        self.specapi = SpecAPI(self)
        self.contracts = {}      # fullname -> Contract
        self.files_read = {}
        self.current = None      # contract under verification
        self.frame_events = []
        self.elem = {}           # id(Sym) -> elem kinds  (python side annotation)
        self.spec_modules = []

    # ------------------------------------------------------------------ modules
    def module(self, name):
        if name in self.modules:
            return self.modules[name]
        path = self.find_module(name)
        if path is None:
            return None
        m = ModuleInfo(self, name, path)
        self.modules[name] = m
        self.files_read[os.path.relpath(path, self.repo_root)] = m.sha
        return m

    def find_module(self, name):
        if not name.startswith('hotxlfp'):
            return None
        rel = name.replace('.', os.sep)
        p1 = os.path.join(self.repo_root, rel + '.py')
        p2 = os.path.join(self.repo_root, rel, '__init__.py')
        if os.path.isfile(p1):
            return p1
        if os.path.isfile(p2):
            return p2
        return None

    def spec_module(self, path, name, fallback=None):
        key = 'spec:' + name
        if key not in self.modules:
            self.modules[key] = ModuleInfo(self, key, path, is_spec=True, fallback=fallback)
        return self.modules[key]

    def function(self, fullname):
        """ 'hotxlfp.formulas.text:RIGHT' or 'hotxlfp.parser:Parser.parse' -> FuncRef """
        modname, _, qual = fullname.partition(':')
        m = self.module(modname)
        if m is None:
            raise OutOfReach('module %s not found' % modname)
        parts = qual.split('.')
        if len(parts) == 1:
            d = m.defs.get(parts[0])
            if d is None or d[0] != 'func':
                raise KeyError('function %s not found' % fullname)
            return FuncRef(m, qual, d[1])
        cls = self.module_attr(None, m, parts[0])
        if not isinstance(cls, ClassRef):
            raise KeyError('class %s not found' % fullname)
        if len(parts) == 2:
            f = cls.methods.get(parts[1])
            if f is None:
                raise KeyError('method %s not found' % fullname)
            return f
        # nested function inside a method: Parser.call_function.valsetter -> returns the FunctionDef node wrapper
        f = cls.methods.get(parts[1])
        node = f.node
        for p in parts[2:]:
            node = [n for n in ast.walk(node) if isinstance(n, ast.FunctionDef) and n.name == p][0]
        return FuncRef(m, qual, node, cls=cls)

    def module_attr(self, it, m, name):
        key = name
        if key in m.cache:
            return m.cache[key]
        d = m.defs.get(name)
        if d is None:
            if m.fallback is not None:
                return self.module_attr(it, m.fallback, name)
            sub = self.module(m.name + '.' + name) if not m.is_spec else None
            if sub is not None:
                return ModRef(sub)
            raise PyRaise('AttributeError', ExcInst('AttributeError'), msg='%s.%s' % (m.name, name))
        kind, payload = d
        if kind == 'func':
            v = FuncRef(m, name, payload, is_spec=m.is_spec)
        elif kind == 'class':
            v = self.make_class(m, name, payload)
        elif kind == 'extmod':
            v = ExtRef(payload)
        elif kind == 'from':
            modname, attr = payload
            v = self.import_from(it, modname, attr)
        elif kind == 'assign':
            v = self.eval_const(m, payload, name)
        elif kind == 'assign_item':
            v = self.eval_const(m, payload[0], name)[payload[1]]
        else:
            raise OutOfReach('module attr kind %s' % kind)
        m.cache[key] = v
        return v

    def import_from(self, it, modname, attr):
        root = modname.split('.')[0]
        if root == 'hotxlfp':
            sub = self.module(modname + '.' + attr)
            m = self.module(modname)
            if m is not None and attr in m.defs and not (sub is not None and m.defs[attr] == ('from', (modname, attr))):
                return self.module_attr(it, m, attr)
            if sub is not None:
                return ModRef(sub)
            if m is None:
                raise OutOfReach('cannot import %s from %s' % (attr, modname))
            return self.module_attr(it, m, attr)
        if root in EXTERNAL_MODULES:
            return self.builtins.ext_attr(it, ExtRef(modname), attr)
        raise OutOfReach('import from %s' % modname)

    def make_class(self, m, name, node):
        c = ClassRef(m, name, node)
        for b in node.bases:
            if isinstance(b, ast.Name):
                if b.id == 'object':
                    continue
                if b.id in EXC_PARENT or b.id == 'RuntimeError':
                    c.bases.append(ExcClass(b.id))
                    continue
                try:
                    c.bases.append(self.module_attr(None, m, b.id))
                except PyRaise:
                    raise OutOfReach('base class %s' % b.id)
            else:
                raise OutOfReach('base class expression')
        for n in node.body:
            if isinstance(n, ast.FunctionDef):
                c.methods[n.name] = FuncRef(m, name + '.' + n.name, n, cls=c, is_spec=m.is_spec)
            elif isinstance(n, ast.Assign):
                for t in n.targets:
                    if isinstance(t, ast.Name):
                        c.attrs[t.id] = n.value
        # XLError(RuntimeError) is the error value class
        if name == 'XLError' and any(isinstance(b, ExcClass) for b in c.bases):
            return T_XLERROR
        # method aliases (__radd__ = __add__)
        for k, v in list(c.attrs.items()):
            if isinstance(v, ast.Name) and v.id in c.methods:
                c.methods[k] = c.methods[v.id]
        return c

    def class_attr(self, it, cls, name):
        if name in cls.attrs:
            key = ('classattr', cls.fullname, name)
            if key not in cls.module.cache:
                cls.module.cache[key] = self.eval_const(cls.module, cls.attrs[name], name)
            return cls.module.cache[key]
        for b in cls.bases:
            if isinstance(b, ClassRef):
                v = self.class_attr(it, b, name)
                if v is not NotImplemented:
                    return v
        return NotImplemented

    def eval_const(self, m, expr, name):
        """ evaluate a module level assignment concretely (constant folding through the same interpreter) """
        ctx = Ctx()
        it = Interp(self, ctx)
        frame = Frame(m)
        # special forms
        if isinstance(expr, ast.Call):
            fn = expr.func
            if isinstance(fn, ast.Name) and fn.id == 'namedtuple':
                nm = expr.args[0].value
                fields = [e.value for e in expr.args[1].elts]
                return NamedTupleClass(nm, fields)
            if isinstance(fn, ast.Attribute) and fn.attr == 'compile' and isinstance(fn.value, ast.Name) and fn.value.id == 're':
                import re
                args = [ast.literal_eval(a) for a in expr.args[:1]]
                flags = 0
                for a in expr.args[1:]:
                    if isinstance(a, ast.Attribute):
                        flags |= getattr(re, a.attr)
                return CompiledRegex(args[0], flags)
            if isinstance(fn, ast.Name) and fn.id == 'Dispatcher':
                return Obj(self.module_attr(None, m, 'Dispatcher'), {'_registry_': '<registry>'})
            if isinstance(fn, ast.Name) and fn.id == 'XLError':
                msg = expr.args[0].value
                if msg in ERR_MSGS:
                    return Err(ERR_MSGS.index(msg))
        v = it.eval(expr, frame)
        if ctx.trace:
            raise OutOfReach('module constant %s is not constant' % name)
        return v

    def resolve_global(self, it, module, name):
        if not module.is_spec and name in module.runtime_mutated():
            # what it holds when the function under contract is entered depends on the calls made before: nothing the
            # contract quantifies over - a proof that read its import-time value would be a proof about fresh processes only
            raise OutOfReach('module-level object %s.%s is modified by functions at run time: its content depends on the history' % (module.name, name))
        try:
            return self.module_attr(it, module, name)
        except PyRaise:
            pass
        if module.is_spec:
            for m2 in self.spec_modules:
                if m2 is not module and name in m2.defs:
                    return self.module_attr(it, m2, name)
            v = self.specapi.lookup(name)
            if v is not NotImplemented:
                return v
        v = self.builtins.lookup(name)
        if v is not NotImplemented:
            return v
        raise PyRaise('NameError', ExcInst('NameError'), msg=name)

    def registry_names(self):
        """ names registered with @dispatcher.register_for(...) in hotxlfp/formulas/*.py (read from the decorators) """
        if getattr(self, '_registry', None) is None:
            names = {}
            d = os.path.join(self.repo_root, 'hotxlfp', 'formulas')
            for fn in sorted(os.listdir(d)):
                if not fn.endswith('.py'):
                    continue
                tree = ast.parse(open(os.path.join(d, fn), encoding='utf-8').read())
                for n in tree.body:
                    if isinstance(n, ast.FunctionDef):
                        for dec in n.decorator_list:
                            if isinstance(dec, ast.Call) and isinstance(dec.func, ast.Attribute) and dec.func.attr == 'register_for':
                                for arg in dec.args:
                                    if isinstance(arg, ast.Constant) and isinstance(arg.value, str):
                                        names[arg.value] = '%s:%s' % (fn[:-3], n.name)
            self._registry = names
        return self._registry

    # ------------------------------------------------------------------ element kinds of symbolic lists
    def elem_kinds(self, s):
        return getattr(s, '_elem', None) or self.elem.get(id(s), ALL_KINDS)

    def set_elem_kinds(self, s, kinds):
        self.elem[id(s)] = frozenset(kinds)
        self._keep = getattr(self, '_keep', [])
        self._keep.append(s)

    def copy_elem_kinds(self, a, b):
        if id(a) in self.elem:
            self.set_elem_kinds(b, self.elem[id(a)])

    # ------------------------------------------------------------------ frame hooks (writes / raises)
    def note_write(self, it, target, what):
        pass

    def note_raise(self, it, stmt, value, frame):
        pass

    # ------------------------------------------------------------------ calls
    def call_by_contract(self, it, fn, args, kwargs):
        from .verify import opaque_decorators
        odd = opaque_decorators(fn.node)
        if odd:
            # what the name is bound to is whatever the decorator returned (a memoising wrapper, say), not this body
            raise OutOfReach('callee %s is decorated with %s: the callable that runs is not the function body' % (fn.fullname, ', '.join(odd)))
        c = self.contracts.get(fn.fullname)
        if c is None:
            # a helper without a contract (for instance one that a refactoring has just split off): there is nothing to check
            # the caller against, so its body is executed as part of the caller (flagged; nesting bounded)
            depth = getattr(it, 'inline_depth', 0)
            if depth >= 3:
                raise OutOfReach('no contract for callee %s (uncontracted helpers nested deeper than 3)' % fn.fullname)
            it.ctx.flags.add('inlined uncontracted callee %s' % fn.fullname)
            it.inline_depth = depth + 1
            try:
                return it.run_function(fn.node, fn.module, args, kwargs, func=fn)
            finally:
                it.inline_depth = depth
        cur = self.current
        inl = (cur.decl.get('inline_callees') or ()) if cur is not None else ()
        if cur is not None and (c.name in inl or fn.qualname in inl):
            # a small helper of the same class, itself under contract, executed inline (flagged: not modular at this call site)
            it.ctx.flags.add('inlined callee %s in %s' % (c.name, cur.name))
            return it.run_function(fn.node, fn.module, args, kwargs, func=fn)
        return c.apply(it, fn, args, kwargs)

    def class_assigns_attr(self, cls, name):
        """ does some method of the class (or of a base class defined in the repo) assign self.<name>? """
        key = (id(cls), name)
        cache = self.__dict__.setdefault('_assigns_cache', {})
        if key not in cache:
            found = False
            node = getattr(cls, 'node', None)
            for n in (ast.walk(node) if node is not None else ()):
                if isinstance(n, ast.Attribute) and n.attr == name and isinstance(n.ctx, ast.Store) and isinstance(n.value, ast.Name) and n.value.id == 'self':
                    found = True
                    break
            if not found:
                found = any(isinstance(b, ClassRef) and self.class_assigns_attr(b, name) for b in getattr(cls, 'bases', ()))
            cache[key] = found
        return cache[key]

    def call_inductive(self, it, fn, args, kwargs):
        """ application of an @inductive spec function (recursion on the first, integer, parameter).  Concrete first argument:
            the definition is executed.  Symbolic: the uninterpreted application F(k, args) plus, as an axiom, the defining
            equation unfolded once at this k (recursive calls inside the unfolding stay applications). """
        if kwargs:
            raise OutOfReach('keyword arguments to an inductive spec function')
        k = args[0]
        if is_plain_index(k):
            return it.run_function(fn.node, fn.module, args, {}, func=fn)
        ks = as_sym(k)
        if it.ctx.narrow(ks) not in (INT, BOOL):
            raise OutOfReach('inductive spec function applied to a non-integer')
        kt = int_term(it.ctx, ks)
        try:
            ts = [to_val(v) for v in args[1:]]
        except Unliftable as u:
            raise OutOfReach('inductive spec function %s: %s' % (fn.qualname, u))
        F = z3.Function('ind_' + fn.qualname.replace('.', '_'), *([z3.IntSort()] + [Val] * len(ts) + [Val]))
        app = F(kt, *ts)
        it.ctx.flags.add('spec:inductive %s (unfolded once per application)' % fn.qualname)
        if getattr(self, 'ind_depth', 0) == 0:
            key = ('ind', app.sexpr())
            done = getattr(it.ctx, 'ind_done', None)
            if done is None:
                done = it.ctx.ind_done = set()
            if key not in done:
                done.add(key)

                def body(it2):
                    return it2.run_function(fn.node, fn.module, [ks] + list(args[1:]), {}, func=fn)
                self.ind_depth = 1
                try:
                    b = merge_value(it, body)
                finally:
                    self.ind_depth = 0
                it.ctx.axiom(app == b)
                kinds = term_kinds(b)
                if kinds != ALL_KINDS:
                    it.ctx.axiom(is_kind(app, *sorted(kinds)))
        # a number; or None ("nothing yet") when the definition has a `return None`
        opt = any(isinstance(n, ast.Return) and (n.value is None or (isinstance(n.value, ast.Constant) and n.value.value is None))
                  for n in ast.walk(fn.node))
        ret = getattr(fn.node, 'returns', None)
        if isinstance(ret, ast.Name) and ret.id == 'int':
            it.ctx.axiom(is_kind(app, INT))          # declared `-> int`: positions, counts, 0/1 flags
            return Sym(app, (INT,))
        return Sym(app, (NONE, INT, FLOAT) if opt else (INT, FLOAT))

    def instantiate(self, it, cls, args, kwargs):
        init = cls.find_method('__init__')
        o = Obj(cls, {})
        if init is not None:
            c = self.contracts.get(init.fullname)
            if c is None:
                raise OutOfReach('no contract for constructor %s' % init.fullname)
            c.apply(it, init, [o] + list(args), kwargs)
        return o

    def call_host(self, it, fn, args, kwargs, want=None):
        """ call-out to host code: any value of kind `want` (default: any) or any Exception.  The ghost log records
            callee, arguments and outcome. """
        ctx = it.ctx
        entry = {'kind': 'host', 'fn': fn, 'args': list(args), 'kwargs': dict(kwargs), 'result': None}
        ctx.log.append(entry)
        cur = self.current
        if cur is not None and 'havoc' in getattr(cur, 'fns', {}):
            # what host code may do to the object under verification while it runs (the contract's `havoc` function)
            it.call(cur.fns['havoc'], list(ctx.inputs_vals))
        c = ctx.choose([True, True, True])
        if c == 1:
            # raises an XLError instance (canonical or not)
            code = ctx.fresh(z3.IntSort(), 'hosterr')
            ctx.assume(code >= 0)
            e = mk_err(code)
            entry['result'] = ('raise', 'XLError', e)
            raise PyRaise('XLError', e)
        if c == 2:
            entry['result'] = ('raise', 'AnyException', None)
            raise PyRaise('AnyException', ExcInst('AnyException'))
        r = ctx.fresh_val('host_ret', kinds=(want,) if want else ALL_KINDS)
        entry['result'] = ('ret', r)
        return r


class CompiledRegex(object):
    def __init__(self, pattern, flags):
        self.pattern = pattern
        self.flags = flags


# ---------------------------------------------------------------------------------------------------- loops

_MERGE_CACHE = {}


def arg_key(v):
    if isinstance(v, Sym):
        return ('S', v.val.sexpr(), tuple(sorted(v.kinds)))
    if isinstance(v, (list, tuple)):
        return tuple(arg_key(x) for x in v)
    if v is None or isinstance(v, (bool, int, float, str)):
        return ('C', type(v).__name__, v)
    if isinstance(v, Obj):
        return ('Obj', tuple(sorted((k, arg_key(x)) for k, x in v.attrs.items())))
    return ('O', repr(v))


def merge_eval(it, thunk, key=None):
    """ evaluate a side-effect-free predicate thunk(it2) -> value along all its paths and merge into one Bool term
        (the disjunction over paths of path-condition /\\ truth).  A path that raises counts as False.
        `key` (callee, argument term ids): results are cached per (key, path condition) - terms are hash-consed and the
        fresh-name sequence of a run is deterministic, so re-executions of the same prefix see the same terms. """
    parent = it.ctx
    ck = None
    if key is not None:
        ck = (key, tuple(c.sexpr() for c in parent.pc))
        hit = _MERGE_CACHE.get(ck)
        if hit is not None:
            for ax in hit[2]:
                parent.axiom(ax)
            return hit[0]
    n_ax = len(parent.axioms)
    r = _merge_eval(it, thunk)
    if ck is not None:
        _MERGE_CACHE[ck] = (r, list(parent.pc), list(parent.axioms[n_ax:]))
    return r


def _merge_eval(it, thunk):
    parent = it.ctx
    base_len = len(parent.pc)
    disj = []
    stack = [[]]
    guard = 0
    while stack:
        prefix = stack.pop()
        guard += 1
        if guard > 4000:
            raise OutOfReach('predicate has too many paths')
        sub = Ctx(prefix)
        sub.counter = parent.counter + 1000 * guard
        sub.inherit(parent)
        it2 = Interp(it.world, sub)
        res = None
        try:
            v = thunk(it2)
            t = it2.truth(v)
            res = t
        except Infeasible:
            res = None
        except PyRaise:
            res = False
        finally:
            sub.undo_narrowing()
        for ax in sub.axioms:
            parent.axiom(ax)
        for i in range(len(prefix), len(sub.trace)):
            ch, n = sub.trace[i]
            for alt in range(ch + 1, n):
                stack.append([x[0] for x in sub.trace[:i]] + [alt])
        if res:
            disj.append(z3.And(*sub.pc) if sub.pc else z3.BoolVal(True))
    if not disj:
        return z3.BoolVal(False)
    return z3.simplify(z3.Or(*disj)) if len(disj) > 1 else z3.simplify(disj[0])


def merge_value(it, thunk):
    """ like merge_eval but merges the (Val) values of all paths into an If-chain; raising paths are out of reach """
    parent = it.ctx
    cases = []
    stack = [[]]
    guard = 0
    while stack:
        prefix = stack.pop()
        guard += 1
        if guard > 4000:
            raise OutOfReach('expression has too many paths')
        sub = Ctx(prefix)
        sub.counter = parent.counter + 1000 * guard
        sub.inherit(parent)
        it2 = Interp(it.world, sub)
        val = None
        try:
            v = thunk(it2)
            val = to_val(v)
        except Infeasible:
            val = None
        except PyRaise as pr:
            raise OutOfReach('merged expression may raise %s' % pr.cls)
        except Unliftable as u:
            raise OutOfReach(str(u))
        finally:
            sub.undo_narrowing()
        for ax in sub.axioms:
            parent.axiom(ax)
        for i in range(len(prefix), len(sub.trace)):
            ch, n = sub.trace[i]
            for alt in range(ch + 1, n):
                stack.append([x[0] for x in sub.trace[:i]] + [alt])
        if val is not None:
            cases.append((z3.And(*sub.pc) if sub.pc else z3.BoolVal(True), val))
    if not cases:
        raise Infeasible()
    t = cases[-1][1]
    for c, v in reversed(cases[:-1]):
        t = z3.If(c, v, t)
    return z3.simplify(t)


def term_kinds(t):
    """ kinds a merged Val term can have (leaves of the If-chain that are constructor applications) """
    if z3.is_app(t) and t.decl().kind() == z3.Z3_OP_ITE:
        return term_kinds(t.arg(1)) | term_kinds(t.arg(2))
    if z3.is_app(t):
        nm = t.decl().name()
        for k in KINDS:
            if nm == CON[k].name() and t.num_args() == CON[k].arity():
                return frozenset((k,))
    return ALL_KINDS


MUTATORS = ('append', 'extend', 'insert', 'pop', 'remove', 'sort', 'reverse', 'clear')


def stored_names(nodes):
    out = []
    for n in nodes:
        for x in ast.walk(n):
            # in-place mutation through a method call counts as a modification of the variable
            if isinstance(x, ast.Call) and isinstance(x.func, ast.Attribute) and x.func.attr in MUTATORS and \
                    isinstance(x.func.value, ast.Name) and x.func.value.id not in out:
                out.append(x.func.value.id)
            if isinstance(x, ast.Name) and isinstance(x.ctx, ast.Store) and x.id not in out:
                out.append(x.id)
            if isinstance(x, ast.AugAssign) and isinstance(x.target, ast.Name) and x.target.id not in out:
                out.append(x.target.id)
    return out


class Loops(object):

    def __init__(self, world):
        self.world = world

    def loop_spec(self, it, node):
        cur = self.world.current_fn_contract(it)
        if cur is None:
            return None
        return cur.loop_spec_for(it, node)

    # -- concrete iteration
    def iterate_concrete(self, it, s, frame, items):
        # like CPython's list iterator: by index over the live list (a body that mutates the list it iterates is seen)
        i = 0
        while i < len(items):
            x = items[i]
            i += 1
            it.assign(s.target, x, frame)
            try:
                it.exec_block(s.body, frame)
            except _Break:
                break
            except _Continue:
                continue

    def exec_for(self, it, s, frame):
        iterable = it.eval(s.iter, frame)
        if isinstance(iterable, list):
            return self.iterate_concrete(it, s, frame, iterable)
        if isinstance(iterable, tuple):
            return self.iterate_concrete(it, s, frame, list(iterable))
        if isinstance(iterable, str):
            return self.iterate_concrete(it, s, frame, list(iterable))
        if isinstance(iterable, dict):
            return self.iterate_concrete(it, s, frame, list(iterable.keys()))
        if isinstance(iterable, Obj) and isinstance(iterable.cls, NamedTupleClass):
            return self.iterate_concrete(it, s, frame, [iterable.attrs[f] for f in iterable.cls.fields])
        n, item = self.seq_view(it, iterable)
        spec = self.loop_spec(it, s)
        if spec is None:
            raise OutOfReach('loop over a symbolic sequence at line %d has no invariant' % s.lineno)
        self.exec_symbolic_loop(it, s, frame, spec, n=n, item=item)

    def seq_view(self, it, iterable):
        """ -> (length Int term, item(k Int term) -> value) """
        ctx = it.ctx
        if isinstance(iterable, SymRange):
            return iterable.length(), iterable.item
        if isinstance(iterable, (list, tuple)):
            lst = list(iterable)

            def item_c(k):
                raise OutOfReach('symbolic index into concrete list in loop')
            return z3.IntVal(len(lst)), item_c
        if isinstance(iterable, Sym):
            kd = ctx.narrow(iterable)
            if kd == LIST:
                s = iterable.pay(LIST)
                ek = self.world.elem_kinds(iterable)
                return z3.Length(s), (lambda k: Sym(z3.simplify(s[k]), ek))
            if kd == STR:
                s = iterable.pay(STR)
                return z3.Length(s), (lambda k: mk_str(z3.SubString(s, k, 1)))
            if kd == OBJ:
                raise OutOfReach('iteration over host object')
            raise PyRaise('TypeError', ExcInst('TypeError'))
        if isinstance(iterable, SymZip):
            views = [self.seq_view(it, p) for p in iterable.parts]
            n = views[0][0]
            for v in views[1:]:
                n = z3.If(v[0] < n, v[0], n)
            return z3.simplify(n), (lambda k: tuple(v[1](k) for v in views))
        if isinstance(iterable, SymEnumerate):
            n, item = self.seq_view(it, iterable.seq)
            st = iterable.start
            if not is_plain_index(st):
                raise OutOfReach('enumerate start')
            return n, (lambda k: (mk_int(z3.simplify(k + st)), item(k)))
        if iterable is None or plain(iterable) or isinstance(iterable, Err):
            raise PyRaise('TypeError', ExcInst('TypeError'))
        raise OutOfReach('iteration over %r' % (iterable,))

    def exec_symbolic_loop(self, it, s, frame, spec, n=None, item=None):
        """ s: ast.For or ast.While; spec: LoopSpec """
        ctx = it.ctx
        is_for = isinstance(s, ast.For)
        name = spec.name
        mod = stored_names(s.body)
        if is_for:
            mod = [m for m in mod if m not in stored_names([s.target])]
        kname = spec.index_name
        # values at loop entry are visible to the invariant as old_<name>
        for m in mod:
            if frame.has(m):
                frame.locals['old_' + m] = frame.lookup(m)
        # 1. invariant holds on entry
        if is_for:
            frame.locals[kname] = 0
            frame.locals['__n'] = mk_int(n)
        goal = spec.inv_term(it, frame)
        ctx.oblige('inv.init', name + '.inv.init', goal, where=s.lineno)
        # 2. havoc
        for m in mod:
            if frame.has(m) or m in spec.types:
                frame.locals[m] = spec.fresh_for(it, m, frame)
        if is_for:
            k = ctx.fresh(z3.IntSort(), kname)
            ctx.assume(z3.And(k >= 0, k <= n))
            frame.locals[kname] = mk_int(k)
        ctx.assume(spec.inv_term(it, frame))
        # 3. one arbitrary iteration
        if is_for:
            go = ctx.branch(k < n)
        else:
            go = it.truth(it.eval(s.test, frame))
        if not go:
            if is_for:
                ctx.assume(k == n)
                frame.locals[kname] = mk_int(n)
            return
        var0 = None
        if not is_for:
            var0 = spec.variant_term(it, frame)
            if var0 is not None:
                ctx.oblige('term', name + '.variant.bounded', var0 >= 0, where=s.lineno)
        if is_for:
            it.assign(s.target, item(k), frame)
        try:
            it.exec_block(s.body, frame)
        except _Break:
            return
        except _Continue:
            pass
        if is_for:
            frame.locals[kname] = mk_int(k + 1)
        goal = spec.inv_term(it, frame)
        ctx.oblige('inv.keep', name + '.inv.keep', goal, where=s.lineno)
        if var0 is not None:
            var1 = spec.variant_term(it, frame)
            ctx.oblige('term', name + '.variant.decreases', var1 < var0, where=s.lineno)
        raise PathEnd()

    def exec_while(self, it, s, frame):
        spec = self.loop_spec(it, s)
        if spec is None:
            # concrete while loops (constant folding) are executed as long as the test is decided without forking
            guard = 0
            while True:
                before = len(it.ctx.trace)
                t = it.truth(it.eval(s.test, frame))
                if len(it.ctx.trace) != before:
                    raise OutOfReach('while loop at line %d has no invariant' % s.lineno)
                if not t:
                    return
                guard += 1
                if guard > 10000:
                    raise OutOfReach('while loop bound')
                try:
                    it.exec_block(s.body, frame)
                except _Break:
                    return
                except _Continue:
                    continue
        self.exec_symbolic_loop(it, s, frame, spec)

    # -- comprehensions
    def comprehension(self, it, e, frame, kind):
        if len(e.generators) != 1:
            raise OutOfReach('nested comprehension')
        g = e.generators[0]
        iterable = it.eval(g.iter, frame)
        if isinstance(iterable, Obj) and isinstance(iterable.cls, NamedTupleClass):
            iterable = [iterable.attrs[f] for f in iterable.cls.fields]
        if isinstance(iterable, dict):
            iterable = list(iterable.keys())
        if isinstance(iterable, (list, tuple, str)):
            out = []
            sub = Frame(frame.module, parent=frame)
            for x in iterable:
                it.assign(g.target, x, sub)
                if all(it.truth(it.eval(c, sub)) for c in g.ifs):
                    out.append(it.eval(e.elt, sub))
            return GenItems(out) if kind == 'gen' else out
        # symbolic sequence
        n, item = self.seq_view(it, iterable)
        return self.world.axioms.sym_comprehension(it, e, g, frame, n, item)


class GenItems(list):
    """ the items a generator expression over a sequence of known length yields, already computed (the element expressions of the
        subset have no effects); next() takes them from the front """


class LoopSpec(object):
    """ invariant / variant / havoc types of one loop, taken from the sidecar contract """
    def __init__(self, name, inv, variant=None, types=None, index_name='k'):
        self.name = name
        self.inv = inv               # Closure (lambda) whose parameter names are looked up in the frame
        self.variant = variant
        self.types = types or {}
        self.index_name = index_name

    def _args(self, it, clo, frame):
        args = []
        for p in clo.node.args.args:
            nm = p.arg
            if nm == 'n' and frame.has('__n'):
                args.append(frame.lookup('__n'))
            elif frame.has(nm):
                args.append(frame.lookup(nm))
            else:
                raise OutOfReach('invariant parameter %s is not a local of the function' % nm)
        return args

    def inv_term(self, it, frame):
        if self.inv is None:
            return z3.BoolVal(True)
        args = self._args(it, self.inv, frame)
        return merge_eval(it, lambda it2: it2.call(self.inv, args))

    def variant_term(self, it, frame):
        if self.variant is None:
            return None
        args = self._args(it, self.variant, frame)
        v = it.call(self.variant, args)
        s = as_sym(v)
        k = it.ctx.narrow(s)
        if k not in (INT, BOOL):
            raise OutOfReach('variant must be an integer')
        return int_term(it.ctx, s)

    def fresh_for(self, it, name, frame):
        dom = self.types.get(name)
        if dom is not None:
            return dom.fresh(it, name)
        return it.ctx.fresh_val(name)


# ---------------------------------------------------------------------------------------------------- axioms

class Axioms(object):
    """ lazily instantiated facts about uninterpreted library functions (each is part of the assumed
        contract of that library function; see DESIGN section 3) """

    def __init__(self, world):
        self.world = world

    def str_int(self, it, t):
        # str(int): non-empty; digits only for non-negative values; str(0..9) single digit by StrFromCode
        it.ctx.axiom(z3.Length(py_str_int(t)) >= 1)
        it.ctx.axiom(z3.Implies(z3.And(t >= 0, t <= 9), py_str_int(t) == z3.StrFromCode(48 + t)))

    def int_text(self, it, s):
        # int(text) accepts every non-empty string of ASCII digits and reads it as a non-negative number
        digits = z3.Plus(z3.Range(z3.StringVal('0'), z3.StringVal('9')))
        it.ctx.axiom(z3.Implies(z3.InRe(s, digits), z3.And(py_int_ok(s), py_int(s) >= 0)))

    def int_base(self, it, s, b):
        it.ctx.axiom(z3.Implies(z3.Not(z3.PrefixOf(z3.StringVal('-'), B.py_strip_ws(s))), B.py_int_base(s, b) >= 0))

    def hex(self, it, i):
        h = B.py_hex(i)
        it.ctx.axiom(z3.Implies(i >= 0, z3.And(z3.PrefixOf(z3.StringVal('0x'), h), z3.Length(h) >= 3)))
        it.ctx.axiom(z3.Implies(i < 0, z3.And(z3.PrefixOf(z3.StringVal('-0x'), h), z3.Length(h) >= 4)))

    def case_fn(self, it, which, s):
        f = py_upper if which == 'upper' else py_lower
        # lengths are not preserved in general (sharp s), but empty text maps to empty text and only to it
        it.ctx.axiom((z3.Length(f(s)) == 0) == (z3.Length(s) == 0))
        if which == 'upper':
            # on ASCII cell labels ($, letters, digits) upper() keeps the shape, the length, and is idempotent
            from . import lexre
            lab = lexre.Parsed(r'^\$?[A-Za-z]+\$?[0-9]+\Z').fullmatch_language()
            labu = lexre.Parsed(r'^\$?[A-Z]+\$?[0-9]+\Z').fullmatch_language()
            it.ctx.axiom(z3.Implies(z3.InRe(s, lab), z3.And(z3.InRe(f(s), labu), z3.Length(f(s)) == z3.Length(s))))
            it.ctx.axiom(z3.Implies(z3.InRe(s, labu), f(s) == s))

    def replace_all(self, it, s, old, new):
        f = z3.Function('py_replace', z3.StringSort(), z3.StringSort(), z3.StringSort(), z3.StringSort())
        it.ctx.flags.add('ext:str.replace')
        return f(s, old, new)

    def join(self, it, sep, items):
        f = z3.Function('py_join', z3.StringSort(), SeqVal, z3.StringSort())
        it.ctx.flags.add('ext:str.join')
        # join raises TypeError when an item is not a string
        seq = items.pay(LIST)
        k = it.ctx.fresh(z3.IntSort(), 'jk')
        allstr = z3.ForAll([k], z3.Implies(z3.And(k >= 0, k < z3.Length(seq)), REC[STR](seq[k])))
        if not it.ctx.branch(allstr):
            raise PyRaise('TypeError', ExcInst('TypeError'))
        return mk_str(f(sep, seq))

    def fold(self, it, what, seq):
        f = z3.Function('seq_' + what, SeqVal, Val)
        it.ctx.flags.add('ext:' + what)
        s = seq.pay(LIST)
        if what in ('max', 'min'):
            if it.ctx.branch(z3.Length(s) == 0):
                raise PyRaise('ValueError', ExcInst('ValueError'))
        ek = self.world.elem_kinds(seq)
        if what == 'sum':
            if ek <= frozenset((BOOL, INT)):
                r = Sym(f(s), (INT,))      # a sum of ints/bools is an int
                it.ctx.axiom(REC[INT](f(s)))
            elif ek <= NUMERIC:
                r = Sym(f(s), (INT, FLOAT))
                it.ctx.axiom(z3.Or(REC[INT](f(s)), REC[FLOAT](f(s))))
            else:
                raise OutOfReach('sum over a sequence that may hold non-numbers')
        else:
            r = Sym(f(s), ek)
        return r

    def sorted(self, it, seq):
        f = z3.Function('seq_sorted', SeqVal, SeqVal)
        it.ctx.flags.add('ext:sorted')
        s = seq.pay(LIST)
        r = mk_list(f(s))
        it.ctx.axiom(z3.Length(f(s)) == z3.Length(s))
        self.world.copy_elem_kinds(seq, r)
        r.fresh = True
        return r

    def quant_truth(self, it, seq, is_all):
        ctx = it.ctx
        k = ctx.narrow(seq)
        if k != LIST:
            raise PyRaise('TypeError', ExcInst('TypeError'))
        s = seq.pay(LIST)
        ek = self.world.elem_kinds(seq)
        if OBJ in ek:
            raise OutOfReach('truthiness of host objects in all()/any()')
        j = z3.Int('q!j')
        body = truthy_term(s[j], ek)
        rng = z3.And(j >= 0, j < z3.Length(s))
        t = z3.ForAll([j], z3.Implies(rng, body)) if is_all else z3.Exists([j], z3.And(rng, body))
        return ctx.branch(t)

    def civil(self, it, ts):
        y, m, d, hh, mi, ss, us = ts
        ok = civil_ok(*ts)
        # necessary conditions of validity (the exact day-of-month rule stays inside the uninterpreted predicate)
        it.ctx.axiom(z3.Implies(ok, z3.And(y >= 1, y <= 9999, m >= 1, m <= 12, d >= 1, d <= 31, hh >= 0, hh <= 23,
                                            mi >= 0, mi <= 59, ss >= 0, ss <= 59, us >= 0, us <= 999999)))
        it.ctx.axiom(z3.Implies(z3.And(y >= 1, y <= 9999, m >= 1, m <= 12, d >= 1, d <= 28, hh >= 0, hh <= 23,
                                        mi >= 0, mi <= 59, ss >= 0, ss <= 59, us >= 0, us <= 999999), ok))
        c = civil_us(*ts)
        it.ctx.axiom(z3.Implies(ok, z3.And(
            date_field['year'](c) == y, date_field['month'](c) == m, date_field['day'](c) == d,
            date_field['hour'](c) == hh, date_field['minute'](c) == mi, date_field['second'](c) == ss,
            date_field['microsecond'](c) == us, c >= 0)))

    def date_fields(self, it, us):
        f = date_field
        it.ctx.axiom(z3.And(f['year'](us) >= 1, f['year'](us) <= 9999, f['month'](us) >= 1, f['month'](us) <= 12,
                             f['day'](us) >= 1, f['day'](us) <= 31, f['hour'](us) >= 0, f['hour'](us) <= 23,
                             f['minute'](us) >= 0, f['minute'](us) <= 59, f['second'](us) >= 0, f['second'](us) <= 59,
                             f['weekday'](us) >= 0, f['weekday'](us) <= 6))

    def sym_comprehension(self, it, e, g, frame, n, item):
        """ [elt for target in seq] over a symbolic sequence, no filter: a fresh sequence r with len(r) = len(seq) and
            r[j] = elt(seq[j]) for every j (the element expression is merged over its paths and must not raise) """
        if g.ifs:
            raise OutOfReach('filtering comprehension over a symbolic sequence at line %d' % e.lineno)
        ctx = it.ctx
        ctx.counter += 1
        j = z3.Int('cj!%d' % ctx.counter)

        def elt(it2):
            sub = Frame(frame.module, parent=frame)
            it2.ctx.axiom(z3.And(j >= 0, j < n))
            it2.assign(g.target, item(j), sub)
            return it2.eval(e.elt, sub)
        term = merge_value(it, elt)
        r = ctx.fresh(SeqVal, 'comp')
        ctx.axiom(z3.Length(r) == n)
        ctx.axiom(z3.ForAll([j], z3.Implies(z3.And(j >= 0, j < n), r[j] == term)))
        out = mk_list(r)
        out.fresh = True
        self.world.set_elem_kinds(out, term_kinds(term))
        return out


# ---------------------------------------------------------------------------------------------------- spec API

class SpecAPI(object):
    """ names available to sidecar contracts; pyvc/api.py holds the native twins """

    def __init__(self, world):
        self.world = world
        self.table = {}
        for nm in dir(self):
            if nm.startswith('s_'):
                self.table[nm[2:]] = Builtin('spec.' + nm[2:], getattr(self, nm))
        for i, nm in enumerate(ERR_NAMES):
            self.table[nm] = Err(i)
        from . import api as _api
        for nm in ('NONE_T', 'BOOL', 'INT', 'FLOAT', 'STR', 'ERR', 'DATE', 'NUMBER', 'NUMBERB', 'SCALAR', 'HOSTOBJ',
                   'ANY', 'VALUE_T', 'HOSTFN', 'EXC', 'SYMMAP', 'SYMMAP_LISTS'):
            self.table[nm] = getattr(_api, nm)
        self.table['OMITTED'] = _api.OMITTED
        self.table['datetime'] = ExtRef('datetime')
        self.table['math'] = ExtRef('math')
        for nm in ('SEQ', 'ARGS', 'CONST', 'CHOICE', 'TUPLE', 'LISTN', 'OBJECT', 'DDICT'):
            self.table[nm] = Builtin('dom.' + nm, (lambda f: (lambda it, a, k: f(*a, **k)))(getattr(_api, nm)))

    def lookup(self, name):
        return self.table.get(name, NotImplemented)

    def _kind_test(self, it, v, kinds):
        if isinstance(v, Sym):
            return it.ctx.test_kinds(v, kinds)
        k = kinds_of_concrete(v)
        return k in kinds

    def s_is_none(self, it, a, k):
        return self._kind_test(it, a[0], (NONE,))

    def s_is_bool(self, it, a, k):
        return self._kind_test(it, a[0], (BOOL,))

    def s_is_int(self, it, a, k):
        return self._kind_test(it, a[0], (INT,))

    def s_is_float(self, it, a, k):
        return self._kind_test(it, a[0], (FLOAT,))

    def s_is_num(self, it, a, k):
        return self._kind_test(it, a[0], (INT, FLOAT))

    def s_is_numb(self, it, a, k):
        return self._kind_test(it, a[0], (INT, FLOAT, BOOL))

    def s_is_str(self, it, a, k):
        return self._kind_test(it, a[0], (STR,))

    def s_is_err(self, it, a, k):
        return self._kind_test(it, a[0], (ERR,))

    def s_is_date(self, it, a, k):
        return self._kind_test(it, a[0], (DATE,))

    def s_is_list(self, it, a, k):
        v = a[0]
        if isinstance(v, Sym):
            return it.ctx.test_kinds(v, (LIST,))
        return isinstance(v, (list, tuple))

    def s_is_obj(self, it, a, k):
        return self._kind_test(it, a[0], (OBJ,))

    def s_same(self, it, a, k):
        x, y = a
        if isinstance(x, dict) and isinstance(y, dict):
            if set(x.keys()) != set(y.keys()):
                return False
            for kk in x:
                if not self.s_same(it, [x[kk], y[kk]], {}):
                    return False
            return True
        if isinstance(x, dict) or isinstance(y, dict):
            return False
        if isinstance(x, (Obj, Closure, FuncRef, HostFn)) or isinstance(y, (Obj, Closure, FuncRef, HostFn)):
            return self.world.ops.identical(it, x, y)
        try:
            return it.ctx.branch(to_val(x) == to_val(y))
        except Unliftable as u:
            raise OutOfReach('same(): %s' % u)

    def s_truthy(self, it, a, k):
        return it.truth(a[0])

    def s_implies(self, it, a, k):
        if not it.truth(a[0]):
            return True
        return it.truth(a[1])

    def s_raises(self, it, a, k):
        raise PyRaise(a[0], ExcInst(a[0]))

    def s_raise_err(self, it, a, k):
        raise PyRaise('XLError', a[0])

    def s_forall(self, it, a, k):
        return self._quant(it, a, True)

    def s_exists(self, it, a, k):
        return self._quant(it, a, False)

    def _quant(self, it, a, is_all):
        lo, hi, f = a
        ctx = it.ctx
        if is_plain_index(lo) and is_plain_index(hi) and hi - lo <= 64:
            for j in range(lo, hi):
                t = it.truth(it.call(f, [j]))
                if is_all and not t:
                    return False
                if (not is_all) and t:
                    return True
            return is_all
        slo, shi = as_sym(lo), as_sym(hi)
        ctx.narrow(slo)
        ctx.narrow(shi)
        lt, ht = int_term(ctx, slo), int_term(ctx, shi)
        ctx.counter += 1
        j = z3.Int('q!%d' % ctx.counter)
        body = merge_eval(it, lambda it2: it2.call(f, [mk_int(j)]))
        rng = z3.And(j >= lt, j < ht)
        t = z3.ForAll([j], z3.Implies(rng, body)) if is_all else z3.Exists([j], z3.And(rng, body))
        return ctx.branch(t)

    def s_flat(self, it, a, k):
        """ leaves of a nested list, left to right (spec of utils.iflatten) """
        v = a[0]
        ctx = it.ctx
        flat_f = z3.Function('flat', SeqVal, SeqVal)

        def flat_sym(s):
            seq = s.pay(LIST)
            ek = self.world.elem_kinds(s)
            if LIST not in ek:
                return seq
            j = z3.Int('flat!j')
            ctx.axiom(z3.Implies(z3.ForAll([j], z3.Implies(z3.And(j >= 0, j < z3.Length(seq)), z3.Not(REC[LIST](seq[j])))),
                                 flat_f(seq) == seq))
            ctx.axiom(z3.ForAll([j], z3.Implies(z3.And(j >= 0, j < z3.Length(flat_f(seq))), z3.Not(REC[LIST](flat_f(seq)[j])))))
            ctx.flags.add('spec:flat(nested) uninterpreted')
            return flat_f(seq)

        def parts_of(x):
            if isinstance(x, (list, tuple)):
                out = []
                for y in x:
                    out.extend(parts_of(y))
                return out
            if isinstance(x, Sym):
                if LIST in x.kinds and ctx.test_kinds(x, (LIST,)):
                    return [flat_sym(x)]
                return [z3.Unit(x.val)]
            try:
                return [z3.Unit(to_val(x))]
            except Unliftable as u:
                raise OutOfReach('flat(): %s' % u)
        if isinstance(v, Sym):
            kd = ctx.narrow(v)
            if kd != LIST:
                raise OutOfReach('flat of a non-list')
            r = mk_list(z3.simplify(flat_sym(v)))
            self.world.set_elem_kinds(r, self.world.elem_kinds(v) - {LIST})
            return r
        if isinstance(v, (list, tuple)):
            if all(not isinstance(x, (Sym, list, tuple)) or (isinstance(x, Sym) and LIST not in x.kinds) for x in v):
                return list(v)
            ps = parts_of(v)
            r = mk_list(z3.simplify(z3.Concat(*ps)) if len(ps) > 1 else (ps[0] if ps else z3.Empty(SeqVal)))
            self.world.set_elem_kinds(r, ALL_KINDS - {LIST})
            return r
        raise OutOfReach('flat of %r' % (v,))

    def s_result_of(self, it, a, k):
        """ result_of(ContractClass, *args): the outcome the contract of a callee specifies for these arguments.
            Inlines the spec, or - when the contract under verification lists the callee in `opaque_callees` - the
            same uninterpreted application the body's call produced. """
        cls = a[0]
        args = list(a[1:])
        c = None
        for cc in self.world.contracts.values():
            if cc.name == cls.name:
                c = cc
        if c is None:
            raise OutOfReach('result_of: unknown contract %r' % (cls,))
        cur = self.world.current
        if cur is not None and c.name in (cur.decl.get('opaque_callees') or ()):
            return c.opaque_apply(it, args)
        return it.call(c.fns['spec'], args)

    def s_host_calls(self, it, a, k):
        """ the ghost log of call-outs to host code, in order: objects with .fn (the callee value), .args, .ret (None if raised) """
        out = []
        HC = NamedTupleClass('HostCall', ['fn', 'args', 'returned', 'ret', 'kwargs'])
        for e in it.ctx.log:
            if isinstance(e, dict) and e['kind'] == 'host':
                fn = e['fn']
                r = e['result']
                out.append(Obj(HC, {'fn': fn.sym if fn.sym is not None else fn, 'args': list(e['args']),
                                    'returned': bool(r and r[0] == 'ret'), 'ret': r[1] if r and r[0] == 'ret' else None,
                                    'kwargs': dict(e.get('kwargs') or {})}))
        return out

    def s_setter_values(self, it, a, k):
        """ values the host handed to an escaped setter closure during the call, in order """
        return [e['args'][0] for e in it.ctx.log if isinstance(e, dict) and e['kind'] == 'closure_call' and e['args']]

    def s_emits(self, it, a, k):
        """ events emitted on an object during the call: list of [name, arg1, ...] """
        out = []
        for e in it.ctx.log:
            if isinstance(e, tuple) and e[0] == 'call' and e[1].endswith('Emitter.emit') and e[2][0] is a[0]:
                out.append([e[2][1]] + list(e[2][2]))
        return out

    def s_registry_has(self, it, a, k):
        name = a[0]
        if isinstance(name, str):
            return name in self.world.registry_names()
        s = as_sym(name)
        if it.ctx.narrow(s) != STR:
            return False
        t = s.pay(STR)
        names = self.world.registry_names()
        return it.ctx.branch(z3.Or(*[t == z3.StringVal(n) for n in names]))

    def s_registry_fn(self, it, a, k):
        s = as_sym(a[0])
        f = z3.Function('registry_fn', z3.StringSort(), Val)
        t = s.pay(STR)
        v = Sym(f(t), (OBJ,))
        it.ctx.axiom(z3.And(REC[OBJ](f(t)), ACC[OBJ][0](f(t)) == CLS_OTHER))
        return HostFn('registry', v)

    def s_map_has(self, it, a, k):
        return a[0].contains(it, a[1])

    def s_map_get(self, it, a, k):
        return a[0].getitem(it, a[1])

    def s_str_of_symbol(self, it, a, k):
        return a[0].names[a[1]]

    def s_choice(self, it, a, k):
        """ nondeterministic choice among n alternatives (forks) """
        return it.ctx.choose([True] * a[0])

    def s_ddict(self, it, a, k):
        from .interp import DDict
        d = DDict()
        d.update(k)
        return d

    def s_listener(self, it, a, k):
        m = self.world.module('hotxlfp.tinyemitter')
        cls = self.world.module_attr(it, m, 'Listener')
        return Obj(cls, {'fn': a[0], 'ctx': a[1]})

    def s_has_attr(self, it, a, k):
        return self.world.ops.hasattr(it, a[0], a[1])

    def s_get_attr(self, it, a, k):
        return self.world.ops.getattr(it, a[0], a[1])

    def s_is_closure(self, it, a, k):
        return isinstance(a[0], Closure)

    def s_called(self, it, a, k):
        """ ghost call log: was the repo function with this (suffix of its) name called during the function under contract? """
        return any(isinstance(e, tuple) and e[0] == 'call' and e[1].endswith(a[0]) for e in it.ctx.log)

    def s_callee_outcomes(self, it, a, k):
        """ ghost log: the outcomes the contracts of the callees whose target ends with this name produced, in call order:
            objects with .ret, .value, .exc, .err (error value of a raised XLError), .raised (the exception object) """
        return [e[2] for e in it.ctx.log if isinstance(e, tuple) and e[0] == 'outcome' and e[1].endswith(a[0])]

    def s_calls(self, it, a, k):
        fn = a[0]
        return [list(e['args']) for e in it.ctx.log if isinstance(e, dict) and e['kind'] == 'host' and e['fn'] is fn]

    def s_call_result(self, it, a, k):
        fn, i = a
        es = [e for e in it.ctx.log if isinstance(e, dict) and e['kind'] == 'host' and e['fn'] is fn]
        r = es[i]['result']
        if r is None or r[0] != 'ret':
            raise OutOfReach('call_result of a call that raised')
        return r[1]

    def s_xl_type(self, it, a, k):
        """ the type tags used by operators.value_and_type """
        from .interp import T_INT, T_FLOAT, T_COMPLEX, T_STR, T_NONE, T_DATETIME, T_XLERROR
        return {'number': (T_INT, T_FLOAT, T_COMPLEX), 'date': T_DATETIME, 'text': (T_STR,), 'blank': T_NONE,
                'error': T_XLERROR}[a[0]]

    def s_date_us(self, it, a, k):
        """ microseconds since 0001-01-01 00:00 of a datetime, as a real number """
        v = a[0]
        if isinstance(v, datetime.datetime):
            return float(date_to_us(v))
        s = as_sym(v)
        if it.ctx.narrow(s) != DATE:
            raise OutOfReach('date_us of non-date')
        return mk_float(s.pay(DATE))

    def s_date_from_us(self, it, a, k):
        """ the datetime at the given (real) microsecond count; OverflowError outside 0001..9999 like datetime + timedelta """
        s = as_sym(a[0])
        kd = it.ctx.narrow(s)
        if kd not in NUMERIC:
            raise OutOfReach('date_from_us of non-number')
        it.ctx.flags.add('date_real_us')
        return self.world.ops.mk_date_checked(it, real_term(it.ctx, s))

    def s_dateutil_parse(self, it, a, k):
        return self.world.builtins.x_dateutil_parser_parse(it, a, k)

    def s_parity_true(self, it, a, k):
        """ parity of the number of true items: no SMT definition -> an unconstrained boolean (so the clause that uses it is
            NOT proved symbolically; the flag makes the evidence say so; natively it is exact) """
        it.ctx.flags.add('spec:parity_true is unconstrained symbolically (bounded only)')
        raise OutOfReach('parity_true: parity of a sum over a symbolic sequence (bounded only)')

    def s_is_digits(self, it, a, k):
        v = a[0]
        if isinstance(v, str):
            import re
            return re.match(r'[0-9]+\Z', v) is not None
        s = as_sym(v)
        if it.ctx.narrow(s) != STR:
            return False
        self.world.axioms.int_text(it, s.pay(STR))
        return it.ctx.branch(z3.InRe(s.pay(STR), z3.Plus(z3.Range(z3.StringVal('0'), z3.StringVal('9')))))

    def s_is_cell_label(self, it, a, k):
        """ the statement's label shape: optional $, letters, optional $, digits - and nothing else """
        from . import lexre
        v = a[0]
        if isinstance(v, str):
            import re
            return re.match(r'\$?[A-Za-z]+\$?[0-9]+\Z', v) is not None
        s = as_sym(v)
        if it.ctx.narrow(s) != STR:
            return False
        P = lexre.Parsed(r'^\$?[A-Za-z]+\$?[0-9]+\Z')
        return it.ctx.branch(z3.InRe(s.pay(STR), P.fullmatch_language()))

    def s_label_parts(self, it, a, k):
        """ decomposition of a cell label (is_cell_label holds): (column absolute?, column letters, row absolute?, row digits) """
        from . import lexre
        s = as_sym(a[0])
        if it.ctx.narrow(s) != STR:
            raise OutOfReach('label_parts of non-text')
        t = s.pay(STR)
        lc = z3.Function('label_col', z3.StringSort(), z3.StringSort())
        lr = z3.Function('label_row', z3.StringSort(), z3.StringSort())
        ca = z3.Function('label_col_abs', z3.StringSort(), z3.BoolSort())
        ra = z3.Function('label_row_abs', z3.StringSort(), z3.BoolSort())
        d = z3.StringVal('$')
        e = z3.StringVal('')
        letters = z3.Plus(z3.Union(z3.Range(z3.StringVal('a'), z3.StringVal('z')), z3.Range(z3.StringVal('A'), z3.StringVal('Z'))))
        digits = z3.Plus(z3.Range(z3.StringVal('0'), z3.StringVal('9')))
        P = lexre.Parsed(r'^\$?[A-Za-z]+\$?[0-9]+\Z')
        it.ctx.axiom(z3.Implies(z3.InRe(t, P.fullmatch_language()), z3.And(
            t == z3.Concat(z3.If(ca(t), d, e), lc(t), z3.If(ra(t), d, e), lr(t)),
            z3.InRe(lc(t), letters), z3.InRe(lr(t), digits))))
        return (mk_bool(ca(t)), mk_str(lc(t)), mk_bool(ra(t)), mk_str(lr(t)))

    def s_parsed_label(self, it, a, k):
        m = self.world.module('hotxlfp.helper.cell')
        cls = self.world.module_attr(it, m, 'ParsedLabel')
        return Obj(cls, {'index': a[0], 'label': a[1], 'is_absolute': a[2]})

    def s_first_error(self, it, a, k):
        """ the first error item of a sequence that contains one """
        items = a[0]
        if isinstance(items, (list, tuple)):
            for x in items:
                if self._kind_test(it, x, (ERR,)):
                    return x
            return None
        seq = items.pay(LIST)
        e = it.ctx.fresh_val('first_err', kinds=(ERR,))
        idx = it.ctx.fresh(z3.IntSort(), 'first_err_idx')
        j = z3.Int('fe!j')
        it.ctx.assume(z3.And(idx >= 0, idx < z3.Length(seq), seq[idx] == e.val,
                             z3.ForAll([j], z3.Implies(z3.And(j >= 0, j < idx), z3.Not(REC[ERR](seq[j]))))))
        return e

    def s_numeric_items(self, it, a, k):
        raise OutOfReach('numeric_items: filtering a symbolic sequence by type (bounded only)')

    def s_stat(self, it, a, k):
        return getattr(self.world.builtins, 'x_statistics_' + a[0])(it, [a[1]], {})

    def s_wildcard_match(self, it, a, k):
        # "* and ? are the only wildcards", stated over the assumed library contract of fnmatch: the pattern with fnmatch's character
        # classes switched off ('[' written as the one-character class '[[]'); natively the spec is an independent regex translation
        pattern = self.world.builtins.str_method(it, a[1], 'replace', ['[', '[[]'], {})
        return self.world.builtins.x_fnmatch_fnmatch(it, [a[0], pattern], {})

    def s_acot(self, it, a, k):
        return self.world.builtins.libm(it, 'acot', a)

    def s_acoth(self, it, a, k):
        return self.world.builtins.libm(it, 'acoth', a)

    def s_cot(self, it, a, k):
        return self.world.builtins.libm(it, 'cot', a)

    def s_col_label(self, it, a, k):
        """ bijective base-26 column label of a zero-based index (upper case); '' for negative indices.  Uninterpreted
            symbolically: facts about it come from the exhaustive native enumeration (C19), not from the solver """
        s = as_sym(a[0])
        if it.ctx.narrow(s) not in (INT, BOOL):
            raise OutOfReach('col_label of non-integer')
        n = int_term(it.ctx, s)
        f = z3.Function('col_label', z3.IntSort(), z3.StringSort())
        it.ctx.flags.add('spec:col_label uninterpreted (bijection decided by exhaustive enumeration)')
        it.ctx.axiom(z3.Implies(n >= 0, z3.Length(f(n)) >= 1))
        return mk_str(z3.If(n < 0, z3.StringVal(''), f(n)))

    def s_col_value(self, it, a, k):
        s = as_sym(a[0])
        if it.ctx.narrow(s) != STR:
            raise OutOfReach('col_value of non-text')
        f = z3.Function('col_value', z3.StringSort(), z3.IntSort())
        g = z3.Function('col_label', z3.IntSort(), z3.StringSort())
        it.ctx.flags.add('spec:col_value uninterpreted (bijection decided by exhaustive enumeration)')
        t = s.pay(STR)
        it.ctx.axiom(f(t) >= 0)
        return mk_int(f(t))

    def s_collapse_spaces(self, it, a, k):
        return self.world.builtins.x_re_sub(it, [' {2,}', ' ', a[0]], {})

    def s_replace_kth(self, it, a, k):
        raise OutOfReach('replace_kth: k-th occurrence replacement has no SMT definition (bounded only)')

    def s_int_of_text(self, it, a, k):
        if isinstance(a[0], str):
            return int(a[0])
        s = as_sym(a[0])
        if it.ctx.narrow(s) != STR:
            raise OutOfReach('int_of_text of non-text')
        return mk_int(py_int(s.pay(STR)))

    def s_text_is_int(self, it, a, k):
        if not isinstance(a[0], Sym):
            from . import api as _api
            return _api.text_is_int(a[0])
        s = as_sym(a[0])
        if it.ctx.narrow(s) != STR:
            return False
        self.world.axioms.int_text(it, s.pay(STR))
        return it.ctx.branch(py_int_ok(s.pay(STR)))

    def s_float_of_text(self, it, a, k):
        if isinstance(a[0], str):
            return float(a[0])
        s = as_sym(a[0])
        if it.ctx.narrow(s) != STR:
            raise OutOfReach('float_of_text of non-text')
        return mk_float(py_float(s.pay(STR)))

    def s_text_is_float(self, it, a, k):
        if not isinstance(a[0], Sym):
            from . import api as _api
            return _api.text_is_float(a[0])
        s = as_sym(a[0])
        if it.ctx.narrow(s) != STR:
            return False
        return it.ctx.branch(py_float_ok(s.pay(STR)))

    def s_errmsg(self, it, a, k):
        return self.world.builtins.b_str(it, [a[0]], {})

    def s_is_canonical(self, it, a, k):
        v = a[0]
        if isinstance(v, Err):
            return True
        if isinstance(v, Sym):
            if not it.ctx.test_kinds(v, (ERR,)):
                return False
            c = v.pay(ERR)
            return it.ctx.branch(z3.And(c >= 0, c <= 8))
        return False

    def s_real(self, it, a, k):
        """ exact real value of a number (spec-side: avoids int/float distinctions) """
        s = as_sym(a[0])
        kd = it.ctx.narrow(s)
        if kd not in NUMERIC:
            raise OutOfReach('real() of non-number')
        return mk_float(real_term(it.ctx, s))

    def s_floor(self, it, a, k):
        return self.world.builtins.x_math_floor(it, a, k)

    def s_ceil(self, it, a, k):
        return self.world.builtins.x_math_ceil(it, a, k)
