# -*- coding: utf-8 -*-
"""
pyvc.lexre -- Python `re` patterns (as parsed by re._parser) -> z3 regular expressions, for
 (a) `regex` obligations on the lexer's token rules and on helper patterns (language inclusion, disjointness), and
 (b) modelling `compiled.match(s)` / `.groups()` for patterns that are a flat sequence of groups.

Subset: literals, classes, ranges, negated classes, categories \\s \\d \\w, ., alternation, groups, greedy repeats,
^ $ \\Z anchors at the ends, one trailing look-ahead.  Anything else raises Unsupported.
Python semantics that matter here: `$` also matches just before a trailing newline; `.` excludes newline;
\\s on str patterns = Unicode whitespace (approximated by the ASCII whitespace set plus U+00A0, U+2028, U+2029, U+3000 ...).
"""
import re
import z3

try:
    from re import _parser as sre_parse, _constants as C
except ImportError:    # python < 3.11
    import sre_parse
    import sre_constants as C


class Unsupported(Exception):
    pass


SPACE_CHARS = [chr(c) for c in range(0x30000) if chr(c).isspace()]     # exactly str.isspace() within the solver alphabet

RS = z3.ReSort(z3.StringSort())


def allchar():
    return z3.AllChar(RS)


def lit(ch):
    return z3.Re(z3.StringVal(ch))


def union(parts):
    parts = list(parts)
    if not parts:
        return z3.Empty(RS)
    if len(parts) == 1:
        return parts[0]
    return z3.Union(*parts)


def concat(parts):
    parts = list(parts)
    if not parts:
        return z3.Re(z3.StringVal(''))
    if len(parts) == 1:
        return parts[0]
    return z3.Concat(*parts)


def category(cat):
    if cat == C.CATEGORY_SPACE:
        return union(lit(c) for c in SPACE_CHARS)
    if cat == C.CATEGORY_DIGIT:
        return z3.Range(z3.StringVal('0'), z3.StringVal('9'))      # ASCII digits (unicode digits are not modelled)
    if cat == C.CATEGORY_WORD:
        return union([z3.Range(z3.StringVal('a'), z3.StringVal('z')), z3.Range(z3.StringVal('A'), z3.StringVal('Z')),
                      z3.Range(z3.StringVal('0'), z3.StringVal('9')), lit('_')])
    raise Unsupported('category %r' % (cat,))


def char_class(items):
    neg = False
    parts = []
    for op, av in items:
        if op == C.NEGATE:
            neg = True
        elif op == C.LITERAL:
            parts.append(lit(chr(av)))
        elif op == C.RANGE:
            parts.append(z3.Range(z3.StringVal(chr(av[0])), z3.StringVal(chr(av[1]))))
        elif op == C.CATEGORY:
            parts.append(category(av))
        else:
            raise Unsupported('class item %r' % (op,))
    u = union(parts)
    if neg:
        return z3.Intersect(allchar(), z3.Complement(u))
    return u


def node_to_re(op, av):
    if op == C.LITERAL:
        return lit(chr(av))
    if op == C.NOT_LITERAL:
        return z3.Intersect(allchar(), z3.Complement(lit(chr(av))))
    if op == C.ANY:
        return z3.Intersect(allchar(), z3.Complement(lit('\n')))
    if op == C.IN:
        return char_class(av)
    if op == C.BRANCH:
        return union(seq_to_re(p) for p in av[1])
    if op == C.SUBPATTERN:
        return seq_to_re(av[3])
    if op in (C.MAX_REPEAT, C.MIN_REPEAT):
        lo, hi, p = av
        r = seq_to_re(p)
        if hi == C.MAXREPEAT:
            if lo == 0:
                return z3.Star(r)
            if lo == 1:
                return z3.Plus(r)
            return z3.Concat(z3.Loop(r, lo, lo), z3.Star(r))
        if lo == 0 and hi == 1:
            return z3.Option(r)
        return z3.Loop(r, lo, hi)
    if op == C.CATEGORY:
        return category(av)
    raise Unsupported('regex node %r' % (op,))


def seq_to_re(seq):
    return concat(node_to_re(op, av) for op, av in seq)


class Parsed(object):
    """ pattern split into: begin anchor?, body items, end anchor kind (None | '$' | 'Z'), trailing look-ahead regex """
    def __init__(self, pattern, flags=0):
        self.pattern = pattern
        tree = sre_parse.parse(pattern, flags)
        items = list(tree)
        self.begin = False
        self.end = None
        self.lookahead = None
        if items and items[0][0] == C.AT and items[0][1] == C.AT_BEGINNING:
            self.begin = True
            items = items[1:]
        if items and items[-1][0] == C.AT:
            if items[-1][1] == C.AT_END:
                self.end = '$'
            elif items[-1][1] == C.AT_END_STRING:
                self.end = 'Z'
            else:
                raise Unsupported('anchor %r' % (items[-1][1],))
            items = items[:-1]
        if items and items[-1][0] == C.ASSERT:
            direction, p = items[-1][1]
            if direction != 1:
                raise Unsupported('look-behind')
            self.lookahead = seq_to_re(p)
            items = items[:-1]
        for op, av in items:
            if op in (C.AT, C.ASSERT, C.ASSERT_NOT, C.GROUPREF):
                raise Unsupported('inner anchor / look-around / backreference')
        self.items = items
        self.groupindex = dict(tree.state.groupdict)
        self.ngroups = tree.state.groups - 1

    def body(self):
        return seq_to_re(self.items)

    def fullmatch_language(self):
        """ strings s for which pattern.match(s) succeeds consuming... (only meaningful for patterns anchored at the end):
            with `$`: body or body + '\\n'; with \\Z: body """
        b = self.body()
        if self.end == '$':
            return z3.Union(b, z3.Concat(b, lit('\n')))
        if self.end == 'Z':
            return b
        raise Unsupported('pattern is not anchored at the end')

    def flat_parts(self):
        """ top-level items as (regex, group number or None, optional) -- requires that groups are top level """
        parts = []
        for op, av in self.items:
            if op == C.SUBPATTERN:
                parts.append((seq_to_re(av[3]), av[0], False))
            elif op in (C.MAX_REPEAT,) and av[0] == 0 and av[1] == 1 and len(av[2]) == 1 and av[2][0][0] == C.SUBPATTERN:
                sub = av[2][0][1]
                parts.append((seq_to_re(sub[3]), sub[0], True))
            else:
                parts.append((node_to_re(op, av), None, False))
        return parts


def token_language(pattern):
    """ language of a lexer rule body (without its look-ahead) and the look-ahead language """
    tree = list(sre_parse.parse(pattern))
    if len(tree) == 1 and tree[0][0] == C.BRANCH:
        # (A(?=L))|(B(?=L)): every alternative ends with the same look-ahead
        bodies = []
        las = []
        for alt in tree[0][1][1]:
            items = list(alt)
            if len(items) == 1 and items[0][0] == C.SUBPATTERN:
                items = list(items[0][1][3])
            if items and items[-1][0] == C.ASSERT and items[-1][1][0] == 1:
                las.append(items[-1][1][1])
                items = items[:-1]
            else:
                las.append(None)
            bodies.append(items)
        if any(l is not None for l in las):
            dumps = set(repr(list(l)) if l is not None else None for l in las)
            if len(dumps) != 1:
                raise Unsupported('alternatives with different look-aheads')
            return union(seq_to_re(b) for b in bodies), seq_to_re(las[0])
    p = Parsed(pattern)
    if p.begin or p.end:
        raise Unsupported('anchored token rule')
    return p.body(), p.lookahead


def decide_empty(regex, timeout_ms=10000, witness_len=None):
    """ is the language empty? -> ('unsat', None) if empty, ('sat', witness) otherwise, ('unknown', reason) """
    s = z3.String('w')
    sol = z3.Solver()
    sol.set('timeout', timeout_ms)
    sol.add(z3.InRe(s, regex))
    if witness_len is not None:
        sol.add(z3.Length(s) <= witness_len)
    r = sol.check()
    if r == z3.unsat:
        return 'unsat', None
    if r == z3.sat:
        w = sol.model()[s]
        return 'sat', (w.as_string() if w is not None else '')
    return 'unknown', sol.reason_unknown()


def included(a, b, timeout_ms=10000):
    """ L(a) subset of L(b)?  -> (True, None) / (False, witness) / (None, reason) """
    r, w = decide_empty(z3.Intersect(a, z3.Complement(b)), timeout_ms)
    if r == 'unsat':
        return True, None
    if r == 'sat':
        return False, w
    return None, w


def disjoint(a, b, timeout_ms=10000):
    r, w = decide_empty(z3.Intersect(a, b), timeout_ms)
    if r == 'unsat':
        return True, None
    if r == 'sat':
        return False, w
    return None, w
