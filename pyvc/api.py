# -*- coding: utf-8 -*-
"""
pyvc.api -- what a sidecar contract file sees when it is *run natively* (replay, bounded stand-ins):
the native twins of the spec builtins, the domain descriptors and the @contract decorator.
The same file is read as an AST by the symbolic executor, where these names resolve to
pyvc.world.SpecAPI instead.
"""
import datetime
import fractions
import itertools
import math
import random

REGISTRY = []          # contracts in declaration order
FLOAT_TOL = [0.0]      # relative tolerance of same() on floats, set per contract by the native runner
REAL = {}              # bound real objects: XLError class, error singletons


class SpecRaise(Exception):
    def __init__(self, cls, value=None):
        Exception.__init__(self, cls)
        self.cls = cls
        self.value = value


class Outcome(object):
    """ outcome of a call: ret/value or exc/err """
    __slots__ = ('ret', 'value', 'exc', 'err')

    def __init__(self, ret, value=None, exc=None, err=None):
        self.ret = ret
        self.value = value
        self.exc = exc
        self.err = err

    def __repr__(self):
        if self.ret:
            r = repr(self.value)
            return 'Return(%s)' % (r if len(r) < 400 else r[:200] + '...<%d chars>...' % len(r) + r[-50:],)
        return 'Raise(%s%s)' % (self.exc, '' if self.err is None else ', %r' % (self.err,))


# ---------------------------------------------------------------------------------------------- domains

class Dom(object):
    """ a set of Python values described by kinds; used for symbolic inputs and for native sampling """
    def __init__(self, kinds, elem=None, is_tuple=False, const=None, has_const=False, parts=None, cls=None,
                 attrs=None, label=None, minlen=0, maxlen=None):
        self.kinds = frozenset(kinds)
        self.elem = elem
        self.is_tuple = is_tuple
        self.const = const
        self.has_const = has_const
        self.parts = parts
        self.cls = cls
        self.attrs = attrs
        self.label = label
        self.minlen = minlen
        self.maxlen = maxlen

    def __or__(self, other):
        return Dom(self.kinds | other.kinds, elem=self.elem or other.elem, is_tuple=self.is_tuple or other.is_tuple,
                   minlen=min(self.minlen, other.minlen))

    def __repr__(self):
        if self.has_const:
            return 'CONST(%r)' % (self.const,)
        if self.parts is not None:
            return 'TUPLE(%s)' % ', '.join(map(repr, self.parts))
        if self.cls:
            return 'OBJECT(%s)' % self.cls
        return self.label or ('Dom(%s)' % '|'.join(sorted(self.kinds)))


NONE_T = Dom(['none'], label='NONE_T')
BOOL = Dom(['bool'], label='BOOL')
INT = Dom(['int'], label='INT')
FLOAT = Dom(['float'], label='FLOAT')
STR = Dom(['str'], label='STR')
ERR = Dom(['err'], label='ERR')
DATE = Dom(['date'], label='DATE')
NUMBER = Dom(['int', 'float'], label='NUMBER')
NUMBERB = Dom(['int', 'float', 'bool'], label='NUMBERB')
SCALAR = Dom(['none', 'bool', 'int', 'float', 'str', 'err', 'date'], label='SCALAR')
HOSTOBJ = Dom(['obj'], label='HOSTOBJ')
ANY = Dom(['none', 'bool', 'int', 'float', 'str', 'err', 'date', 'list', 'obj'], label='ANY')
VALUE_T = Dom(['none', 'bool', 'int', 'float', 'str', 'err', 'date', 'list'], label='VALUE_T')   # anything a formula can produce


def SEQ(elem=SCALAR, minlen=0, maxlen=None):
    return Dom(['list'], elem=elem, label='SEQ(%r)' % (elem,), minlen=minlen, maxlen=maxlen)


def ARGS(elem=SCALAR, minlen=0, maxlen=None):
    return Dom(['list'], elem=elem, is_tuple=True, label='ARGS(%r)' % (elem,), minlen=minlen, maxlen=maxlen)


def CONST(v):
    return Dom([], const=v, has_const=True)


def CHOICE(*vals):
    """ native sampling only: one of the listed values """
    return Dom(['choice'], attrs={'vals': list(vals)}, label='CHOICE%r' % (vals,))


def TUPLE(*parts):
    return Dom(['list'], parts=list(parts), is_tuple=True)


def LISTN(*parts):
    return Dom(['list'], parts=list(parts), is_tuple=False)


def OBJECT(cls, **attrs):
    return Dom(['pyobj'], cls=cls, attrs=attrs)


HOSTFN = Dom(['hostfn'], label='HOSTFN')
EXC = Dom(['exc'], label='EXC')      # an exception instance raised by host code: any class, any args (text, none, unhashable ...)


class HostCodeError(Exception):
    """ a foreign exception whose text happens to spell an error code """
    def __str__(self):
        return '#NUM!'


def exc_samples():
    return [ValueError('math domain error'), ValueError(), KeyError('k'), KeyError({'a': 1}), ValueError([1, 2]), TypeError({1, 2}),
            ZeroDivisionError('division by zero'), OSError(2, 'No such file'), Exception(None), Exception('#N/A'), Exception('#DIV/0!', 3),
            RuntimeError(('#REF!',)), HostCodeError(), HostCodeError([3]), REAL['XLError'](['#N/A']), REAL['XLError'](), IndexError(0),
            UnicodeDecodeError('utf-8', b'\xff', 0, 1, 'bad'), StopIteration(), AssertionError(-1.5)]
SYMMAP = Dom(['symmap'], label='SYMMAP')                                       # a per-instance dict with text keys
SYMMAP_LISTS = Dom(['symmap'], attrs={'default_list': True}, label='SYMMAP_LISTS')   # defaultdict(list)


def DDICT(**entries):
    """ a defaultdict(list) with the given keys (symbolic side); values are list Doms """
    return Dom(['ddict'], attrs={'entries': entries}, label='DDICT(%s)' % ', '.join(entries))


def PROD(lhs, *rhs):
    """ a production instance handed to a grammar action: PROD('expression', ('expression', VALUE_T), ('PLUS', '+'), ...)
        each right-hand-side entry is (symbol name, Dom or constant) """
    parts = [(lhs, CONST(None))]
    for name, d in rhs:
        parts.append((name, d if isinstance(d, Dom) else CONST(d)))
    return Dom(['prod'], parts=None, attrs={'parts': parts}, label='PROD(%s : %s)' % (lhs, ' '.join(n for n, _ in parts[1:])))


class Recorder(object):
    """ native stand-in for a host callable: records its calls, returns a fresh object per call (or a programmed value) """
    def __init__(self, name='host', result=None, has_result=False, raises=None):
        self.name = name
        self.calls = []
        self.results = []
        self.result = result
        self.has_result = has_result
        self.raises = raises

    def __call__(self, *args, **kwargs):
        self.calls.append((args, kwargs))
        if self.raises is not None:
            self.results.append(('raise', self.raises))
            raise self.raises
        r = self.result if self.has_result else Token('%s#%d' % (self.name, len(self.calls)))
        self.results.append(('ret', r))
        return r


class Token(object):
    def __init__(self, name):
        self.name = name

    def __repr__(self):
        return '<%s>' % self.name


def host_calls():
    raise NotImplementedError('host_calls() is only available to the symbolic executor')


def setter_values():
    raise NotImplementedError('setter_values() is only available to the symbolic executor')


def emits(obj):
    raise NotImplementedError('emits() is only available to the symbolic executor')


def registry_has(name):
    from hotxlfp import formulas
    return formulas.is_supported(name)


def registry_fn(name):
    from hotxlfp import formulas
    return formulas.dispatcher._registry_[name]


def map_has(m, key):
    return key in m


def map_get(m, key):
    return m[key]


def choice(n):
    raise NotImplementedError('choice() is only available to the symbolic executor')


def ddict(**kw):
    import collections
    d = collections.defaultdict(list)
    d.update(kw)
    return d


def listener(fn, ctx):
    from hotxlfp.tinyemitter import Listener
    return Listener(fn=fn, ctx=ctx)


def has_attr(o, name):
    return hasattr(o, name)


def get_attr(o, name):
    return getattr(o, name)


def is_closure(o):
    return callable(o)


def result_of(contract_cls, *args):
    return contract_cls.spec(*args)


def str_of_symbol(p, k):
    return str(p.slice[k])


def called(name):
    raise NotImplementedError('called() is only available to the symbolic executor')


def callee_outcomes(name):
    raise NotImplementedError('callee_outcomes() is only available to the symbolic executor')


def calls(fn):
    """ positional-argument tuples of the calls made to a host callable during the function under contract """
    return [list(a) for a, k in fn.calls]


def call_result(fn, i):
    """ value returned by the i-th call of a host callable """
    return fn.results[i][1]


class _Omitted(object):
    def __repr__(self):
        return 'OMITTED'


OMITTED = _Omitted()      # "this trailing argument is not passed": the callee's default applies


class ContractDecl(object):
    def __init__(self, target, cls, props, kw):
        self.target = target
        self.cls = cls
        self.name = cls.__name__
        self.props = props
        self.kw = kw

    def get(self, name, default=None):
        if name in self.cls.__dict__:
            return self.cls.__dict__[name]
        return self.kw.get(name, default)


def contract(target, props=(), **kw):
    def deco(cls):
        REGISTRY.append(ContractDecl(target, cls, list(props), kw))
        return cls
    return deco


def inductive(fn):
    """ a spec function defined by recursion on its first (integer) parameter.  Natively it is just the recursive function; the
        symbolic executor treats an application with a symbolic first argument as an uninterpreted function and adds the defining
        equation unfolded once at that argument (what an inductive step needs) """
    return fn


def lemma(props=(), **kw):
    """ a property of spec functions only: class with `args` and `claim(...)` """
    def deco(cls):
        REGISTRY.append(ContractDecl('lemma:' + cls.__name__, cls, list(props), kw))
        return cls
    return deco


# ---------------------------------------------------------------------------------------------- native spec builtins

def _xl():
    return REAL['XLError']


def is_none(v):
    return v is None


def is_bool(v):
    return isinstance(v, bool)


def is_int(v):
    return isinstance(v, int) and not isinstance(v, bool)


def is_float(v):
    return isinstance(v, float)


def is_num(v):
    return isinstance(v, (int, float)) and not isinstance(v, bool)


def is_numb(v):
    return isinstance(v, (int, float))


def is_str(v):
    return isinstance(v, str)


def is_err(v):
    return isinstance(v, _xl())


def is_date(v):
    return isinstance(v, datetime.datetime)


def is_list(v):
    return isinstance(v, (list, tuple))


def is_obj(v):
    return not (v is None or isinstance(v, (bool, int, float, str, list, tuple, datetime.datetime, _xl())))


def same(a, b):
    """ type-strict equality (1 is not True is not 1.0); floats up to 1e-9 relative; errors by identity """
    if isinstance(a, (list, tuple)) and isinstance(b, (list, tuple)):
        return len(a) == len(b) and all(same(x, y) for x, y in zip(a, b))
    if isinstance(a, _xl()) or isinstance(b, _xl()):
        return a is b
    if isinstance(a, type) or isinstance(b, type):
        return a is b
    if isinstance(a, datetime.datetime) and isinstance(b, datetime.datetime) and FLOAT_TOL[0] > 0:
        return abs((a - b).total_seconds()) <= 0.001      # date-times agree to the millisecond (C13)
    if type(a) is not type(b):
        return False
    if isinstance(a, float):
        if a == b:
            return True
        if a != a and b != b:
            return True
        # exact unless the contract under check declares float_tol (specs computed in a different operation order)
        return FLOAT_TOL[0] > 0 and abs(a - b) <= FLOAT_TOL[0] * max(abs(a), abs(b), 1e-300)
    if is_obj(a) or is_obj(b):
        return a is b
    return a == b


def truthy(v):
    return bool(v)


def implies(a, b):
    return (not a) or bool(b)


def raises(cls):
    raise SpecRaise(cls)


def raise_err(e):
    raise SpecRaise('XLError', e)


def forall(lo, hi, f):
    return all(f(k) for k in range(lo, hi))


def exists(lo, hi, f):
    return any(f(k) for k in range(lo, hi))


def flat(x):
    out = []
    for y in x:
        if isinstance(y, (list, tuple)):
            out.extend(flat(y))
        else:
            out.append(y)
    return out


_D0 = datetime.datetime(1, 1, 1)


def date_us(d):
    delta = d - _D0
    return float((delta.days * 86400 + delta.seconds) * 10**6 + delta.microseconds)


def date_from_us(us):
    return _D0 + datetime.timedelta(microseconds=us)


def dateutil_parse(s):
    from dateutil.parser import parse
    return parse(s)


def xl_type(tag):
    return {'number': (int, float, complex), 'date': datetime.datetime, 'text': (str,), 'blank': type(None),
            'error': REAL['XLError']}[tag]


def parity_true(items):
    return sum(1 for a in items if a) % 2 == 1


def label_parts(label):
    import re
    m = re.match(r'(\$?)([A-Za-z]+)(\$?)([0-9]+)\Z', label)
    return (m.group(1) == '$', m.group(2), m.group(3) == '$', m.group(4))


def parsed_label(index, label, is_absolute):
    from hotxlfp.helper.cell import ParsedLabel
    return ParsedLabel(index=index, label=label, is_absolute=is_absolute)


def is_digits(s):
    import re
    return isinstance(s, str) and re.match(r'[0-9]+\Z', s) is not None


def is_cell_label(s):
    import re
    return isinstance(s, str) and re.match(r'\$?[A-Za-z]+\$?[0-9]+\Z', s) is not None


def first_error(items):
    for x in items:
        if is_err(x):
            return x
    return None


def numeric_items(items, try_parse, text_is_zero):
    out = []
    for el in items:
        if try_parse and isinstance(el, str):
            try:
                el = int(el)
            except ValueError:
                try:
                    el = float(el)
                except ValueError:
                    pass
        if isinstance(el, (int, float, complex)):
            out.append(el)
        elif text_is_zero and isinstance(el, str):
            out.append(0)
    return out


def stat(name, data):
    import statistics
    if name == 'product':
        import functools, operator
        return functools.reduce(operator.mul, data)
    return getattr(statistics, name)(data)


def wildcard_match(item, pattern):
    # * stands for any run of characters, ? for any one character, every other character for itself (independent of fnmatch)
    import re
    rx = ''.join('.*' if ch == '*' else '.' if ch == '?' else re.escape(ch) for ch in pattern)
    return re.fullmatch(rx, item, re.DOTALL) is not None


def acot(x):
    return math.pi / 2 if x == 0 else math.atan(1 / x)


def acoth(x):
    if -1 <= x <= 1:
        raise ValueError('math domain error')
    return 0.5 * math.log((x + 1) / (x - 1))


def cot(x):
    return math.cos(x) / math.sin(x)


def col_value(s):
    v = 0
    for ch in s.upper():
        v = 26 * v + (ord(ch) - 65) + 1
    return v


def col_label(n):
    out = ''
    while n >= 0:
        out = chr(n % 26 + 65) + out
        n = n // 26 - 1
    return out


def collapse_spaces(s):
    import re
    return re.sub(' {2,}', ' ', s)


def replace_kth(text, old, new, k):
    """ replace the k-th (1-based, scanning left to right, overlapping starts counted) occurrence of old in text """
    n = 0
    for i in range(len(text) - len(old) + 1):
        if text[i:i + len(old)] == old:
            n += 1
            if n == k:
                return text[:i] + new + text[i + len(old):]
    return text


def int_of_text(s):
    return int(s)


def text_is_int(s):
    if not isinstance(s, str):
        return False
    try:
        int(s)
        return True
    except ValueError:
        return False


def float_of_text(s):
    return float(s)


def text_is_float(s):
    if not isinstance(s, str):
        return False
    try:
        float(s)
        return True
    except ValueError:
        return False


def errmsg(e):
    return str(e)


def is_canonical(e):
    return any(e is x for x in REAL['errors'])


def real(x):
    # natively: the exact rational value of the float / int (postconditions over reals are then evaluated without rounding)
    from fractions import Fraction
    if isinstance(x, bool) or not isinstance(x, (int, float)):
        return x
    try:
        return Fraction(x)
    except (ValueError, OverflowError):
        return x


def floor(x):
    return math.floor(x)


def ceil(x):
    return math.ceil(x)


NATIVE_NAMES = ['Outcome', 'Dom', 'NONE_T', 'BOOL', 'INT', 'FLOAT', 'STR', 'ERR', 'DATE', 'NUMBER', 'NUMBERB', 'SCALAR',
                'HOSTOBJ', 'EXC', 'ANY', 'VALUE_T', 'SEQ', 'ARGS', 'CONST', 'CHOICE', 'TUPLE', 'LISTN', 'OBJECT', 'HOSTFN', 'DDICT', 'choice', 'ddict', 'listener', 'has_attr', 'get_attr', 'is_closure', 'SYMMAP', 'SYMMAP_LISTS', 'OMITTED', 'host_calls', 'emits', 'setter_values', 'registry_has', 'registry_fn', 'map_has', 'map_get', 'PROD', 'str_of_symbol', 'called', 'callee_outcomes', 'inductive', 'calls', 'call_result', 'result_of', 'contract',
                'lemma', 'is_none', 'is_bool', 'is_int', 'is_float', 'is_num', 'is_numb', 'is_str', 'is_err', 'is_date',
                'is_list', 'is_obj', 'same', 'truthy', 'implies', 'raises', 'raise_err', 'forall', 'exists', 'flat', 'collapse_spaces', 'replace_kth', 'first_error', 'numeric_items', 'stat', 'wildcard_match', 'acot', 'acoth', 'cot', 'col_value', 'col_label', 'is_cell_label', 'is_digits', 'label_parts', 'parsed_label', 'parity_true', 'xl_type', 'date_us', 'date_from_us', 'dateutil_parse',
                'int_of_text', 'text_is_int', 'float_of_text', 'text_is_float', 'errmsg', 'is_canonical', 'real',
                'floor', 'ceil']
ERR_NAMES = ['ERROR', 'DIV_ZERO', 'NAME', 'NOT_AVAILABLE', 'NULL', 'NUM', 'REF', 'VALUE', 'DATA']


def bind_real(hotxlfp_error_module):
    REAL['XLError'] = hotxlfp_error_module.XLError
    REAL['errors'] = [getattr(hotxlfp_error_module, n) for n in ERR_NAMES]
    REAL['module'] = hotxlfp_error_module


def native_namespace():
    ns = {n: globals()[n] for n in NATIVE_NAMES}
    for i, n in enumerate(ERR_NAMES):
        ns[n] = REAL['errors'][i]
    ns['datetime'] = datetime
    ns['math'] = math
    return ns


# ---------------------------------------------------------------------------------------------- native sampling

class ProdSpec(object):
    """ recipe for a fresh YaccProduction (built per call because actions store into p[0]) """
    def __init__(self, names, vals):
        self.names = names
        self.vals = vals

    def __repr__(self):
        return 'PROD(%s)' % ', '.join('%s=%r' % (n, v) for n, v in zip(self.names, self.vals))


class HostFnSpec(object):
    def __repr__(self):
        return '<host callable>'


class ObjSpec(object):
    def __init__(self, cls, attrs):
        self.cls = cls
        self.attrs = attrs

    def __repr__(self):
        return '%s(%s)' % (self.cls.split(':')[-1], ', '.join('%s=%r' % kv for kv in self.attrs.items()))

SAMPLE_POOL = {
    'none': [None],
    'bool': [True, False],
    # moderate magnitudes only: huge integers turn FACT, 10**digits, rjust ... into (near) non-terminating native calls;
    # contracts that need them (DEC2HEX, QUOTIENT ...) declare their own domain
    'int': [0, 1, -1, 2, 3, -2, 5, 7, 10, 12, 26, 27, 60, 61, 255, -40, 1000],
    'float': [0.0, 0.5, -0.5, 1.0, 1.5, -1.5, 2.25, 3.7, -2.5, 61.25, 12345.678, -1e-3, 0.1],
    'str': ['', 'a', 'A', 'abc', 'abcd', 'ab', 'xabc', 'Abc Def', ' a  b ', '12', '35', '7', '57', '-3.5', '1e3', 'x*', 'a?c', '\tA\n', ' ', 'TRUE', '0',
            u'été', u'中文', u'a\xa0b', u'x\xady\x7f', 'aXbXc', '#N/A', '1900-03-01', 'A1', '$B$2', 'ab\x01c'],
    'date': [datetime.datetime(1900, 1, 1), datetime.datetime(1900, 2, 28), datetime.datetime(1900, 3, 1),
             datetime.datetime(1900, 3, 2), datetime.datetime(2000, 2, 29, 12, 30, 15), datetime.datetime(2024, 12, 31),
             datetime.datetime(1999, 12, 31, 23, 59, 59), datetime.datetime(9999, 12, 31)],
}


def samples_of(dom, rng, depth=0):
    """ finite list of native values of a domain """
    if dom is OMITTED:
        return [OMITTED]
    if dom.has_const:
        return [dom.const]
    if 'choice' in dom.kinds:
        return list(dom.attrs['vals'])
    if 'prod' in dom.kinds:
        pools = [samples_of(d, rng, depth + 1) for _, d in dom.attrs['parts']]
        names = [n for n, _ in dom.attrs['parts']]
        total = 1
        for p in pools:
            total *= max(1, len(p))
        combos = itertools.product(*pools) if total <= 300 else (tuple(rng.choice(p) for p in pools) for _ in range(300))
        return [ProdSpec(names, list(c)) for c in combos]
    if 'hostfn' in dom.kinds:
        return [HostFnSpec()]
    if 'exc' in dom.kinds:
        return exc_samples()
    if 'pyobj' in dom.kinds:
        names = list((dom.attrs or {}).keys())
        pools = [samples_of(dom.attrs[n], rng, depth + 1) for n in names]
        total = 1
        for p in pools:
            total *= max(1, len(p))
        combos = itertools.product(*pools) if total <= 60 else (tuple(rng.choice(p) for p in pools) for _ in range(60))
        return [ObjSpec(dom.cls, dict(zip(names, c))) for c in combos]
    if dom.parts is not None:
        pools = [samples_of(p, rng, depth + 1) for p in dom.parts]
        out = []
        total = 1
        for p in pools:
            total *= max(1, len(p))
        if total <= 400:
            combos = itertools.product(*pools)
        else:
            combos = (tuple(rng.choice(p) for p in pools) for _ in range(400))
        for c in combos:
            out.append(tuple(c) if dom.is_tuple else list(c))
        return out
    out = []
    for k in sorted(dom.kinds):
        if k == 'err':
            out.extend(REAL['errors'])
            out.append(REAL['XLError']('custom error'))
        elif k == 'list':
            elem = dom.elem or SCALAR
            base = samples_of(elem, rng, depth + 1) if depth < 2 else [0, 1]
            maxlen = dom.maxlen if dom.maxlen is not None else 5
            lists = []
            for n in range(dom.minlen, maxlen + 1):
                reps = 1 if n == 0 else (6 if depth == 0 else 2)
                for _ in range(reps):
                    lists.append([rng.choice(base) for _ in range(n)])
            if dom.is_tuple:
                lists = [tuple(x) for x in lists]
            out.extend(lists)
        elif k == 'obj':
            out.append(complex(1, 2))
            out.append(object())
        elif k in SAMPLE_POOL:
            out.extend(SAMPLE_POOL[k])
    return out
