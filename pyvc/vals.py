# -*- coding: utf-8 -*-
"""
pyvc.vals -- SMT model of Python values (sort Val) and the interpreter-side value classes.

Val = VNone | VBool(b) | VInt(i) | VFloat(r: Real) | VStr(s) | VErr(code) | VDate(us: Real)
    | VList(items: Seq Val) | VObj(cls, id)

The sort is declared through SMT-LIB text because the z3 Python Datatype builder cannot express the
nested recursion through Seq.  One z3 context per process.
"""
import z3
import fractions
import datetime

NONE, BOOL, INT, FLOAT, STR, ERR, DATE, LIST, OBJ = 'none', 'bool', 'int', 'float', 'str', 'err', 'date', 'list', 'obj'
KINDS = (NONE, BOOL, INT, FLOAT, STR, ERR, DATE, LIST, OBJ)
SCALAR_KINDS = frozenset((NONE, BOOL, INT, FLOAT, STR, ERR, DATE))
ALL_KINDS = frozenset(KINDS)
NUMERIC = frozenset((BOOL, INT, FLOAT))

_SRC = """
(declare-datatypes ((Val 0)) ((
  (VNone)
  (VBool (bval Bool))
  (VInt (ival Int))
  (VFloat (fval Real))
  (VStr (sval String))
  (VErr (ecode Int))
  (VDate (dus Real))
  (VList (items (Seq Val)))
  (VObj (ocls Int) (oid Int))
)))
(declare-const witness__ Val)
(assert (= witness__ witness__))
"""

_fs = z3.parse_smt2_string(_SRC)
Val = _fs[0].arg(0).sort()
SeqVal = z3.SeqSort(Val)

CON = {}
REC = {}
ACC = {}
for _i, _k in enumerate(KINDS):
    CON[_k] = Val.constructor(_i)
    REC[_k] = Val.recognizer(_i)
    ACC[_k] = [Val.accessor(_i, _j) for _j in range(Val.constructor(_i).arity())]

VNone = CON[NONE]()

# object classes for VObj
CLS_COMPLEX = 1
CLS_OTHER = 2          # any other host object

# error codes (index into the table of canonical singletons), >= 9: non-canonical XLError instance
ERR_NAMES = ['ERROR', 'DIV_ZERO', 'NAME', 'NOT_AVAILABLE', 'NULL', 'NUM', 'REF', 'VALUE', 'DATA']
ERR_MSGS = ['#ERROR!', '#DIV/0!', '#NAME?', '#N/A', '#NULL!', '#NUM!', '#REF!', '#VALUE!', '#GETTING_DATA']

# uninterpreted functions (text <-> number conversions and friends): see DESIGN E3
errmsg = z3.Function('errmsg', z3.IntSort(), z3.StringSort())      # str(XLError instance with code)
py_int_ok = z3.Function('py_int_ok', z3.StringSort(), z3.BoolSort())   # int(s) succeeds
py_int = z3.Function('py_int', z3.StringSort(), z3.IntSort())
py_float_ok = z3.Function('py_float_ok', z3.StringSort(), z3.BoolSort())
py_float = z3.Function('py_float', z3.StringSort(), z3.RealSort())
py_str_int = z3.Function('py_str_int', z3.IntSort(), z3.StringSort())   # str(int)
py_str_float = z3.Function('py_str_float', z3.RealSort(), z3.StringSort())
py_upper = z3.Function('py_upper', z3.StringSort(), z3.StringSort())
py_lower = z3.Function('py_lower', z3.StringSort(), z3.StringSort())
py_title = z3.Function('py_title', z3.StringSort(), z3.StringSort())
ipow = z3.Function('ipow', z3.IntSort(), z3.IntSort(), z3.IntSort())
rpow = z3.Function('rpow', z3.RealSort(), z3.RealSort(), z3.RealSort())

US_PER_DAY = 86400 * 10**6
_D0 = datetime.datetime(1, 1, 1)


def date_to_us(d):
    delta = d - _D0
    return (delta.days * 86400 + delta.seconds) * 10**6 + delta.microseconds


def us_to_date(us):
    return _D0 + datetime.timedelta(microseconds=int(us))


class Err(object):
    """ a concrete canonical error singleton (error.VALUE ...) """
    __slots__ = ('code',)
    _cache = {}

    def __new__(cls, code):
        if code not in cls._cache:
            o = object.__new__(cls)
            o.code = code
            cls._cache[code] = o
        return cls._cache[code]

    def __repr__(self):
        return 'error.' + ERR_NAMES[self.code]


class Sym(object):
    """ a symbolic Python value: a Val term and the set of kinds it may still have on this path """
    __slots__ = ('val', 'kinds', 'is_tuple', 'fresh')

    def __init__(self, val, kinds=ALL_KINDS, is_tuple=False):
        self.val = val
        self.kinds = frozenset(kinds)
        self.is_tuple = is_tuple
        self.fresh = False

    @property
    def kind(self):
        if len(self.kinds) == 1:
            return next(iter(self.kinds))
        return None

    def pay(self, kind=None, j=0):
        kind = kind or self.kind
        return z3.simplify(ACC[kind][j](self.val))

    def __repr__(self):
        return 'Sym(%s:%s)' % ('|'.join(sorted(self.kinds)), self.val)


def mk(kind, *payload):
    return Sym(CON[kind](*payload), (kind,))


def mk_int(t):
    return mk(INT, t)


def mk_bool(t):
    return mk(BOOL, t)


def mk_float(t):
    return mk(FLOAT, t)


def mk_str(t):
    return mk(STR, t)


def mk_err(t):
    return mk(ERR, t)


def mk_date(t):
    return mk(DATE, t)


def mk_list(t, is_tuple=False):
    s = mk(LIST, t)
    s.is_tuple = is_tuple
    return s


def real_of_float(f):
    fr = fractions.Fraction(f)
    return z3.RealVal(str(fr.numerator)) / z3.RealVal(str(fr.denominator)) if fr.denominator != 1 else z3.RealVal(str(fr.numerator))


class Unliftable(Exception):
    pass


def to_val(v):
    """ interpreter value -> z3 Val term """
    if isinstance(v, Sym):
        return v.val
    if v is None:
        return VNone
    if isinstance(v, bool):
        return CON[BOOL](z3.BoolVal(v))
    if isinstance(v, int):
        return CON[INT](z3.IntVal(v))
    if isinstance(v, float):
        if v != v or v in (float('inf'), float('-inf')):
            raise Unliftable('non-finite float')
        return CON[FLOAT](real_of_float(v))
    if isinstance(v, str):
        return CON[STR](z3.StringVal(v))
    if isinstance(v, Err):
        return CON[ERR](z3.IntVal(v.code))
    if isinstance(v, datetime.datetime):
        return CON[DATE](z3.RealVal(date_to_us(v)))
    if isinstance(v, (list, tuple)):
        if not v:
            return CON[LIST](z3.Empty(SeqVal))
        units = [z3.Unit(to_val(x)) for x in v]
        return CON[LIST](units[0] if len(units) == 1 else z3.Concat(*units))
    raise Unliftable('cannot lift %r' % (type(v).__name__,))


def kinds_of_concrete(v):
    if v is None:
        return NONE
    if isinstance(v, bool):
        return BOOL
    if isinstance(v, int):
        return INT
    if isinstance(v, float):
        return FLOAT
    if isinstance(v, str):
        return STR
    if isinstance(v, Err):
        return ERR
    if isinstance(v, datetime.datetime):
        return DATE
    if isinstance(v, (list, tuple)):
        return LIST
    return None


def as_sym(v):
    if isinstance(v, Sym):
        return v
    s = Sym(to_val(v), (kinds_of_concrete(v),))
    if isinstance(v, tuple):
        s.is_tuple = True
    return s


# ---------------------------------------------------------------- term-level (non forking) semantics

def is_kind(val, *kinds):
    ts = [REC[k](val) for k in kinds]
    return ts[0] if len(ts) == 1 else z3.Or(*ts)


def num_as_real(val):
    """ numeric value of a Val known to be bool/int/float, as Real """
    return z3.If(REC[BOOL](val), z3.If(ACC[BOOL][0](val), z3.RealVal(1), z3.RealVal(0)),
                 z3.If(REC[INT](val), z3.ToReal(ACC[INT][0](val)), ACC[FLOAT][0](val)))


def is_numeric(val):
    return z3.Or(REC[BOOL](val), REC[INT](val), REC[FLOAT](val))


def truthy_term(val, kinds=ALL_KINDS):
    """ Python truthiness of a Val as a Bool term (objects and errors and dates are truthy) """
    parts = []
    t = z3.BoolVal(True)
    # build nested If over the possible kinds
    cases = []
    if NONE in kinds:
        cases.append((REC[NONE](val), z3.BoolVal(False)))
    if BOOL in kinds:
        cases.append((REC[BOOL](val), ACC[BOOL][0](val)))
    if INT in kinds:
        cases.append((REC[INT](val), ACC[INT][0](val) != 0))
    if FLOAT in kinds:
        cases.append((REC[FLOAT](val), ACC[FLOAT][0](val) != 0))
    if STR in kinds:
        cases.append((REC[STR](val), z3.Length(ACC[STR][0](val)) > 0))
    if LIST in kinds:
        cases.append((REC[LIST](val), z3.Length(ACC[LIST][0](val)) > 0))
    for c, v in reversed(cases):
        t = z3.If(c, v, t)
    return z3.simplify(t)


def py_eq_term(a, b):
    """ Python == between two Vals (no repo-class dunder involved), as Bool term.
        numbers compare numerically across bool/int/float; errors by identity (= code); everything else
        structurally within a kind; different kinds are unequal. Lists: structural (documented imprecision:
        [1] == [True] is reported unequal). """
    both_num = z3.And(is_numeric(a), is_numeric(b))
    return z3.If(both_num, num_as_real(a) == num_as_real(b), a == b)


def model_to_py(model, term, env=None):
    """ evaluate a Val term in a model -> plain python value (errors as Err, dates as datetime) """
    v = model.eval(term, model_completion=True)
    return val_to_py(v)


def _real_to_py(r):
    r = z3.simplify(r)
    if z3.is_rational_value(r):
        return fractions.Fraction(r.numerator_as_long(), r.denominator_as_long())
    if z3.is_algebraic_value(r):
        return fractions.Fraction(r.approx(20).numerator_as_long(), r.approx(20).denominator_as_long())
    raise ValueError('not a numeral: %s' % r)


def val_to_py(v):
    d = v.decl().name()
    if d == 'VNone':
        return None
    if d == 'VBool':
        return z3.is_true(v.arg(0))
    if d == 'VInt':
        return v.arg(0).as_long()
    if d == 'VFloat':
        fr = _real_to_py(v.arg(0))
        return float(fr)
    if d == 'VStr':
        return v.arg(0).as_string() if not hasattr(v.arg(0), 'py_value') else v.arg(0).py_value()
    if d == 'VErr':
        c = v.arg(0).as_long()
        return Err(c) if 0 <= c <= 8 else ForeignErr(c)
    if d == 'VDate':
        fr = _real_to_py(v.arg(0))
        return us_to_date(int(fr))
    if d == 'VList':
        return [val_to_py(x) for x in seq_elems(v.arg(0))]
    if d == 'VObj':
        return HostObj(v.arg(0).as_long(), v.arg(1).as_long())
    raise ValueError('unexpected model value %s' % v)


def seq_elems(s):
    s = z3.simplify(s)
    d = s.decl().kind()
    if d == z3.Z3_OP_SEQ_EMPTY:
        return []
    if d == z3.Z3_OP_SEQ_UNIT:
        return [s.arg(0)]
    if d == z3.Z3_OP_SEQ_CONCAT:
        out = []
        for i in range(s.num_args()):
            out.extend(seq_elems(s.arg(i)))
        return out
    raise ValueError('unexpected seq value %s' % s)


class ForeignErr(object):
    """ a non-canonical XLError instance in a counterexample """
    def __init__(self, code):
        self.code = code

    def __repr__(self):
        return 'XLError(<non-canonical #%d>)' % self.code


class HostObj(object):
    def __init__(self, cls, oid):
        self.cls = cls
        self.oid = oid

    def __repr__(self):
        return 'HostObj(cls=%d,id=%d)' % (self.cls, self.oid)
