# C11 -- aggregates equal their definitions over exactly the selected items
import random
import math
import statistics
import itertools
from fractions import Fraction
from props.common import bounded

LEVEL_TEXT = ("Deductive: SUM / PRODUCT / MIN / MAX / COUNT / AVERAGE / MEDIAN return the named statistic (sum, product, min, max, statistics.* as assumed "
              "library functions) of exactly the flattened items, for any number of numeric items, and an error value among any number of items is the "
              "outcome (6 functions); LARGE is index-safe (#NUM! outside 1..len); "
              "parse_criteria compiles operator / bare-value / wildcard criteria into the predicate of the statement (item matched against the "
              "criterion); SUMIFS (one criterion on int/float items; two criteria carrying the same text), AVERAGEIFS and MAXIFS are the sum / mean / "
              "maximum of exactly the selected items for ranges of any length - loop invariants over spec functions defined by recursion on "
              "the prefix length (@inductive: uninterpreted application + the defining equation unfolded once), 0 / an error when nothing is "
              "selected; thorough tier: MAXIFS also against the quantified characterisation (an equal selected item exists, all selected <=).  The flattening generators (iflatten, inumbers) are outside the subset: callers use their contract, the bodies "
              "are checked natively.  Bounded: every aggregate against exact Fraction arithmetic over seeded lists, partitions, permutations, "
              "criteria of the three forms (numbers also spelled .5, -.5, 2., +1, 1e0), data far from the origin.")
TRUSTED = ['statistics.*, sum, max, min, sorted, reduce: textbook definitions (assumed, compared with exact rationals natively)',
           'permutation invariance of the order-free statistics (M3, a property of the definitions)']


def extra(report, env):
    from pyvc import e2e
    rng = random.Random(env['seed'])
    p = e2e.new_parser()
    cases = 0
    fails = []

    def close(a, b):
        return abs(float(a) - float(b)) <= 1e-9 * max(1.0, abs(float(a)), abs(float(b)))

    def F(x):
        return Fraction(str(x))

    def mean(xs):
        return sum(xs) / len(xs)

    def median(xs):
        s = sorted(xs)
        n = len(s)
        return s[n // 2] if n % 2 else (s[n // 2 - 1] + s[n // 2]) / 2

    def pvar(xs):
        m = mean(xs)
        return sum((x - m) ** 2 for x in xs) / len(xs)

    def var(xs):
        m = mean(xs)
        return sum((x - m) ** 2 for x in xs) / (len(xs) - 1)
    defs = {'SUM': sum, 'AVERAGE': mean, 'MIN': min, 'MAX': max, 'COUNT': len, 'MEDIAN': median, 'VAR': var, 'VAR.S': var, 'VAR.P': pvar,
            'STDEV': lambda xs: float(var(xs)) ** 0.5, 'STDEV.S': lambda xs: float(var(xs)) ** 0.5, 'STDEV.P': lambda xs: float(pvar(xs)) ** 0.5,
            'AVEDEV': lambda xs: sum(abs(x - mean(xs)) for x in xs) / len(xs),
            'PRODUCT': lambda xs: __import__('functools').reduce(lambda a, b: a * b, xs)}

    def partition(xs):
        """ regroup a list into separate arguments and (nested) arrays """
        xs = list(xs)
        parts = []
        i = 0
        while i < len(xs):
            k = rng.randint(1, 4)
            chunk = xs[i:i + k]
            i += k
            if len(chunk) == 1 and rng.random() < 0.5:
                parts.append(chunk[0])
            elif rng.random() < 0.3 and len(chunk) > 2:
                parts.append([chunk[0], chunk[1:]])
            else:
                parts.append(chunk)
        return parts
    for _it in range(120 if env['tier'] == 'quick' else 1500):
        n = rng.randint(1, 40)
        xs = [rng.choice([rng.randint(-50, 50), round(rng.uniform(-20, 20), 2), rng.randint(1, 5)]) for _ in range(n)]
        if _it % 4 == 3:
            # data far from the origin compared with its spread (measurements around 1e8, prices around 1e6): the definitions do not care
            off = rng.choice([10 ** 8, 10 ** 6, -10 ** 7])
            xs = [off + round(rng.uniform(0, 1), 1) for _ in range(n)]
            fx_exact = True
        else:
            fx_exact = False
        # (far from the origin the float nearest to 100000000.1 is not 100000000.1: the reference works on the values the library is given)
        fx = [Fraction(x) for x in xs] if fx_exact else [F(x) for x in xs]
        for name, f in defs.items():
            if name in ('VAR', 'VAR.S', 'STDEV', 'STDEV.S') and n < 2:
                continue
            if name == 'PRODUCT' and n > 12:
                continue
            want = f(fx)
            for variant in range(3):
                ys = xs[:]
                if variant == 1:
                    rng.shuffle(ys)
                parts = partition(ys) if variant == 2 else [ys]
                for i, part in enumerate(parts):
                    p.set_variable('arg%s' % 'abcdefghijklmnopqrstuvwxyzABCDEFGHIJKLMNOP'[i], part)
                text = '%s(%s)' % (name, ','.join('arg%s' % 'abcdefghijklmnopqrstuvwxyzABCDEFGHIJKLMNOP'[i] for i in range(len(parts))))
                cases += 1
                r = p.parse(text)
                # floating-point rounding of the INPUT scale is allowed for (64 ulps of the largest item): deviations of data around 1e8
                # cannot be known better than that, however the statistic is computed
                slack = 64 * math.ulp(max(abs(float(x)) for x in xs)) if fx_exact else 0.0
                if not (r['error'] is None and (close(r['result'], want) or abs(float(r['result']) - float(want)) <= slack)) and len(fails) < 5:
                    fails.append({'formula': '%s over %r (variant %d: %r)' % (name, xs, variant, parts), 'detail': 'expected %s got %r' % (float(want), r)})
        # MODE, GEOMEAN, HARMEAN, LARGE, SLOPE
        p.set_variable('xs', xs)
        cases += 1
        ints = [rng.randint(1, 5) for _ in range(n)]
        p.set_variable('ys', ints)
        r = p.parse('MODE(ys)')
        if r['result'] != statistics.mode(ints) and len(fails) < 5:
            fails.append({'formula': 'MODE(%r)' % ints, 'detail': 'got %r' % (r,)})
        pos = [abs(x) + 1 for x in xs]
        p.set_variable('ps', pos)
        for name, f in (('GEOMEAN', statistics.geometric_mean), ('HARMEAN', statistics.harmonic_mean)):
            cases += 1
            r = p.parse('%s(ps)' % name)
            if not (r['error'] is None and close(r['result'], f(pos))) and len(fails) < 5:
                fails.append({'formula': '%s(%r)' % (name, pos), 'detail': 'got %r' % (r,)})
        k = rng.randint(1, n)
        cases += 1
        r = p.parse('LARGE(xs,%d)' % k)
        if not (r['error'] is None and close(r['result'], sorted(fx)[-k])) and len(fails) < 5:
            fails.append({'formula': 'LARGE(%r,%d)' % (xs, k), 'detail': 'got %r' % (r,)})
        for bad in (0, n + 1, -1):
            cases += 1
            r = p.parse('LARGE(xs,%d)' % bad)
            if r['error'] != '#NUM!' and len(fails) < 5:
                fails.append({'formula': 'LARGE(%r,%d)' % (xs, bad), 'detail': 'got %r' % (r,)})
        # criteria functions over exactly the selected items
        crit_cells = [rng.choice([rng.randint(-5, 5), round(rng.uniform(-5, 5), 1)]) for _ in range(n)]
        words = [rng.choice(['apple', 'apples', 'apricot', 'banana', 'bananas', 'cherry', 'avocado', 'fig', 'figs', 'xfig', '']) for _ in range(n)]
        p.set_variable('cs', crit_cells)
        p.set_variable('ws', words)
        t = rng.randint(-3, 3)
        for crit, pred in (('">%d"' % t, lambda c: c > t), ('"<=%d"' % t, lambda c: c <= t), ('"<>%d"' % t, lambda c: c != t), ('"=%d"' % t, lambda c: c == t),
                           ('"%d"' % t, lambda c: c == t),
                           # numbers spelled the short way: .5, -.5, 2.
                           ('">.5"', lambda c: c > 0.5), ('"<-.5"', lambda c: c < -0.5), ('"<>.5"', lambda c: c != 0.5), ('".5"', lambda c: c == 0.5),
                           ('"=2."', lambda c: c == 2), ('">=+1"', lambda c: c >= 1), ('"<1e0"', lambda c: c < 1)):
            sel = [fx[i] for i in range(n) if pred(crit_cells[i])]
            self_sel = [F(c) for c in crit_cells if pred(c)]
            checks = [('SUMIF(cs,%s)' % crit, sum(self_sel)), ('COUNTIF(cs,%s)' % crit, len(self_sel)), ('SUMIFS(xs,cs,%s)' % crit, sum(sel)),
                      ('MAXIFS(xs,cs,%s)' % crit, max(sel) if sel else 0)]
            for text, want in checks:
                cases += 1
                r = p.parse(text)
                if not (r['error'] is None and close(r['result'], want)) and len(fails) < 5:
                    fails.append({'formula': '%s with xs=%r cs=%r' % (text, xs, crit_cells), 'detail': 'expected %s got %r' % (float(want), r)})
            for text in ('AVERAGEIFS(xs,cs,%s)' % crit, 'AVERAGEIF(cs,%s,xs)' % crit):
                cases += 1
                r = p.parse(text)
                ok = (r['error'] is None and close(r['result'], mean(sel))) if sel else (r['error'] is not None)
                if not ok and len(fails) < 5:
                    fails.append({'formula': '%s with xs=%r cs=%r' % (text, xs, crit_cells), 'detail': 'expected %s got %r' % (float(mean(sel)) if sel else 'an error', r)})
        from pyvc.api import wildcard_match
        for pat in ('a*', '?ig', '*an*', 'apple', 'appl?', '*ana', 'fi?', 'b*a'):
            cnt = sum(1 for w_ in words if (wildcard_match(w_, pat) if ('*' in pat or '?' in pat) else w_ == pat))
            cases += 1
            r = p.parse('COUNTIF(ws,"%s")' % pat)
            if r['result'] != cnt and len(fails) < 5:
                fails.append({'formula': 'COUNTIF(%r,"%s")' % (words, pat), 'detail': 'expected %d got %r' % (cnt, r)})
        # two criteria
        cases += 1
        sel2 = [fx[i] for i in range(n) if crit_cells[i] > t and words[i].startswith('a')]
        r = p.parse('SUMIFS(xs,cs,">%d",ws,"a*")' % t)
        if not (r['error'] is None and close(r['result'], sum(sel2))) and len(fails) < 5:
            fails.append({'formula': 'SUMIFS(xs,cs,">%d",ws,"a*") xs=%r cs=%r ws=%r' % (t, xs, crit_cells, words), 'detail': 'expected %s got %r' % (float(sum(sel2)), r)})
        # several criteria ranges, criterion texts drawn from a small pool (so the same text is often applied to different ranges)
        crit_pool = [('">0"', lambda c: c > 0), ('"<=1"', lambda c: c <= 1), ('"<>2"', lambda c: c != 2), ('"0"', lambda c: c == 0), ('">=-1"', lambda c: c >= -1)]
        for _k in range(3):
            m = rng.randint(2, 3)
            ranges = [[rng.randint(-2, 3) for _ in range(n)] for _ in range(m)]
            crits = [rng.choice(crit_pool) for _ in range(m)]
            if _k == 0:
                crits = [crits[0]] * m           # the same criterion text on every range
            for i, rg in enumerate(ranges):
                p.set_variable('r%s' % 'abc'[i], rg)
            tail = ','.join('r%s,%s' % ('abc'[i], crits[i][0]) for i in range(m))
            sel = [fx[j] for j in range(n) if all(crits[i][1](ranges[i][j]) for i in range(m))]
            for text, want in (('SUMIFS(xs,%s)' % tail, sum(sel)), ('MAXIFS(xs,%s)' % tail, max(sel) if sel else 0),
                               ('AVERAGEIFS(xs,%s)' % tail, mean(sel) if sel else None)):
                cases += 1
                r = p.parse(text)
                ok = (r['error'] is None and close(r['result'], want)) if want is not None else (r['error'] is not None)
                if not ok and len(fails) < 5:
                    fails.append({'formula': '%s with xs=%r ranges=%r' % (text, xs, ranges), 'detail': 'expected %s got %r' % ('an error' if want is None else float(want), r)})
    # long columns: hundreds of items of ordinary magnitude (prices around 65, rates around 0.004, counts up to 1000) - the definitions do
    # not care how many items there are, and intermediate products / sums of squares must not overflow or underflow
    for gen in (lambda: round(rng.uniform(40, 90), 2), lambda: round(rng.uniform(0.001, 0.008), 4), lambda: rng.randint(1, 1000), lambda: round(rng.uniform(-5, 5), 3)):
        for n_ in (160, 220, 300):
            xs = [gen() for _ in range(n_)]
            fx = [Fraction(x) for x in xs]
            p.set_variable('col', xs)
            for name, f in defs.items():
                if name == 'PRODUCT':
                    continue
                cases += 1
                r = p.parse('%s(col)' % name)
                want = f(fx)
                if not (r['error'] is None and abs(float(r['result']) - float(want)) <= 1e-9 * max(1.0, abs(float(want)))) and len(fails) < 5:
                    fails.append({'formula': '%s over %d items like %r' % (name, n_, xs[:3]), 'detail': 'expected %r got %r' % (float(want), r)})
            if min(xs) > 0:
                for name, f in (('GEOMEAN', statistics.geometric_mean), ('HARMEAN', statistics.harmonic_mean)):
                    cases += 1
                    r = p.parse('%s(col)' % name)
                    want = f(xs)
                    if not (r['error'] is None and abs(float(r['result']) - want) <= 1e-9 * max(1.0, abs(want))) and len(fails) < 5:
                        fails.append({'formula': '%s over %d items like %r' % (name, n_, xs[:3]), 'detail': 'expected %r got %r' % (want, r)})
    # an error among the items makes the result that error: every position, zeros and blanks among the other items, regrouped
    from hotxlfp.formulas import error
    for name in ('SUM', 'PRODUCT', 'AVERAGE', 'MIN', 'MAX', 'MEDIAN'):
        for _ in range(25 if env['tier'] == 'quick' else 300):
            n = rng.randint(1, 6)
            items = [rng.choice([0, 0, 1, 2, -3, 2.5, 10]) for _ in range(n)]
            err = rng.choice([error.NUM, error.DIV_ZERO, error.NOT_AVAILABLE, error.VALUE])
            items[rng.randrange(n)] = err
            parts = partition(items)
            for i, part in enumerate(parts):
                p.set_variable('arg%s' % 'abcdefghijklmnopqrstuvwxyzABCDEFGHIJKLMNOP'[i], part)
            text = '%s(%s)' % (name, ','.join('arg%s' % 'abcdefghijklmnopqrstuvwxyzABCDEFGHIJKLMNOP'[i] for i in range(len(parts))))
            cases += 1
            r = p.parse(text)
            if r['error'] != str(err) and len(fails) < 5:
                fails.append({'formula': '%s over %r' % (name, parts), 'detail': 'an error among the items must be the result (%s), got %r' % (err, r)})
    for name in ('SUM', 'PRODUCT', 'AVERAGE', 'MIN', 'MAX', 'MEDIAN'):
        for pos_ in (0, 1, 2):
            items = [1, 2, 3]
            items[pos_] = error.NUM
            p.set_variable('es', items)
            for text in ('%s(es)' % name, '%s(4,es,5)' % name, '%s({1,2},es)' % name):
                cases += 1
                r = p.parse(text)
                if r['error'] != '#NUM!' and len(fails) < 5:
                    fails.append({'formula': '%s with es=%r' % (text, items), 'detail': 'an error among the items must be the result, got %r' % (r,)})
    # SLOPE: integer data, and the same data with x (or y) scaled far away from 1 - the definition does not care about units
    for _i in range(120):
        k = rng.randint(2, 8)
        xs = [rng.randint(-10, 10) for _ in range(k)]
        ys = [rng.randint(-10, 10) for _ in range(k)]
        sx, sy = ((1, 1), (Fraction(1, 10 ** 6), 1), (10 ** 6, 1), (Fraction(1, 1000), 1000), (1, Fraction(1, 10 ** 6)))[_i % 5 if _i >= 40 else 0]
        xs = [x * sx for x in xs]
        ys = [y * sy for y in ys]
        cases += 1

        def lit(v):
            # exact decimal literal of a (possibly negative) decimal fraction; negatives as 0-x (SLOPE takes its numbers as arguments)
            import decimal
            d = decimal.Decimal(v.numerator) / decimal.Decimal(v.denominator) if isinstance(v, Fraction) else decimal.Decimal(v)
            t = format(abs(d), 'f')
            return ('(0-%s)' % t) if d < 0 else t
        r = p.parse('SLOPE(%s)' % ','.join(lit(v) for v in ys + xs))
        den = k * sum(x * x for x in xs) - sum(xs) ** 2
        if den == 0:
            ok = r['error'] == '#DIV/0!'
        else:
            ok = r['error'] is None and close(r['result'], Fraction(k * sum(x * y for x, y in zip(xs, ys)) - sum(xs) * sum(ys), den))
        if not ok and len(fails) < 5:
            fails.append({'formula': 'SLOPE(ys=%r, xs=%r)' % (ys, xs), 'detail': 'got %r' % (r,)})
    bounded(report, 'C11.aggregates', 'seeded lists of length 1..40 (ints and 2-decimal numbers, duplicates) x 14 statistics x {as given, permuted, '
            'regrouped into arguments / nested arrays} against exact Fraction arithmetic; MODE/GEOMEAN/HARMEAN/LARGE; 5 operator criteria + 4 '
            'text criteria + a two-criteria SUMIFS + three 2..3-criteria *IFS calls (criterion texts repeated) per list; error items at every position among zeros; 120 SLOPE cases (x or y scaled by 1e-6 .. 1e6)', cases, fails)


def replay(rp):
    print(rp)
    return 1
