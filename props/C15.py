# C15 -- text functions satisfy the string algebra they document
LEVEL_TEXT = ("Deductive: LEFT/RIGHT/MID/LEN ... are verified path by path against spec functions with z3 strings "
              "(CPython slice semantics); laws are lemmas over the contracts. Bounded: SUBSTITUTE k-th occurrence, case functions.")
TRUSTED = ['CPython str methods (upper/lower/title/strip/replace/join) as uninterpreted functions', 'z3 5.1 sequence solver']
