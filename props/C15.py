# C15 -- text functions satisfy the string algebra they document
LEVEL_TEXT = ("Deductive: LEFT/RIGHT/MID/LEN ... are verified path by path against spec functions with z3 strings "
              "(CPython slice semantics); laws are lemmas over the contracts. Bounded: SUBSTITUTE k-th occurrence, case functions.")
TRUSTED = ['CPython str methods (upper/lower/title/strip/replace/join) as uninterpreted functions', 'z3 5.1 sequence solver']


def extra(report, env):
    """ the algebra of the statement end to end through Parser.parse, over a character-rich set of texts """
    import random
    import itertools
    from pyvc import e2e
    from props.common import bounded
    rng = random.Random(env['seed'])
    p = e2e.new_parser()
    alphabet = ['a', 'B', 'z', ' ', ' ', '1', 'é', 'ß', '中', '\t', '\n', '\x01', '\x1f', '\x7f', '\x85', '\xa0', '\xad', '　', '​', '"', "'", '-', '.', '\U0001F600', '\U0001D518']
    fixed = ['', ' ', 'a', 'abc', 'Hello World', '  lead', 'trail  ', 'a  b   c', 'ǆ', 'o\'neil mc-x', 'x\x01y\x1fz', 'a\xa0b', 'soft\xadhyphen', 'wide　space',
             'zero​width', 'del\x7fete', 'aXbXcXd', 'aaaa', 'tab\tsep', 'line\nbreak', 'a\U0001F600b', '\U0001F600\U0001F600', 'x\U0001D518']
    texts = fixed + [''.join(rng.choice(alphabet) for _ in range(rng.randint(0, 9))) for _ in range(150 if env['tier'] == 'quick' else 3000)]
    cases = 0
    fails = []

    def val(formula, **binds):
        for k, v in binds.items():
            p.set_variable(k, v)
        return p.parse(formula)

    def bad(formula, binds, detail):
        if len(fails) < 5:
            fails.append({'formula': formula, 'bindings': {k: repr(v) for k, v in binds.items()}, 'detail': detail})
    for s in texts:
        n = rng.randint(0, len(s) + 2)
        b = {'s': s, 'n': n, 't': rng.choice(texts[:20]), 'blank': None}
        checks = [
            ('LEFT(s,n)&RIGHT(s,LEN(s)-n)', s if n <= len(s) else None, 'LEFT(s,n)&RIGHT(s,LEN(s)-n) = s'),
            ('LEFT(s,n)', s[:n], 'the n leading characters (all when more are requested)'),
            ('RIGHT(s,n)', s[len(s) - n:] if 0 < n <= len(s) else ('' if n == 0 else s), 'the n trailing characters'),
            ('MID(s,1,n)', s[:n], 'MID(s,1,n) = LEFT(s,n)'),
            ('MID(s,2,n)', s[1:1 + n], 'the n characters from position 2'),
            ('LEN(s&t)', len(s) + len(b['t']), 'LEN(a&b) = LEN(a)+LEN(b)'),
            ('LEN(s)', len(s), 'LEN'),
            ('CLEAN(s)', ''.join(c for c in s if ord(c) > 31), 'CLEAN removes control characters (codes below 32) and nothing else'),
            ('CONCATENATE(s,t,s)', s + b['t'] + s, 'CONCATENATE joins in order'),
            ('TEXTJOIN("-",TRUE,s,blank,t,blank,s)', '-'.join((s, b['t'], s)), 'TEXTJOIN with a delimiter, blanks (not empty texts) skipped'),
            ('TEXTJOIN("-",FALSE,s,blank,t)', '-'.join((s, '', b['t'])), 'TEXTJOIN keeping blanks as empty items'),
            ('TEXTJOIN("",FALSE,s,t)', s + b['t'], 'TEXTJOIN with an empty delimiter'),
            ('SUBSTITUTE(s,"X","")', s.replace('X', ''), 'SUBSTITUTE by empty text'),
            ('SUBSTITUTE(s,"a","bb")', s.replace('a', 'bb'), 'SUBSTITUTE every occurrence'),
            ('SUBSTITUTE(s,"q~q","zz")', s, 'SUBSTITUTE without an occurrence'),
        ]
        for formula, want, what in checks:
            cases += 1
            r = val(formula, **b)
            if want is None:
                continue
            ok = r['error'] is None and r['result'] == want and type(r['result']) is type(want)
            if not ok:
                bad(formula, b, '%s: expected %r got %r' % (what, want, r))
        # idempotence; the case functions change letter case only
        for fn in ('UPPER', 'LOWER', 'PROPER', 'TRIM', 'CLEAN'):
            cases += 1
            r1 = val('%s(s)' % fn, s=s)
            r2 = val('%s(s)' % fn, s=r1['result'])
            if r1['error'] is not None or r2 != r1:
                bad('%s(%s(s))' % (fn, fn), {'s': s}, '%s is idempotent: once %r, twice %r' % (fn, r1, r2))
            if fn in ('UPPER', 'LOWER', 'PROPER') and r1['error'] is None and r1['result'].casefold() != s.casefold():
                bad('%s(s)' % fn, {'s': s}, '%s changes letter case only: %r' % (fn, r1))
        # SUBSTITUTE: the new text is taken literally, whatever it looks like (backslashes, group references, dollars, ampersands)
        for new in ('\\n', '\\\\', '\\g<0>', '\\1', '$1', '&', '\\', 'a\\tb', '[x]', '.*'):
            cases += 1
            r = val('SUBSTITUTE(s,"a",nw)', s=s + 'a', nw=new)
            if r['result'] != (s + 'a').replace('a', new):
                bad('SUBSTITUTE(s,"a",nw)', {'s': s + 'a', 'nw': new}, 'every occurrence replaced by exactly the new text: expected %r got %r' % ((s + 'a').replace('a', new), r))
        # TRIM touches blanks only: the words are kept, single blanks between them
        cases += 1
        r = val('TRIM(s)', s=s)
        want = ' '.join(w for w in s.split(' ') if w != '')
        if r['result'] != want:
            bad('TRIM(s)', {'s': s}, 'TRIM changes only surplus spaces (U+0020): expected %r got %r' % (want, r))
        # k-th occurrence
        for k in (1, 2, 3):
            cases += 1
            parts = s.split('a')
            want = s if len(parts) <= k else 'a'.join(parts[:k]) + '#' + 'a'.join(parts[k:])
            r = val('SUBSTITUTE(s,"a","#",%d)' % k, s=s)
            if r['result'] != want:
                bad('SUBSTITUTE(s,"a","#",%d)' % k, {'s': s}, 'only the %d-th occurrence: expected %r got %r' % (k, want, r))
    for nneg in (-1, -5, -0.5, -0.1, -1.5, -1e-9):
        p.set_variable('cnt', nneg)
        for f in ('LEFT("abc",cnt)', 'RIGHT("abc",cnt)', 'MID("abc",1,cnt)'):
            cases += 1
            r = p.parse(f)
            if r['error'] != '#VALUE!':
                bad(f, {'cnt': nneg}, 'a negative count is #VALUE!: got %r' % (r,))
    for n in list(range(1, 256)) + [256, 8364, 0x4E2D, 0x10FFFF]:
        cases += 1
        r = p.parse('CODE(CHAR(%d))' % n)
        if r['result'] != n:
            bad('CODE(CHAR(%d))' % n, {}, 'CODE(CHAR(n)) = n: got %r' % (r,))
    # blanks and nested arrays among the items of TEXTJOIN / CONCATENATE
    p.set_variable('arr', ['a', None, ['b', '', ['c']], None])
    for formula, want in (('TEXTJOIN(",",TRUE,arr)', 'a,b,,c'), ('TEXTJOIN("",TRUE,arr)', 'abc'), ('TEXTJOIN("+",TRUE,"x",arr,"y")', 'x+a+b++c+y'),
                          ('TEXTJOIN(",",FALSE,arr)', 'a,,b,,c,'),
                          ('TEXTJOIN(",",TRUE,{"a",,"b"})', 'a,b'), ('TEXTJOIN("",TRUE,{"a",,"b"})', 'ab')):
        cases += 1
        r = p.parse(formula)
        if r['result'] != want:
            bad(formula, {'arr': "['a', None, ['b', '', ['c']], None]"}, 'items in order, blanks skipped: expected %r got %r' % (want, r))
    bounded(report, 'C15.algebra', '20 fixed + seeded texts over a 25-character alphabet (letters, two characters outside the basic multilingual plane, blanks, control characters, no-break / ideographic / zero-width '
            'spaces, soft hyphen, DEL) x 14 laws of the statement, idempotence and case-only of 5 functions, TRIM, k-th SUBSTITUTE (k <= 3), negative counts, CODE(CHAR(n)) for 1..256 and 3 '
            'code points beyond, TEXTJOIN over blanks and nested arrays', cases, fails)


def replay(rp):
    from pyvc import e2e
    p = e2e.new_parser()
    for k, v in (rp.get('bindings') or {}).items():
        p.set_variable(k, eval(v))
    print('parse(%r) with %r -> %r ; %s' % (rp['formula'], rp.get('bindings'), p.parse(rp['formula']), rp['detail']))
    return 1
