# C19 -- cell labels and row/column indices correspond one-to-one
import json
import time

LEVEL_TEXT = ("Deductive: row codecs, extract_label (the regex is modelled as a z3 regular expression with Python's $/\\Z semantics; "
              "non-labels decompose to nothing, labels into exactly their parts with faithful $ flags), to_label, termination and shape of "
              "column_index_to_label; regex obligation: L(source pattern) = L(statement's label shape).  The base-26 bijection itself "
              "(nonlinear induction) is decided by exhaustive native enumeration of all 1..3-letter labels - the whole Excel grid A..XFD - (thorough: 4), "
              "seeded 4..12-letter labels against the positional definition, and decompositions after every order of the four $ patterns of the "
              "same letters (bounded, labelled).")
TRUSTED = ['int(str)/str(int) on digit strings (py_int / py_str_int uninterpreted with the stated axioms)',
           'col_label/col_value bijection: exhaustive enumeration, not the solver']


def extra(report, env):
    import z3
    from pyvc import lexre, native
    w = env['world']
    m = w.module('hotxlfp.helper.cell')
    rx = w.module_attr(None, m, 'LABEL_EXTRACT_REGEXP')
    # --- regex obligation
    t0 = time.time()
    try:
        src = lexre.Parsed(rx.pattern, rx.flags)
        spec = lexre.Parsed(r'^\$?[A-Za-z]+\$?[0-9]+\Z')
        for name, a, b in (('label-regex.source-in-spec', src.fullmatch_language(), spec.fullmatch_language()),
                           ('label-regex.spec-in-source', spec.fullmatch_language(), src.fullmatch_language())):
            ok, wit = lexre.included(a, b)
            if ok is True:
                report.add_record('C19.' + name, 'regex', 'discharged', 'z3-regex', s=round(time.time() - t0, 3))
            elif ok is False:
                rec = report.add_record('C19.' + name, 'regex', 'failed', 'z3-regex', witness=wit)
                cell = native.real_function('hotxlfp.helper.cell:extract_label')
                got = cell(wit)
                import re
                is_label = re.match(r'\$?[A-Za-z]+\$?[0-9]+\Z', wit) is not None
                if bool(got) != is_label:
                    from pyvc.runner import write_replay
                    path = write_replay('C19', name, {'kind': 'regex', 'property': 'C19', 'obligation': name, 'witness': wit,
                                                      'observed': repr(got), 'expected': 'a decomposition iff the string is a cell label',
                                                      'solver': 'z3 regex'})
                    report.violations.append({'what': name, 'replay': path, 'no_input': False})
            else:
                report.add_record('C19.' + name, 'regex', 'undecided', 'z3-regex', reason=str(wit))
                report.undecided.append({'obligation': 'C19.' + name, 'reason': str(wit)})
    except lexre.Unsupported as u:
        report.undecided.append({'obligation': 'C19.label-regex', 'reason': 'pattern outside the regex subset: %s' % u})
    # --- exhaustive bijection (bounded, native)
    import itertools
    l2i = native.real_function('hotxlfp.helper.cell:column_label_to_index')
    i2l = native.real_function('hotxlfp.helper.cell:column_index_to_label')
    letters = 'ABCDEFGHIJKLMNOPQRSTUVWXYZ'
    maxlen = 4 if env['tier'] == 'thorough' else 3
    n = 0
    bad = None
    expect = 0
    for ln in range(1, maxlen + 1):
        for t in itertools.product(letters, repeat=ln):
            s = ''.join(t)
            idx = l2i(s)
            if idx != expect or i2l(idx) != s or l2i(s.lower()) != idx:
                bad = (s, idx, expect, i2l(idx))
                break
            expect += 1
            n += 1
        if bad:
            break
    report.bounded.append({'function': 'column_label_to_index / column_index_to_label', 'contract': 'bijection (order-preserving, both ways, case-insensitive)',
                           'cases': n, 'applicable': n, 'bound': 'all labels of 1..%d letters in order' % maxlen, 'failures': 1 if bad else 0,
                           'role': 'stand-in', 'exhaustive': True})
    # beyond the exhaustive range: seeded labels of 4..12 letters against the textbook bijective base-26 value, both directions
    import random
    rng = random.Random(env['seed'])

    def ref_value(label):
        v = 0
        for ch in label.upper():
            v = v * 26 + (ord(ch) - 64)
        return v - 1
    m = 0
    if not bad:
        for _ in range(3000 if env['tier'] == 'quick' else 30000):
            ln = rng.randint(4, 12)
            s = ''.join(rng.choice(letters) for _ in range(ln))
            s = rng.choice([s, 'A' * ln, 'Z' * ln, 'A' + 'Z' * (ln - 1), 'Z' + 'A' * (ln - 1), s[0] + 'A' * (ln - 1)])
            idx = l2i(s)
            m += 1
            if idx != ref_value(s) or i2l(idx) != s or l2i(s.lower()) != idx or l2i(s.capitalize()) != idx:
                bad = (s, idx, ref_value(s), i2l(ref_value(s)))
                break
    report.bounded.append({'function': 'column_label_to_index / column_index_to_label', 'contract': 'bijection beyond the exhaustive range',
                           'cases': m, 'applicable': m, 'bound': 'seeded labels of 4..12 letters (and the all-A / all-Z / mixed edge labels of each length) '
                           'against the positional definition, both directions, three spellings', 'failures': 1 if bad and m else 0, 'role': 'stand-in',
                           'exhaustive': False})
    if not bad:
        decompositions(report, env, rng)
    if bad:
        from pyvc.runner import write_replay
        path = write_replay('C19', 'bijection', {'kind': 'bijection', 'property': 'C19', 'obligation': 'bijection', 'label': bad[0],
                                                 'observed_index': bad[1], 'expected_index': bad[2], 'back': bad[3]})
        report.violations.append({'what': 'column bijection fails at %r' % (bad,), 'replay': path, 'no_input': False})


def decompose_all(seq):
    """ decompose / recompose the labels of seq one after the other in this process; first failure or None """
    from pyvc import native
    ext = native.real_function('hotxlfp.helper.cell:extract_label')
    tol = native.real_function('hotxlfp.helper.cell:to_label')
    import re
    for pos, lab in enumerate(seq):
        parts = ext(lab)
        mm = re.match(r'(\$?)([A-Za-z]+)(\$?)([0-9]+)\Z', lab)
        if len(parts) != 2:
            return pos, 'decomposes to %r' % (parts,)
        row, col = parts
        want = (int(mm.group(4)) - 1, mm.group(4), mm.group(3) == '$', mm.group(2).upper() if col.label.isupper() else mm.group(2), mm.group(1) == '$')
        got = (row.index, row.label, row.is_absolute, col.label, col.is_absolute)
        if got != want:
            return pos, 'parts (row index, row label, row $, column label, column $) = %r, expected %r' % (got, want)
        if tol(row, col) != lab.upper():
            return pos, 'recomposes to %r' % (tol(row, col),)
    return None


def decompositions(report, env, rng):
    """ every $ pattern of the same letters / row one after the other (both spellings, every order), and seeded sequences: what a label
        decomposes to must not depend on the labels decomposed before it """
    import itertools
    from pyvc.runner import write_replay
    cases = 0
    bad = None
    seqs = []
    for letters_, row in (('Q', '7'), ('ab', '12'), ('XFD', '1048576'), ('n', '98')):
        forms = ['%s%s%s%s' % (a, letters_, b, row) for a in ('', '$') for b in ('', '$')]
        forms += [f.swapcase() for f in forms if f.swapcase() != f]
        seqs.extend(list(p) for p in itertools.permutations(forms[:4]))
        seqs.append(forms + forms[::-1])
    pool = ['%s%s%s%d' % (a, c, b, r) for a in ('', '$') for b in ('', '$') for c in ('A', 'a', 'B', 'AA', 'aZ', 'XFD') for r in (1, 2, 10)]
    for _ in range(200 if env['tier'] == 'quick' else 3000):
        seqs.append([rng.choice(pool) for _ in range(rng.randint(2, 8))])
    for seq in seqs:
        cases += len(seq)
        r = decompose_all(seq)
        if r is not None:
            bad = (seq, r)
            break
    report.bounded.append({'function': 'extract_label / to_label', 'contract': 'decompose and recompose, after any history of other decompositions',
                           'cases': cases, 'applicable': cases, 'bound': 'all orders of the four $ patterns of 4 labels, both spellings; seeded sequences of 2..8 '
                           'labels from a pool of 72', 'failures': 1 if bad else 0, 'role': 'stand-in', 'exhaustive': False})
    if bad:
        path = write_replay('C19', 'decompositions', {'kind': 'decompositions', 'property': 'C19', 'obligation': 'C19.decompositions', 'sequence': bad[0],
                                                      'position': bad[1][0], 'detail': bad[1][1]})
        report.violations.append({'what': 'label %r after %r: %s' % (bad[0][bad[1][0]], bad[0][:bad[1][0]], bad[1][1]), 'replay': path, 'no_input': False})


def replay(rp):
    from pyvc import native
    if rp['kind'] == 'decompositions':
        r = decompose_all(rp['sequence'])
        print('decomposing %r in this order: %s' % (rp['sequence'], 'all as stated' if r is None else 'label #%d %r: %s' % (r[0], rp['sequence'][r[0]], r[1])))
        return 0 if r is None else 1
    if rp['kind'] == 'regex':
        got = native.real_function('hotxlfp.helper.cell:extract_label')(rp['witness'])
        import re
        is_label = re.match(r'\$?[A-Za-z]+\$?[0-9]+\Z', rp['witness']) is not None
        print('extract_label(%r) -> %r ; is a label: %s' % (rp['witness'], got, is_label))
        if bool(got) != is_label:
            print('VIOLATION property=C19 replay=(this file)')
            return 1
        return 0
    if rp['kind'] == 'bijection':
        l2i = native.real_function('hotxlfp.helper.cell:column_label_to_index')
        i2l = native.real_function('hotxlfp.helper.cell:column_index_to_label')
        s = rp['label']
        print('label %r -> %r -> %r (expected index %r)' % (s, l2i(s), i2l(l2i(s)), rp['expected_index']))
        return 1 if (l2i(s) != rp['expected_index'] or i2l(l2i(s)) != s) else 0
    return 3
