# C19 -- cell labels and row/column indices correspond one-to-one
import json
import time

LEVEL_TEXT = ("Deductive: row codecs, extract_label (the regex is modelled as a z3 regular expression with Python's $/\\Z semantics; "
              "non-labels decompose to nothing, labels into exactly their parts with faithful $ flags), to_label, termination and shape of "
              "column_index_to_label; regex obligation: L(source pattern) = L(statement's label shape).  The base-26 bijection itself "
              "(nonlinear induction) is decided by exhaustive native enumeration (bounded, labelled).")
TRUSTED = ['int(str)/str(int) on digit strings (py_int / py_str_int uninterpreted with the stated axioms)',
           'col_label/col_value bijection: exhaustive enumeration, not the solver']


def extra(report, env):
    import z3
    from pyvc import lexre, native
    w = env['world']
    m = w.module('hotxlfp.helper.cell')
    rx = w.module_attr(None, m, 'LABEL_EXTRACT_REGEXP')
    # --- regex obligation
    t0 = time.time()
    try:
        src = lexre.Parsed(rx.pattern, rx.flags)
        spec = lexre.Parsed(r'^\$?[A-Za-z]+\$?[0-9]+\Z')
        for name, a, b in (('label-regex.source-in-spec', src.fullmatch_language(), spec.fullmatch_language()),
                           ('label-regex.spec-in-source', spec.fullmatch_language(), src.fullmatch_language())):
            ok, wit = lexre.included(a, b)
            if ok is True:
                report.add_record('C19.' + name, 'regex', 'discharged', 'z3-regex', s=round(time.time() - t0, 3))
            elif ok is False:
                rec = report.add_record('C19.' + name, 'regex', 'failed', 'z3-regex', witness=wit)
                cell = native.real_function('hotxlfp.helper.cell:extract_label')
                got = cell(wit)
                import re
                is_label = re.match(r'\$?[A-Za-z]+\$?[0-9]+\Z', wit) is not None
                if bool(got) != is_label:
                    from pyvc.runner import write_replay
                    path = write_replay('C19', name, {'kind': 'regex', 'property': 'C19', 'obligation': name, 'witness': wit,
                                                      'observed': repr(got), 'expected': 'a decomposition iff the string is a cell label',
                                                      'solver': 'z3 regex'})
                    report.violations.append({'what': name, 'replay': path, 'no_input': False})
            else:
                report.add_record('C19.' + name, 'regex', 'undecided', 'z3-regex', reason=str(wit))
                report.undecided.append({'obligation': 'C19.' + name, 'reason': str(wit)})
    except lexre.Unsupported as u:
        report.undecided.append({'obligation': 'C19.label-regex', 'reason': 'pattern outside the regex subset: %s' % u})
    # --- exhaustive bijection (bounded, native)
    import itertools
    l2i = native.real_function('hotxlfp.helper.cell:column_label_to_index')
    i2l = native.real_function('hotxlfp.helper.cell:column_index_to_label')
    letters = 'ABCDEFGHIJKLMNOPQRSTUVWXYZ'
    maxlen = 4 if env['tier'] == 'thorough' else 3
    n = 0
    bad = None
    expect = 0
    for ln in range(1, maxlen + 1):
        for t in itertools.product(letters, repeat=ln):
            s = ''.join(t)
            idx = l2i(s)
            if idx != expect or i2l(idx) != s or l2i(s.lower()) != idx:
                bad = (s, idx, expect, i2l(idx))
                break
            expect += 1
            n += 1
        if bad:
            break
    report.bounded.append({'function': 'column_label_to_index / column_index_to_label', 'contract': 'bijection (order-preserving, both ways, case-insensitive)',
                           'cases': n, 'applicable': n, 'bound': 'all labels of 1..%d letters in order' % maxlen, 'failures': 1 if bad else 0,
                           'role': 'stand-in', 'exhaustive': True})
    if bad:
        from pyvc.runner import write_replay
        path = write_replay('C19', 'bijection', {'kind': 'bijection', 'property': 'C19', 'obligation': 'bijection', 'label': bad[0],
                                                 'observed_index': bad[1], 'expected_index': bad[2], 'back': bad[3]})
        report.violations.append({'what': 'column bijection fails at %r' % (bad,), 'replay': path, 'no_input': False})


def replay(rp):
    from pyvc import native
    if rp['kind'] == 'regex':
        got = native.real_function('hotxlfp.helper.cell:extract_label')(rp['witness'])
        import re
        is_label = re.match(r'\$?[A-Za-z]+\$?[0-9]+\Z', rp['witness']) is not None
        print('extract_label(%r) -> %r ; is a label: %s' % (rp['witness'], got, is_label))
        if bool(got) != is_label:
            print('VIOLATION property=C19 replay=(this file)')
            return 1
        return 0
    if rp['kind'] == 'bijection':
        l2i = native.real_function('hotxlfp.helper.cell:column_label_to_index')
        i2l = native.real_function('hotxlfp.helper.cell:column_index_to_label')
        s = rp['label']
        print('label %r -> %r -> %r (expected index %r)' % (s, l2i(s), i2l(l2i(s)), rp['expected_index']))
        return 1 if (l2i(s) != rp['expected_index'] or i2l(l2i(s)) != s) else 0
    return 3
