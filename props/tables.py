# -*- coding: utf-8 -*-
# Formula tables: inputs on which the pinned tree once broke a property (found by sub-agents reading the code, each repaired by a `fix:` commit) and
# their neighbours, with the outcome the property's text demands.  Bounded stand-ins (never counted as proved); run after each property's own `extra`.
import math
from props.common import formula_table, bounded

CODES = ['#ERROR!', '#DIV/0!', '#NAME?', '#N/A', '#NULL!', '#NUM!', '#REF!', '#VALUE!', '#GETTING_DATA']


def val(x):
    def f(r):
        return r['error'] is None and r['result'] == x
    f.__doc__ = 'the value %r' % (x,)
    return f


def number_in(lo, hi):
    def f(r):
        return r['error'] is None and isinstance(r['result'], int) and not isinstance(r['result'], bool) and lo <= r['result'] <= hi
    f.__doc__ = 'an integer in [%r, %r]' % (lo, hi)
    return f


def c04(report, env):
    # comparison operators are ONE level and group left to right, whichever of them meet
    ops = ['=', '<', '>', '<=', '>=', '<>']
    rows = []
    import itertools
    from pyvc import e2e
    p = e2e.new_parser()
    vals = ['3', '2', 'TRUE', '"b"', '0']
    fails, cases = [], 0
    for o1, o2 in itertools.product(ops, ops):
        for a, b, c in itertools.product(vals, repeat=3):
            flat = '%s%s%s%s%s' % (a, o1, b, o2, c)
            left = '(%s%s%s)%s%s' % (a, o1, b, o2, c)
            cases += 1
            r1, r2 = p.parse(flat), p.parse(left)
            if r1 != r2 and len(fails) < 5:
                fails.append({'formula': flat, 'detail': 'comparison operators group left to right: %s gives %r but %s gives %r' % (flat, r1, left, r2)})
    bounded(report, 'C04.comparison-chains', 'every ordered pair of the 6 comparison operators x 5^3 operand triples (numbers, a logical, a text): a op b op c against (a op b) op c', cases, fails)


def c08(report, env):
    rows = []
    for code in CODES:
        rows.append((code, code))
        for tail in ('/2', '+1', '*3', '-1', '&"x"', '=1', '<>2', '/0', ' / 2'):
            rows.append((code + tail, code))            # the literal ends where the code ends; what follows is an operator
        rows.append(('1+' + code, code))
        rows.append(('2/' + code, code))
        rows.append(('-' + code, code))
        rows.append(('IFERROR(1,2)+' + code, code))
    # an operator whose exact result does not fit a float produces an error VALUE (observable), it does not abort the formula
    rows += [('IFERROR(10^400/1,5)', 5), ('ISERROR(10^400*0.5)', True), ('ISERR((10^400)/3)', True), ('IFERROR(10^400+0.5,"big")', 'big'),
             ('10^400/1', '#NUM!'), ('IFNA(10^400*0.5,1)', '#NUM!'), ('ERROR.TYPE(10^400/1)', 6), ('10^400+1-10^400', 1)]
    formula_table(report, 'C08.literals-and-overflow', 'the 9 canonical error literals x 13 surroundings (operators directly after the literal), 8 operator overflows under the observers', rows)


def c11(report, env):
    rows = [('LARGE({1,2;3,4},3)', 2), ('LARGE({1,2;3,4},4)', 1), ('LARGE({1,2;3,4},1)', 4), ('LARGE({1,2;3,4},5)', '#NUM!'), ('LARGE({4,3,2,1},3)', 2),
            ('LARGE({5,1;2,9},2)', 5), ('LARGE({1,2,3},0)', '#NUM!'),
            # a bare value that is a number or a logical, not text
            ('COUNTIF({1;2;3},2)', 1), ('COUNTIF({1;2;2.0;"2"},2)', 2), ('SUMIF({1;2;3;2},2)', 4), ('AVERAGEIF({1;2;3},3)', 3.0), ('SUMIFS({1,2,3},{1,2,2},2)', 5),
            ('MAXIFS({1,2,3},{1,2,2},2)', 3), ('AVERAGEIFS({1,2,3},{1,2,2},2)', 2.5), ('COUNTIF({1;2;3},1+1)', 1), ('COUNTIF({TRUE;FALSE;1},TRUE)', 1),
            ('COUNTIF({1;2;3},2.5)', 0), ('SUMIF({1;2;3},4)', 0),
            # * and ? are the only wildcards
            ('COUNTIF({"a[1]x";"a1x"},"a[1]*")', 1), ('COUNTIF({"a[1]x";"a1x";"a[1]"},"a[1]?")', 1), ('COUNTIF({"[!a]";"b"},"[!a]*")', 1), ('COUNTIF({"[!a]";"b"},"[!a]?")', 0),
            ('COUNTIF({"a]x";"ax"},"a]*")', 1), ('COUNTIF({"[";"[[]";"x"},"[*")', 2)]
    formula_table(report, 'C11.regrouped-large-bare-and-bracket-criteria', 'LARGE over rows of a nested array (7), bare criteria that are numbers / logicals (11), criteria holding [ ] ! next to * and ? (6)', rows)


def c12(report, env):
    rows = [('SWITCH(1/0,1,"a","d")', '#DIV/0!'), ('SWITCH(NA(),1,"a")', '#N/A'), ('SWITCH(SQRT(-1),1,"a","d")', lambda r: r['result'] is None and r['error'] is not None),
            ('IFERROR(SWITCH(1/0,1,"a","d"),"e")', 'e'), ('SWITCH(1/0)', '#DIV/0!'), ('SWITCH(1,1,"a","d")', 'a'), ('SWITCH(2,1,"a","d")', 'd'), ('SWITCH(2,1,"a")', '#N/A')]
    formula_table(report, 'C12.switch-error-target', 'an error value as the tested target of SWITCH is that error, never the default or a case (5 + 3 neighbours)', rows)


def c15(report, env):
    rows = [('SUBSTITUTE("aaa","aa","b",2)', 'aaa'), ('SUBSTITUTE("aaa","aa","b",1)', 'ba'), ('SUBSTITUTE("aaaa","aa","b",2)', 'aab'), ('SUBSTITUTE("aaaa","aa","b",3)', 'aaaa'),
            ('SUBSTITUTE("aaaaa","aa","b",2)', 'aaba'), ('SUBSTITUTE("abababa","aba","X",2)', 'ababX'), ('SUBSTITUTE("abcabc","bc","X",2)', 'abcaX'),
            ('SUBSTITUTE("aaa","aa","b")', 'ba'), ('SUBSTITUTE("xxxx","xx","",2)', 'xx'), ('SUBSTITUTE("xxx","xx","",2)', 'xxx'),
            ('TEXTJOIN(",",TRUE,1,2)', '1,2'), ('TEXTJOIN("-",TRUE,"a",,2.5,{1,"b"})', 'a-2.5-1-b'), ('TEXTJOIN("-",FALSE,"a",,"b")', 'a--b'), ('TEXTJOIN(",",TRUE,"a",1/0)', '#DIV/0!'),
            ('TEXTJOIN("",TRUE,1,{2,3},"x")', '123x'), ('LEN(TEXTJOIN("+",TRUE,10,20))', 5)]
    formula_table(report, 'C15.kth-occurrence-and-joined-numbers', 'k-th occurrence among non-overlapping occurrences on self-overlapping texts (10), TEXTJOIN over numbers, arrays and an error item (6)', rows)


def _kth(text, old, new, k):
    # reference: the k-th of the non-overlapping occurrences, scanning from the left (what replace-all replaces)
    i, n = 0, 0
    while True:
        j = text.find(old, i)
        if j < 0:
            return text
        n += 1
        if n == k:
            return text[:j] + new + text[j + len(old):]
        i = j + len(old)


def c15_sweep(report, env):
    import itertools
    from pyvc import e2e
    p = e2e.new_parser()
    fails, cases = [], 0
    for n in range(1, 7):
        for t in itertools.product('ab', repeat=n):
            text = ''.join(t)
            for old in ('a', 'aa', 'ab', 'aba', 'bb'):
                for k in (1, 2, 3):
                    cases += 1
                    f = 'SUBSTITUTE("%s","%s","Z",%d)' % (text, old, k)
                    r = p.parse(f)
                    want = _kth(text, old, 'Z', k)
                    if r != {'result': want, 'error': None} and len(fails) < 5:
                        fails.append({'formula': f, 'detail': 'expected %r, got %r' % (want, r)})
    bounded(report, 'C15.kth-occurrence-sweep', 'every text over {a,b} up to 6 characters x 5 old texts x instance 1..3 against the k-th non-overlapping occurrence', cases, fails)


def c16(report, env):
    rows = []
    for w in ('nan', 'NaN', 'inf', '-inf', 'Infinity', '-Infinity', '1_000', '1_0.5', '1e400', '0x10', 'abc', ''):
        for fn in ('ABS', 'SQRT', 'EXP', 'LN', 'SIN', 'COS', 'ATAN', 'RADIANS', 'SINH', 'LOG10'):
            rows.append(('%s("%s")' % (fn, w), lambda r: r['result'] is None and r['error'] in CODES))
    rows = [(f, w) for f, w in rows]
    for f, w in rows:
        w.__doc__ = 'an error, never a number (non-numeric text)'
    rows += [('RANDBETWEEN(1.5,2.9)', number_in(2, 2)), ('RANDBETWEEN(-2.5,-1.5)', number_in(-2, -2)), ('RANDBETWEEN(1.5,1.9)', '#NUM!'), ('RANDBETWEEN(0.1,3.9)', number_in(1, 3)),
             ('RANDBETWEEN(-3.9,-0.1)', number_in(-3, -1)), ('RANDBETWEEN(-0.5,0.5)', number_in(0, 0)), ('RANDBETWEEN(2,2)', number_in(2, 2)), ('RANDBETWEEN(5,1)', lambda r: r['result'] is None)] * 6
    formula_table(report, 'C16.non-numeric-words-and-fractional-bounds', '12 texts that only Python reads as numbers (or nobody does) x 10 functions; RANDBETWEEN with fractional bounds, 6 draws each', rows)


def c06(report, env):
    rows = []
    for w in ('nan', 'NaN', 'inf', '-inf', 'Infinity', '1_000', '1_0', '1e400', '0x10'):
        for f in ('"%s"+1', '1+"%s"', '"%s"*2', '2*"%s"', '"%s"-1', '1/"%s"', '"%s"/2', '0-"%s"'):
            rows.append((f % w, '#VALUE!'))
        rows.append(('"%s"&"x"' % w, w + 'x'))           # & joins text verbatim
    rows += [('"1e3"+1', 1001.0), ('" 5 "+1', 6), ('"1.5"*2', 3.0), ('"-2"*"-3"', 6), ('DATE(9999,12,31)+1', '#NUM!'), ('DATE(9999,12,31)+0.5', lambda r: r['error'] is None),
             ('10^400*0.5', '#NUM!'), ('10^400/1', '#NUM!'), ('10^400-10^400', 0)]
    formula_table(report, 'C06.words-that-are-not-numbers', '9 texts that only Python reads as numbers x 8 operator forms (#VALUE!) and & (verbatim); 9 neighbours incl. dates past 9999 and float overflow (#NUM!)', rows)


def c18(report, env):
    rows = [('MATCH("a[1]",{"a[1]"},0)', 1), ('MATCH("a[1]*",{"a1x","a[1]x"},0)', 2), ('MATCH("[x]",{"x","[x]"},0)', 2), ('MATCH("[!x]",{"y","[!x]"},0)', 2),
            ('MATCH("a]",{"a","a]"},0)', 2), ('INDEX({"x","[x]"},MATCH("[x]",{"x","[x]"},0))', '[x]'), ('MATCH("[a-c]",{"b","[a-c]"},0)', 2),
            ('MATCH("?[1]",{"a1","a[1]x","b1"},0)', '#N/A'), ('MATCH("?[1]",{"a1","[[1]","b[1]"},0)', 2)]
    # a position is a position however it was computed: division yields a float
    rows += [('INDEX({1,2,3},4/2)', 2), ('CHOOSE(4/2,"a","b")', 'b'), ('INDEX({1,2;3,4},4/2,2/2)', 3), ('INDEX({1,2;3,4},2.0)', [3, 4]), ('CHOOSE(9/3,"a","b","c")', 'c'),
             ('CHOOSE(6/2,"a","b")', lambda r: r['result'] is None), ('INDEX({1,2,3},8/2)', lambda r: r['result'] is None), ('INDEX({1,2,3},2.5)', lambda r: r['result'] is None),
             ('CHOOSE(2.5,"a","b","c")', lambda r: r['result'] is None or r['result'] in ('b',)), ('INDEX({5,6,7},MATCH(6,{5,6,7},0)*1.0)', 6)]
    formula_table(report, 'C18.brackets-are-not-wildcards', 'text lookups holding [ ] ! - next to * and ? (9): only * and ? are wildcards, INDEX(MATCH) returns the item; positions computed as floats (10)', rows)


def c20(report, env):
    from pyvc import native
    Emitter = native.real_function('hotxlfp.tinyemitter:Emitter')

    class Bag(list):
        """ a callable that is falsy (an empty list subclass) """
        def __call__(self, *a, **k):
            log.append(('bag', a))
    fails, cases = [], 0
    for shape in range(8):
        log = []
        e = Emitter()
        bag, bag2 = Bag(), Bag()
        f = lambda *a: log.append(('f', a))
        g = lambda *a: log.append(('g', a))
        subs = [[f, bag, g], [bag, f], [f, g, bag, bag2], [bag], [f, bag, f], [bag2, bag], [g, bag, bag], [f]][shape]
        for s in subs:
            e.on('ev', s)
        e.off('ev', bag)
        e.emit('ev', 1)
        cases += 1
        # Bag() == Bag() (two empty lists are equal): "the listeners for that callback" are those EQUAL to it, as for bound methods
        want = [('f' if s is f else 'g', (1,)) for s in subs if not isinstance(s, Bag)]
        if log != want and len(fails) < 5:
            fails.append({'formula': 'off(name, falsy callable), shape %d' % shape, 'detail': 'unsubscribing a falsy callable must remove exactly its listeners: deliveries %r, expected %r' % (log, want)})
    bounded(report, 'C20.falsy-callable', '8 subscription shapes with a callable object that is falsy (an empty list subclass): off(name, it) removes exactly its listeners', cases, fails, kind='table')


def c17(report, env):
    # each function is a function of its arguments: the same arguments handed to ANOTHER function just before (or the same function
    # earlier) change nothing.  FACT / FACTDOUBLE against exact references in both orders; every other one-argument name of the
    # property in two evaluation orders on one parser, outcome per formula compared.
    from pyvc import e2e
    fails, cases = [], 0

    def dfact(n):
        r = 1
        while n > 1:
            r *= n
            n -= 2
        return r
    for order in (('FACT', 'FACTDOUBLE'), ('FACTDOUBLE', 'FACT')):
        p = e2e.new_parser()
        for n in list(range(0, 26)) + [30, 50, 100, 170]:
            for fn in order + order:
                f = '%s(%d)' % (fn, n)
                r = p.parse(f)
                cases += 1
                want = math.factorial(n) if fn == 'FACT' else dfact(n)
                if r != {'result': want, 'error': None} and len(fails) < 5:
                    fails.append({'formula': f, 'detail': 'after %s of the same argument: expected %r, got %r' % (order[0], want, r)})
    names = ['INT', 'EVEN', 'ODD', 'SIGN', 'FACT', 'FACTDOUBLE', 'ABS', 'ROUND', 'ROUNDUP', 'ROUNDDOWN', 'DEC2HEX', 'DEC2BIN', 'DEC2OCT', 'ROMAN', 'SQRT', 'EXP']
    args = ['0', '1', '2', '3', '5', '6', '7', '10', '12', '2.5', '-3', '-2.5', '255']
    forms = ['%s(%s)' % (n, a) if n not in ('ROUND', 'ROUNDUP', 'ROUNDDOWN') else '%s(%s,0)' % (n, a) for a in args for n in names]
    p1, p2 = e2e.new_parser(), e2e.new_parser()
    o1 = {f: p1.parse(f) for f in forms}
    o2 = {f: p2.parse(f) for f in reversed(forms)}
    for f in forms:
        cases += 1
        if repr(o1[f]) != repr(o2[f]) and len(fails) < 5:
            fails.append({'formula': f, 'detail': 'the outcome depends on what was evaluated before: %r when functions are called in one order, %r in the reverse order' % (o1[f], o2[f])})
    bounded(report, 'C17.same-argument-other-function', 'FACT / FACTDOUBLE of 0..25, 30, 50, 100, 170 in both call orders against exact references; 16 one-argument functions x 13 arguments in two evaluation orders', cases, fails)


def c04_text_leaves(report, env):
    # text leaves that look like syntax: parentheses, operators and quotes of the other kind inside a text constant are characters
    rows = [('"("&1', '(1'), ('1&")"', '1)'), ('"f(x"="f(x"', True), ('-1&":-("', '-1:-('), ('(1+2*3)&"("', '7('), ('")"&"("', ')('), ('LEN("((")', 2),
            ('"a)"&"b"', 'a)b'), ('("("&")")', '()'), ('"(((" = "((("', True), ('"1+1"&"*2"', '1+1*2'), ("'('&\"x\"", '(x'), ('"{"&"}"', '{}'), ('";"&","', ';,'),
            ('IF("("=")",1,2)', 2), ('(("(")&(")"))', '()'), ('2*(3+LEN(")"))', 8)]
    formula_table(report, 'C04.text-leaves-that-look-like-syntax', '17 trees whose text leaves hold parentheses, operators, braces and separators', rows)


def c02(report, env):
    # a long-lived process retains no memory per evaluation: allocated bytes (tracemalloc: also objects the garbage collector does not
    # track, strings and tuples) stay flat over thousands of DISTINCT failing and succeeding evaluations
    import gc
    import tracemalloc
    import warnings
    from pyvc import e2e
    p = e2e.new_parser()

    def boom(*a):
        raise ValueError('no rate for %r' % (a,))
    p.set_function('BOOM', boom)
    p.set_function('ECHO', lambda *a: a[0] if a else None)
    forms = ['BOOM("k%d")', 'BOOM(%d,2)', 'SQRT(-%d)', 'ECHO("v%d")&"x"', '1/0+%d', 'IFERROR(BOOM(%d),0)', 'nosuchname+%d', 'SUM(%d,"a")', 'NOSUCHFN(%d)', '(%d']

    def rounds(lo, hi):
        for i in range(lo, hi):
            for f in forms:
                p.parse(f % i)
    with warnings.catch_warnings():
        warnings.simplefilter('default')          # what a host that has not silenced warnings runs with
        rounds(0, 150)
        gc.collect()
        tracemalloc.start()
        rounds(150, 300)
        gc.collect()
        a = tracemalloc.get_traced_memory()[0]
        rounds(300, 900)
        gc.collect()
        b = tracemalloc.get_traced_memory()[0]
        tracemalloc.stop()
    fails = []
    if b - a > 150000:
        fails.append({'formula': 'BOOM("k<i>") ... (10 forms x 600 distinct arguments)', 'detail': 'allocated memory grows with the number of evaluations: +%d bytes over 6000 distinct evaluations after warm-up' % (b - a)})
    bounded(report, 'C02.allocated-bytes', '10 formula forms x 600 distinct arguments after a 3000-evaluation warm-up: growth of traced allocations below 150 kB (25 bytes per evaluation)', 6000, fails)


def c03(report, env):
    # evaluations on different parsers in different threads never wait for each other: parser A's custom function parks until parser B,
    # in another thread, has finished an evaluation (and the other way round)
    import threading
    from pyvc import e2e
    fails, cases = [], 0
    for trial in range(3):
        a, b = e2e.new_parser(), e2e.new_parser()
        done_b = threading.Event()
        in_a = threading.Event()
        out = {}

        def wait_for_b(x):
            in_a.set()
            ok = done_b.wait(5)
            return x + (1 if ok else 1000)
        a.set_function('PARK', wait_for_b)
        b.set_variable('y', 41)

        def run_b():
            in_a.wait(5)
            out['b'] = b.parse('y+1')
            done_b.set()
        t = threading.Thread(target=run_b)
        t.start()
        out['a'] = a.parse('PARK(1)*2')
        t.join(10)
        cases += 1
        if (out.get('a') != {'result': 4, 'error': None} or out.get('b') != {'result': 42, 'error': None}) and len(fails) < 5:
            fails.append({'formula': 'PARK(1)*2 on parser A while y+1 runs on parser B in another thread',
                          'detail': 'an evaluation on one parser had to wait for an evaluation on another: A %r, B %r' % (out.get('a'), out.get('b'))})
    bounded(report, 'C03.parked-evaluation', '3 trials: parser A parked inside a custom function until parser B has finished an evaluation in another thread (5 s bound)', cases, fails, kind='table')
    # objects created in a class body are shared by every instance (a lock there serialises all parsers, a list there is common state)
    import ast
    import os
    from props.common import table_obligations
    res = []
    root = os.path.join(env['repo'], 'hotxlfp')
    for d, _, files in os.walk(root):
        for fn in sorted(files):
            if not fn.endswith('.py'):
                continue
            path = os.path.join(d, fn)
            tree = ast.parse(open(path).read())
            rel = os.path.relpath(path, env['repo'])
            for c in ast.walk(tree):
                if not isinstance(c, ast.ClassDef):
                    continue
                for n in c.body:
                    if isinstance(n, (ast.Assign, ast.AnnAssign)) and n.value is not None:
                        v = n.value
                        shared = isinstance(v, (ast.Call, ast.List, ast.Dict, ast.Set, ast.ListComp, ast.DictComp, ast.SetComp))
                        name = ast.unparse(n.targets[0] if isinstance(n, ast.Assign) else n.target)
                        res.append(('class-level-object.%s:%s.%s' % (rel, c.name, name), not shared,
                                    '%s = %s in the body of class %s is one object shared by every instance' % (name, ast.unparse(v)[:60], c.name)))
            for n in tree.body:
                if isinstance(n, ast.Assign) and isinstance(n.value, ast.Call) and isinstance(n.value.func, ast.Attribute) and \
                        isinstance(n.value.func.value, ast.Name) and n.value.func.value.id in ('threading', 'multiprocessing', '_thread'):
                    res.append(('module-level-synchronisation.%s:%s' % (rel, ast.unparse(n.targets[0])), False,
                                '%s at module level is shared by every parser and thread' % ast.unparse(n)[:80]))
    table_obligations(report, 'C03', res)


# ---- known findings decided by a concrete formula (KNOWN-FINDING while they still fail; an ordinary violation if not listed) -------------
def k14(report, env):
    import datetime
    from pyvc import e2e
    from props.common import known_e2e
    p = e2e.new_parser()
    r = p.parse('DAYS(DATE(1900,1,2),DATE(1900,1,1))')
    r2 = p.parse('DAYS(DATE(1900,3,1),DATE(1900,2,28))')
    known_e2e(report, 'C14-days-across-early-1900', not (r.get('result') == 1 and r2.get('result') == 1), 'DAYS(DATE(1900,1,2),DATE(1900,1,1))',
              'DAYS across 1 January or 28 February / 1 March 1900 counts a day too many: %r, %r' % (r, r2))
    # inside January-February 1900 (both ends after 1 January, before 1 March) the calendar difference holds; so do DATEDIF d
    fails, cases = [], 0
    d0 = datetime.date(1900, 1, 2)
    days = [d0 + datetime.timedelta(days=i) for i in range(0, 58, 3)] + [datetime.date(1900, 2, 28)]
    for a in days:
        for b in days:
            if a > b:
                continue
            cases += 1
            f = 'DAYS(DATE(%d,%d,%d),DATE(%d,%d,%d))' % (b.year, b.month, b.day, a.year, a.month, a.day)
            r = p.parse(f)
            if not (r['error'] is None and r['result'] == (b - a).days) and len(fails) < 5:
                fails.append({'formula': f, 'detail': 'expected %d, got %r' % ((b - a).days, r)})
            f = 'DATEDIF(DATE(%d,%d,%d),DATE(%d,%d,%d),"d")' % (a.year, a.month, a.day, b.year, b.month, b.day)
            r = p.parse(f)
            cases += 1
            if not (r['error'] is None and r['result'] == (b - a).days) and len(fails) < 5:
                fails.append({'formula': f, 'detail': 'expected %d, got %r' % ((b - a).days, r)})
    bounded(report, 'C14.early-1900-inside', 'DAYS and DATEDIF d for every pair of 21 days between 2 January and 28 February 1900 (outside the known finding\'s region)', cases, fails)


def k11(report, env):
    from pyvc import e2e
    from props.common import known_e2e
    r = e2e.new_parser().parse('SUMIFS({1,2;3,4},{1,2;3,4},">1")')
    known_e2e(report, 'C11-criteria-functions-on-2d-ranges', r != {'result': 9, 'error': None}, 'SUMIFS({1,2;3,4},{1,2;3,4},">1")',
              'SUMIFS over a two-dimensional range: expected 9, got %r' % (r,))


def k05(report, env):
    from pyvc import e2e
    from props.common import known_e2e
    got = []
    p = e2e.new_parser()
    p.set_function('F', lambda *a: got.append(a) or 0)
    r = p.parse('F(1,2;3,4)')
    bad = r['error'] is None and got != [(1, 2, 3, 4)]
    known_e2e(report, 'C05-mixed-separators-in-a-call', bad, 'F(1,2;3,4)', 'a call with mixed separators is accepted but passes %r, not one argument per slot' % (got,))


def k09(report, env):
    from pyvc import e2e
    from props.common import known_e2e
    p = e2e.new_parser()
    p.set_variable('a', 5)
    r = p.parse('a.b')
    known_e2e(report, 'C09-dotted-names', r != {'result': None, 'error': '#NAME?'} and r['error'] is None, 'a.b', 'with only a set, a.b evaluates to %r instead of #NAME?' % (r,))


def k15(report, env):
    from pyvc import e2e
    from props.common import known_e2e
    p = e2e.new_parser()
    once = p.parse('PROPER("a\u0130b")')
    p.set_variable('t', once['result'])
    twice = p.parse('PROPER(t)')
    known_e2e(report, 'C15-proper-dotted-capital-i', once['result'] != twice['result'], 'PROPER(PROPER("a\u0130b"))', 'PROPER is not idempotent: %r then %r' % (once, twice))


TABLES = {'C02': [c02], 'C03': [c03], 'C04': [c04, c04_text_leaves], 'C05': [k05], 'C06': [c06], 'C08': [c08], 'C09': [k09], 'C11': [c11, k11], 'C12': [c12], 'C14': [k14], 'C15': [c15, c15_sweep, k15], 'C16': [c16], 'C17': [c17], 'C18': [c18], 'C20': [c20]}


def run(report, env):
    for t in TABLES.get(report.prop, []):
        t(report, env)
