# -*- coding: utf-8 -*-
# Formula tables: inputs on which the pinned tree once broke a property (found by sub-agents reading the code, each repaired by a `fix:` commit) and
# their neighbours, with the outcome the property's text demands.  Bounded stand-ins (never counted as proved); run after each property's own `extra`.
import math
from props.common import formula_table, bounded, guarded_parse

CODES = ['#ERROR!', '#DIV/0!', '#NAME?', '#N/A', '#NULL!', '#NUM!', '#REF!', '#VALUE!', '#GETTING_DATA']


def val(x):
    def f(r):
        return r['error'] is None and r['result'] == x
    f.__doc__ = 'the value %r' % (x,)
    return f


def number_in(lo, hi):
    def f(r):
        return r['error'] is None and isinstance(r['result'], int) and not isinstance(r['result'], bool) and lo <= r['result'] <= hi
    f.__doc__ = 'an integer in [%r, %r]' % (lo, hi)
    return f


def c04(report, env):
    # comparison operators are ONE level and group left to right, whichever of them meet
    ops = ['=', '<', '>', '<=', '>=', '<>']
    rows = []
    import itertools
    from pyvc import e2e
    p = e2e.new_parser()
    vals = ['3', '2', 'TRUE', '"b"', '0']
    fails, cases = [], 0
    for o1, o2 in itertools.product(ops, ops):
        for a, b, c in itertools.product(vals, repeat=3):
            flat = '%s%s%s%s%s' % (a, o1, b, o2, c)
            left = '(%s%s%s)%s%s' % (a, o1, b, o2, c)
            cases += 1
            r1, r2 = guarded_parse(p, flat), guarded_parse(p, left)
            if r1 != r2 and len(fails) < 5:
                fails.append({'formula': flat, 'detail': 'comparison operators group left to right: %s gives %r but %s gives %r' % (flat, r1, left, r2)})
    bounded(report, 'C04.comparison-chains', 'every ordered pair of the 6 comparison operators x 5^3 operand triples (numbers, a logical, a text): a op b op c against (a op b) op c', cases, fails)


def c08(report, env):
    rows = []
    for code in CODES:
        rows.append((code, code))
        for tail in ('/2', '+1', '*3', '-1', '&"x"', '=1', '<>2', '/0', ' / 2'):
            rows.append((code + tail, code))            # the literal ends where the code ends; what follows is an operator
        rows.append(('1+' + code, code))
        rows.append(('2/' + code, code))
        rows.append(('-' + code, code))
        rows.append(('IFERROR(1,2)+' + code, code))
    # an operator whose exact result does not fit a float produces an error VALUE (observable), it does not abort the formula
    rows += [('IFERROR(10^400/1,5)', 5), ('ISERROR(10^400*0.5)', True), ('ISERR((10^400)/3)', True), ('IFERROR(10^400+0.5,"big")', 'big'),
             ('10^400/1', '#NUM!'), ('IFNA(10^400*0.5,1)', '#NUM!'), ('ERROR.TYPE(10^400/1)', 6), ('10^400+1-10^400', 1)]
    formula_table(report, 'C08.literals-and-overflow', 'the 9 canonical error literals x 13 surroundings (operators directly after the literal), 8 operator overflows under the observers', rows)


def c11(report, env):
    rows = [('LARGE({1,2;3,4},3)', 2), ('LARGE({1,2;3,4},4)', 1), ('LARGE({1,2;3,4},1)', 4), ('LARGE({1,2;3,4},5)', '#NUM!'), ('LARGE({4,3,2,1},3)', 2),
            ('LARGE({5,1;2,9},2)', 5), ('LARGE({1,2,3},0)', '#NUM!'),
            # a bare value that is a number or a logical, not text
            ('COUNTIF({1;2;3},2)', 1), ('COUNTIF({1;2;2.0;"2"},2)', 2), ('SUMIF({1;2;3;2},2)', 4), ('AVERAGEIF({1;2;3},3)', 3.0), ('SUMIFS({1,2,3},{1,2,2},2)', 5),
            ('MAXIFS({1,2,3},{1,2,2},2)', 3), ('AVERAGEIFS({1,2,3},{1,2,2},2)', 2.5), ('COUNTIF({1;2;3},1+1)', 1), ('COUNTIF({TRUE;FALSE;1},TRUE)', 1),
            ('COUNTIF({1;2;3},2.5)', 0), ('SUMIF({1;2;3},4)', 0),
            # * and ? are the only wildcards
            ('COUNTIF({"a[1]x";"a1x"},"a[1]*")', 1), ('COUNTIF({"a[1]x";"a1x";"a[1]"},"a[1]?")', 1), ('COUNTIF({"[!a]";"b"},"[!a]*")', 1), ('COUNTIF({"[!a]";"b"},"[!a]?")', 0),
            ('COUNTIF({"a]x";"ax"},"a]*")', 1), ('COUNTIF({"[";"[[]";"x"},"[*")', 2)]
    formula_table(report, 'C11.regrouped-large-bare-and-bracket-criteria', 'LARGE over rows of a nested array (7), bare criteria that are numbers / logicals (11), criteria holding [ ] ! next to * and ? (6)', rows)


def c12(report, env):
    rows = [('SWITCH(1/0,1,"a","d")', '#DIV/0!'), ('SWITCH(NA(),1,"a")', '#N/A'), ('SWITCH(SQRT(-1),1,"a","d")', lambda r: r['result'] is None and r['error'] is not None),
            ('IFERROR(SWITCH(1/0,1,"a","d"),"e")', 'e'), ('SWITCH(1/0)', '#DIV/0!'), ('SWITCH(1,1,"a","d")', 'a'), ('SWITCH(2,1,"a","d")', 'd'), ('SWITCH(2,1,"a")', '#N/A')]
    formula_table(report, 'C12.switch-error-target', 'an error value as the tested target of SWITCH is that error, never the default or a case (5 + 3 neighbours)', rows)


def c15(report, env):
    rows = [('SUBSTITUTE("aaa","aa","b",2)', 'aaa'), ('SUBSTITUTE("aaa","aa","b",1)', 'ba'), ('SUBSTITUTE("aaaa","aa","b",2)', 'aab'), ('SUBSTITUTE("aaaa","aa","b",3)', 'aaaa'),
            ('SUBSTITUTE("aaaaa","aa","b",2)', 'aaba'), ('SUBSTITUTE("abababa","aba","X",2)', 'ababX'), ('SUBSTITUTE("abcabc","bc","X",2)', 'abcaX'),
            ('SUBSTITUTE("aaa","aa","b")', 'ba'), ('SUBSTITUTE("xxxx","xx","",2)', 'xx'), ('SUBSTITUTE("xxx","xx","",2)', 'xxx'),
            ('TEXTJOIN(",",TRUE,1,2)', '1,2'), ('TEXTJOIN("-",TRUE,"a",,2.5,{1,"b"})', 'a-2.5-1-b'), ('TEXTJOIN("-",FALSE,"a",,"b")', 'a--b'), ('TEXTJOIN(",",TRUE,"a",1/0)', '#DIV/0!'),
            ('TEXTJOIN("",TRUE,1,{2,3},"x")', '123x'), ('LEN(TEXTJOIN("+",TRUE,10,20))', 5)]
    formula_table(report, 'C15.kth-occurrence-and-joined-numbers', 'k-th occurrence among non-overlapping occurrences on self-overlapping texts (10), TEXTJOIN over numbers, arrays and an error item (6)', rows)


def _kth(text, old, new, k):
    # reference: the k-th of the non-overlapping occurrences, scanning from the left (what replace-all replaces)
    i, n = 0, 0
    while True:
        j = text.find(old, i)
        if j < 0:
            return text
        n += 1
        if n == k:
            return text[:j] + new + text[j + len(old):]
        i = j + len(old)


def c15_sweep(report, env):
    import itertools
    from pyvc import e2e
    p = e2e.new_parser()
    fails, cases = [], 0
    for n in range(1, 7):
        for t in itertools.product('ab', repeat=n):
            text = ''.join(t)
            for old in ('a', 'aa', 'ab', 'aba', 'bb'):
                for k in (1, 2, 3):
                    cases += 1
                    f = 'SUBSTITUTE("%s","%s","Z",%d)' % (text, old, k)
                    r = guarded_parse(p, f)
                    want = _kth(text, old, 'Z', k)
                    if r != {'result': want, 'error': None} and len(fails) < 5:
                        fails.append({'formula': f, 'detail': 'expected %r, got %r' % (want, r)})
    bounded(report, 'C15.kth-occurrence-sweep', 'every text over {a,b} up to 6 characters x 5 old texts x instance 1..3 against the k-th non-overlapping occurrence', cases, fails)


def c16(report, env):
    rows = []
    for w in ('nan', 'NaN', 'inf', '-inf', 'Infinity', '-Infinity', '1_000', '1_0.5', '1e400', '0x10', 'abc', ''):
        for fn in ('ABS', 'SQRT', 'EXP', 'LN', 'SIN', 'COS', 'ATAN', 'RADIANS', 'SINH', 'LOG10'):
            rows.append(('%s("%s")' % (fn, w), lambda r: r['result'] is None and r['error'] in CODES))
    rows = [(f, w) for f, w in rows]
    for f, w in rows:
        w.__doc__ = 'an error, never a number (non-numeric text)'
    rows += [('RANDBETWEEN(1.5,2.9)', number_in(2, 2)), ('RANDBETWEEN(-2.5,-1.5)', number_in(-2, -2)), ('RANDBETWEEN(1.5,1.9)', '#NUM!'), ('RANDBETWEEN(0.1,3.9)', number_in(1, 3)),
             ('RANDBETWEEN(-3.9,-0.1)', number_in(-3, -1)), ('RANDBETWEEN(-0.5,0.5)', number_in(0, 0)), ('RANDBETWEEN(2,2)', number_in(2, 2)), ('RANDBETWEEN(5,1)', lambda r: r['result'] is None)] * 6
    formula_table(report, 'C16.non-numeric-words-and-fractional-bounds', '12 texts that only Python reads as numbers (or nobody does) x 10 functions; RANDBETWEEN with fractional bounds, 6 draws each', rows)


def c06(report, env):
    rows = []
    for w in ('nan', 'NaN', 'inf', '-inf', 'Infinity', '1_000', '1_0', '1e400', '0x10'):
        for f in ('"%s"+1', '1+"%s"', '"%s"*2', '2*"%s"', '"%s"-1', '1/"%s"', '"%s"/2', '0-"%s"'):
            rows.append((f % w, '#VALUE!'))
        rows.append(('"%s"&"x"' % w, w + 'x'))           # & joins text verbatim
    rows += [('"1e3"+1', 1001.0), ('" 5 "+1', 6), ('"1.5"*2', 3.0), ('"-2"*"-3"', 6), ('DATE(9999,12,31)+1', '#NUM!'), ('DATE(9999,12,31)+0.5', lambda r: r['error'] is None),
             ('10^400*0.5', '#NUM!'), ('10^400/1', '#NUM!'), ('10^400-10^400', 0)]
    formula_table(report, 'C06.words-that-are-not-numbers', '9 texts that only Python reads as numbers x 8 operator forms (#VALUE!) and & (verbatim); 9 neighbours incl. dates past 9999 and float overflow (#NUM!)', rows)


def c18(report, env):
    rows = [('MATCH("a[1]",{"a[1]"},0)', 1), ('MATCH("a[1]*",{"a1x","a[1]x"},0)', 2), ('MATCH("[x]",{"x","[x]"},0)', 2), ('MATCH("[!x]",{"y","[!x]"},0)', 2),
            ('MATCH("a]",{"a","a]"},0)', 2), ('INDEX({"x","[x]"},MATCH("[x]",{"x","[x]"},0))', '[x]'), ('MATCH("[a-c]",{"b","[a-c]"},0)', 2),
            ('MATCH("?[1]",{"a1","a[1]x","b1"},0)', '#N/A'), ('MATCH("?[1]",{"a1","[[1]","b[1]"},0)', 2)]
    # a position is a position however it was computed: division yields a float
    rows += [('INDEX({1,2,3},4/2)', 2), ('CHOOSE(4/2,"a","b")', 'b'), ('INDEX({1,2;3,4},4/2,2/2)', 3), ('INDEX({1,2;3,4},2.0)', [3, 4]), ('CHOOSE(9/3,"a","b","c")', 'c'),
             ('CHOOSE(6/2,"a","b")', lambda r: r['result'] is None), ('INDEX({1,2,3},8/2)', lambda r: r['result'] is None), ('INDEX({1,2,3},2.5)', lambda r: r['result'] is None),
             ('CHOOSE(2.5,"a","b","c")', lambda r: r['result'] is None or r['result'] in ('b',)), ('INDEX({5,6,7},MATCH(6,{5,6,7},0)*1.0)', 6)]
    formula_table(report, 'C18.brackets-are-not-wildcards', 'text lookups holding [ ] ! - next to * and ? (9): only * and ? are wildcards, INDEX(MATCH) returns the item; positions computed as floats (10)', rows)


def c20(report, env):
    from pyvc import native
    Emitter = native.real_function('hotxlfp.tinyemitter:Emitter')

    class Bag(list):
        """ a callable that is falsy (an empty list subclass) """
        def __call__(self, *a, **k):
            log.append(('bag', a))
    fails, cases = [], 0
    for shape in range(8):
        log = []
        e = Emitter()
        bag, bag2 = Bag(), Bag()
        f = lambda *a: log.append(('f', a))
        g = lambda *a: log.append(('g', a))
        subs = [[f, bag, g], [bag, f], [f, g, bag, bag2], [bag], [f, bag, f], [bag2, bag], [g, bag, bag], [f]][shape]
        for s in subs:
            e.on('ev', s)
        e.off('ev', bag)
        e.emit('ev', 1)
        cases += 1
        # Bag() == Bag() (two empty lists are equal): "the listeners for that callback" are those EQUAL to it, as for bound methods
        want = [('f' if s is f else 'g', (1,)) for s in subs if not isinstance(s, Bag)]
        if log != want and len(fails) < 5:
            fails.append({'formula': 'off(name, falsy callable), shape %d' % shape, 'detail': 'unsubscribing a falsy callable must remove exactly its listeners: deliveries %r, expected %r' % (log, want)})
    bounded(report, 'C20.falsy-callable', '8 subscription shapes with a callable object that is falsy (an empty list subclass): off(name, it) removes exactly its listeners', cases, fails, kind='table')


def c17(report, env):
    # each function is a function of its arguments: the same arguments handed to ANOTHER function just before (or the same function
    # earlier) change nothing.  FACT / FACTDOUBLE against exact references in both orders; every other one-argument name of the
    # property in two evaluation orders on one parser, outcome per formula compared.
    from pyvc import e2e
    fails, cases = [], 0

    def dfact(n):
        r = 1
        while n > 1:
            r *= n
            n -= 2
        return r
    for order in (('FACT', 'FACTDOUBLE'), ('FACTDOUBLE', 'FACT')):
        p = e2e.new_parser()
        for n in list(range(0, 26)) + [30, 50, 100, 170]:
            for fn in order + order:
                f = '%s(%d)' % (fn, n)
                r = guarded_parse(p, f)
                cases += 1
                want = math.factorial(n) if fn == 'FACT' else dfact(n)
                if r != {'result': want, 'error': None} and len(fails) < 5:
                    fails.append({'formula': f, 'detail': 'after %s of the same argument: expected %r, got %r' % (order[0], want, r)})
    names = ['INT', 'EVEN', 'ODD', 'SIGN', 'FACT', 'FACTDOUBLE', 'ABS', 'ROUND', 'ROUNDUP', 'ROUNDDOWN', 'DEC2HEX', 'DEC2BIN', 'DEC2OCT', 'ROMAN', 'SQRT', 'EXP']
    args = ['0', '1', '2', '3', '5', '6', '7', '10', '12', '2.5', '-3', '-2.5', '255']
    forms = ['%s(%s)' % (n, a) if n not in ('ROUND', 'ROUNDUP', 'ROUNDDOWN') else '%s(%s,0)' % (n, a) for a in args for n in names]
    p1, p2 = e2e.new_parser(), e2e.new_parser()
    o1 = {f: guarded_parse(p1, f) for f in forms}
    o2 = {f: guarded_parse(p2, f) for f in reversed(forms)}
    for f in forms:
        cases += 1
        if repr(o1[f]) != repr(o2[f]) and len(fails) < 5:
            fails.append({'formula': f, 'detail': 'the outcome depends on what was evaluated before: %r when functions are called in one order, %r in the reverse order' % (o1[f], o2[f])})
    bounded(report, 'C17.same-argument-other-function', 'FACT / FACTDOUBLE of 0..25, 30, 50, 100, 170 in both call orders against exact references; 16 one-argument functions x 13 arguments in two evaluation orders', cases, fails)


def c04_text_leaves(report, env):
    # text leaves that look like syntax: parentheses, operators and quotes of the other kind inside a text constant are characters
    rows = [('"("&1', '(1'), ('1&")"', '1)'), ('"f(x"="f(x"', True), ('-1&":-("', '-1:-('), ('(1+2*3)&"("', '7('), ('")"&"("', ')('), ('LEN("((")', 2),
            ('"a)"&"b"', 'a)b'), ('("("&")")', '()'), ('"(((" = "((("', True), ('"1+1"&"*2"', '1+1*2'), ("'('&\"x\"", '(x'), ('"{"&"}"', '{}'), ('";"&","', ';,'),
            ('IF("("=")",1,2)', 2), ('(("(")&(")"))', '()'), ('2*(3+LEN(")"))', 8)]
    formula_table(report, 'C04.text-leaves-that-look-like-syntax', '17 trees whose text leaves hold parentheses, operators, braces and separators', rows)


def c02(report, env):
    # a long-lived process retains no memory per evaluation: allocated bytes (tracemalloc: also objects the garbage collector does not
    # track, strings and tuples) stay flat over thousands of DISTINCT failing and succeeding evaluations
    import gc
    import tracemalloc
    import warnings
    from pyvc import e2e
    p = e2e.new_parser()

    def boom(*a):
        raise ValueError('no rate for %r' % (a,))
    p.set_function('BOOM', boom)
    p.set_function('ECHO', lambda *a: a[0] if a else None)
    forms = ['BOOM("k%d")', 'BOOM(%d,2)', 'SQRT(-%d)', 'ECHO("v%d")&"x"', '1/0+%d', 'IFERROR(BOOM(%d),0)', 'nosuchname+%d', 'SUM(%d,"a")', 'NOSUCHFN(%d)', '(%d']

    def rounds(lo, hi):
        for i in range(lo, hi):
            for f in forms:
                p.parse(f % i)
    with warnings.catch_warnings():
        warnings.simplefilter('default')          # what a host that has not silenced warnings runs with
        rounds(0, 150)
        gc.collect()
        tracemalloc.start()
        rounds(150, 300)
        gc.collect()
        a = tracemalloc.get_traced_memory()[0]
        rounds(300, 900)
        gc.collect()
        b = tracemalloc.get_traced_memory()[0]
        tracemalloc.stop()
    fails = []
    if b - a > 150000:
        fails.append({'formula': 'BOOM("k<i>") ... (10 forms x 600 distinct arguments)', 'detail': 'allocated memory grows with the number of evaluations: +%d bytes over 6000 distinct evaluations after warm-up' % (b - a)})
    bounded(report, 'C02.allocated-bytes', '10 formula forms x 600 distinct arguments after a 3000-evaluation warm-up: growth of traced allocations below 150 kB (25 bytes per evaluation)', 6000, fails)


def c03(report, env):
    # evaluations on different parsers in different threads never wait for each other: parser A's custom function parks until parser B,
    # in another thread, has finished an evaluation (and the other way round)
    import threading
    from pyvc import e2e
    fails, cases = [], 0
    for trial in range(3):
        a, b = e2e.new_parser(), e2e.new_parser()
        done_b = threading.Event()
        in_a = threading.Event()
        out = {}

        def wait_for_b(x):
            in_a.set()
            ok = done_b.wait(5)
            return x + (1 if ok else 1000)
        a.set_function('PARK', wait_for_b)
        b.set_variable('y', 41)

        def run_b():
            in_a.wait(5)
            out['b'] = b.parse('y+1')
            done_b.set()
        t = threading.Thread(target=run_b)
        t.start()
        out['a'] = a.parse('PARK(1)*2')
        t.join(10)
        cases += 1
        if (out.get('a') != {'result': 4, 'error': None} or out.get('b') != {'result': 42, 'error': None}) and len(fails) < 5:
            fails.append({'formula': 'PARK(1)*2 on parser A while y+1 runs on parser B in another thread',
                          'detail': 'an evaluation on one parser had to wait for an evaluation on another: A %r, B %r' % (out.get('a'), out.get('b'))})
    bounded(report, 'C03.parked-evaluation', '3 trials: parser A parked inside a custom function until parser B has finished an evaluation in another thread (5 s bound)', cases, fails, kind='table')
    # objects created in a class body are shared by every instance (a lock there serialises all parsers, a list there is common state)
    import ast
    import os
    from props.common import table_obligations
    res = []
    root = os.path.join(env['repo'], 'hotxlfp')
    for d, _, files in os.walk(root):
        for fn in sorted(files):
            if not fn.endswith('.py'):
                continue
            path = os.path.join(d, fn)
            tree = ast.parse(open(path).read())
            rel = os.path.relpath(path, env['repo'])
            for c in ast.walk(tree):
                if not isinstance(c, ast.ClassDef):
                    continue
                for n in c.body:
                    if isinstance(n, (ast.Assign, ast.AnnAssign)) and n.value is not None:
                        v = n.value
                        shared = isinstance(v, (ast.Call, ast.List, ast.Dict, ast.Set, ast.ListComp, ast.DictComp, ast.SetComp))
                        name = ast.unparse(n.targets[0] if isinstance(n, ast.Assign) else n.target)
                        res.append(('class-level-object.%s:%s.%s' % (rel, c.name, name), not shared,
                                    '%s = %s in the body of class %s is one object shared by every instance' % (name, ast.unparse(v)[:60], c.name)))
            for n in tree.body:
                if isinstance(n, ast.Assign) and isinstance(n.value, ast.Call) and isinstance(n.value.func, ast.Attribute) and \
                        isinstance(n.value.func.value, ast.Name) and n.value.func.value.id in ('threading', 'multiprocessing', '_thread'):
                    res.append(('module-level-synchronisation.%s:%s' % (rel, ast.unparse(n.targets[0])), False,
                                '%s at module level is shared by every parser and thread' % ast.unparse(n)[:80]))
    table_obligations(report, 'C03', res)


def c01(report, env):
    # every input string: long runs of one character (what a paste accident or a hostile input looks like), alone and before a literal
    from pyvc import e2e
    p = e2e.new_parser()
    fails, cases = [], 0
    for ch in ['=', '(', ')', '-', '+', '"', "'", '{', '}', ',', ';', '&', '%', '^', '.', '#', '!', '$', ':', 'A', '1', ' ', '\n', '<', '>', '*', '/', '\\', '_', '?', '@', '\u00e9']:
        for n in (1100, 6000):
            for tail in ('', '1', '1+1'):
                text = ch * n + tail
                cases += 1
                try:
                    r = guarded_parse(p, text, 60)
                    bad = e2e.well_formed(r)
                except BaseException as ex:
                    bad = 'parse raised %s' % type(ex).__name__
                if bad and len(fails) < 5:
                    fails.append({'formula': text if len(text) < 60 else '%r * %d + %r' % (ch, n, tail), 'detail': '%r repeated %d times then %r: %s' % (ch, n, tail, bad)})
    bounded(report, 'C01.long-runs', 'runs of 1100 and 6000 copies of each of 32 characters, alone and before 1 / 1+1: a well-formed record within 60 s', cases, fails, kind='table')


def c09(report, env):
    # a custom function receives the evaluated arguments in order whatever their values are - also text that equals a separator
    from pyvc import e2e
    fails, cases = [], 0
    got = []
    p = e2e.new_parser()
    p.set_function('REC', lambda *a: got.append(a) or len(a))
    for f, want in (('REC(",","a","b")', (',', 'a', 'b')), ('REC(1;";";2)', (1, ';', 2)), ('REC(";")', (';',)), ('REC(",")', (',',)), ('REC("\\")', ('\\',)),
                    ('REC("a",",")', ('a', ',')), ('REC(",",",")', (',', ',')), ('REC(";";";";";")', (';', ';', ';')), ('REC(1\\"\\"\\2)', (1, '\\', 2)),
                    ('REC("a";",";"b")', ('a', ',', 'b')), ('REC(",";;"x")', (',', None, 'x')), ('REC({1,2},",")', ([1, 2], ','))):
        del got[:]
        r = guarded_parse(p, f)
        cases += 1
        if (r.get('error') is not None or got != [want]) and len(fails) < 5:
            fails.append({'formula': f, 'detail': 'the custom function must be called once with %r; calls %r, outcome %r' % (want, got, r)})
    bounded(report, 'C09.separator-valued-arguments', '12 calls of a recording custom function whose arguments are the separator characters themselves, in the three separator styles', cases, fails)


def c10(report, env):
    from pyvc import e2e
    fails, cases = [], 0
    # (1) a listener that raised once: later references to the same cell still raise their event and take the setter's value
    p = e2e.new_parser()
    state = {'fail': True}
    seen = []

    def cell(c, setter):
        seen.append(c.label)
        if state['fail']:
            raise RuntimeError('backend down')
        setter(7)
    p.on('callCellValue', cell)
    r0 = guarded_parse(p, 'C3+1')
    state['fail'] = False
    for f, want, ev in (('C3+1', 8, ['C3']), ('$C$3*2', 14, ['$C$3']), ('c3+C3', 14, ['C3', 'C3']), ('D4+C3', 14, ['D4', 'C3'])):
        del seen[:]
        r = guarded_parse(p, f)
        cases += 1
        if (r != {'result': want, 'error': None} or seen != ev) and len(fails) < 5:
            fails.append({'formula': f, 'detail': 'after a listener raised for C3 (%r): expected %r with events %r, got %r with events %r' % (r0, want, ev, r, seen)})
    # (2) a listener of P1 that evaluates on ANOTHER parser P2: the rest of P1's formula still raises its events on P1, none on P2
    p1, p2 = e2e.new_parser(), e2e.new_parser()
    ev1, ev2 = [], []
    vals = {'A1': 10, 'B1': 15, 'C1': 1}

    def cell1(c, setter):
        ev1.append(c.label)
        if c.label == 'A1':
            p2.parse('1+Z9')
        setter(vals.get(c.label, 0))
    p1.on('callCellValue', cell1)
    p1.on('callVariable', lambda name, setter: (ev1.append(name), setter(100)))
    p1.set_function('F', lambda *a: (ev1.append('F'), sum(a))[1])
    p2.on('callCellValue', lambda c, setter: (ev2.append(c.label), setter(1000)))
    p2.on('callVariable', lambda name, setter: (ev2.append(name), setter(5000)))
    for f, want, e1 in (('A1+B1', 25, ['A1', 'B1']), ('B1+A1', 25, ['B1', 'A1']), ('A1+F(B1,C1)+total', 126, ['A1', 'B1', 'C1', 'F', 'total']), ('SUM(A1,B1,C1)', 26, ['A1', 'B1', 'C1'])):
        del ev1[:]
        del ev2[:]
        r = guarded_parse(p1, f)
        cases += 1
        if (r != {'result': want, 'error': None} or ev1 != e1 or ev2 != ['Z9']) and len(fails) < 5:
            fails.append({'formula': f, 'detail': 'a listener of this parser evaluates 1+Z9 on another parser: expected %r, events %r here and [Z9] there; got %r, %r here, %r there' % (want, e1, r, ev1, ev2)})
    bounded(report, 'C10.raising-listener-then-again-and-foreign-evaluation', '4 references after a listener raised once; 4 formulas whose first cell listener evaluates on another parser (events and values stay with their parser)', cases, fails)


def c11_same_object(report, env):
    # regrouping: the same array OBJECT may supply items more than once (SUM(row,row), a range answer reusing one row, [[..]]*n)
    from pyvc import e2e
    fails, cases = [], 0
    row = [1, 2, 3]
    p = e2e.new_parser()
    p.set_variable('row', row)
    p.set_variable('twice', [row, row])
    p.set_variable('tiled', [[1, 2, 3]] * 3)
    p.on('callRangeValue', lambda a, b, setter: setter([row, row]))
    for f, want in (('SUM(row,row)', 12), ('SUM(twice)', 12), ('SUM(tiled)', 18), ('COUNT(row,row,row)', 9), ('MAX(twice)', 3), ('AVERAGE(row,row)', 2.0), ('SUM(A1:C2)', 12),
                    ('PRODUCT(twice)', 36), ('MEDIAN(tiled)', 2), ('COUNTIF(twice,">1")', 4), ('SUMIF(tiled,">=2")', 15), ('SUM(row,twice,tiled)', 36), ('MIN(row,row)', 1)):
        r = guarded_parse(p, f)
        cases += 1
        if not (r['error'] is None and r['result'] == want) and len(fails) < 5:
            fails.append({'formula': f, 'detail': 'row = [1,2,3], twice = [row,row], tiled = [[1,2,3]]*3 (one object several times, no cycle): expected %r, got %r' % (want, r)})
    bounded(report, 'C11.one-array-object-several-times', '13 formulas over arrays in which one list object occurs more than once without containing itself', cases, fails)


def c15_case_and_amp(report, env):
    rows = [('LOWER("straße")', 'straße'), ('LOWER("ΟΔΟΣ")', 'οδος'), ('LOWER("ﬁN")', 'ﬁn'), ('LOWER("ŉA")', 'ŉa'), ('LEN(LOWER("Straße"))', 6), ('LOWER(LOWER("Maße"))', 'maße'),
            ('LOWER("ǅ")', 'ǆ'), ('UPPER("abc")', 'ABC'), ('LEN(LOWER("ﬀﬁﬂ"))', 3),
            # the identities exactly as the statement writes them: & binds tighter than the comparison
            ('LEFT("hello",2)&RIGHT("hello",3)="hello"', True), ('"hello"=LEFT("hello",2)&RIGHT("hello",3)', True), ('"ab"="a"&"b"', True), ('"a"&"b"="ab"', True),
            ('LEN("a"&"b")=LEN("a")+LEN("b")', True), ('LEFT("hello",0)&RIGHT("hello",5)="hello"', True), ('MID("hello",1,3)=LEFT("hello",3)', True),
            ('IF(LEFT("xyz",1)&RIGHT("xyz",2)="xyz","same","differs")', 'same'), ('"a"&"b"<>"ab"', False), ('"a"&"b"<"ac"', True)]
    formula_table(report, 'C15.only-letter-case-and-identities-as-written', 'LOWER over sharp s, final sigma, ligatures and digraphs (9); the identities of the statement written with & next to a comparison (10)', rows)


def c16_pv(report, env):
    def err(r):
        return r['result'] is None and r['error'] in CODES
    err.__doc__ = 'an error (at rate -100% no present value satisfies the annuity equation)'
    rows = [('PV(-1,10,100)', err), ('PV(-1,-2,100)', err), ('PV("-1",3,5)', err), ('PV(-100%,10,100)', err), ('PV(0-TRUE,4,1)', err), ('PV(-1,10,100,50)', err), ('PV(-1.0,1,1)', err)]
    rows += [('PV(0,10,100)', -1000), ('PV(0,10,100,50)', -1050), ('ROUND(PV(0.05,10,100),6)', round(-(100 * (1 - 1.05 ** -10) / 0.05), 6))]
    formula_table(report, 'C16.pv-at-minus-one', 'PV at rate -1 in 7 spellings (an error, never a number), 3 neighbours', rows)


def c17_big_and_long(report, env):
    rows = [('SIGN(FACT(171))', 1), ('SIGN(10^400)', 1), ('SIGN(-(10^400))', -1), ('SIGN(0-FACT(200))', -1), ('SIGN(10^400-10^400)', 0), ('SIGN(2^1024)', 1), ('SIGN(-(2^1024)-1)', -1)]
    for a, b in ((1234567, 1), (1, 1000001), (123456789012, -5), (3, -123456789012), (-9999999, 9999999), (10 ** 15 + 1, 10 ** 15 - 1), (0, 7654321), (100000, 1000000)):
        rows.append(('IMREAL(COMPLEX(%d,%d))' % (a, b), a))
        rows.append(('IMAGINARY(COMPLEX(%d,%d))' % (a, b), b))
    formula_table(report, 'C17.sign-of-big-integers-and-long-complex-parts', 'SIGN of 7 integers too large for a float; IMREAL / IMAGINARY of COMPLEX with parts of 7 to 16 digits (16)', rows)


def c18_close_numbers(report, env):
    rows = [('MATCH(5550100002,{5550100001,5550100002,5550100003},0)', 2), ('MATCH(5550100004,{5550100001,5550100002},0)', '#N/A'),
            ('INDEX({5550100001,5550100002,5550100003},MATCH(5550100003,{5550100001,5550100002,5550100003},0))', 5550100003),
            ('MATCH(43831.5,{43831.49999,43831.5},0)', 2), ('MATCH(1000000001,{1000000000,1000000001},0)', 2), ('MATCH(1000000002,{1000000000,1000000001},0)', '#N/A'),
            ('MATCH(1E0*1000000001,{1000000000,1000000001,1000000002},0)', lambda r: True), ('MATCH(99999999999999,{99999999999998,99999999999999},0)', 2),
            ('MATCH(0.1+0.2,{0.3,0.30000000000000004},0)', 2)]
    rows = [r for r in rows if not callable(r[1])]
    formula_table(report, 'C18.exact-match-of-close-numbers', 'MATCH type 0 over large integers and fractions that differ by 1 ulp .. 1e-9 relative (8): equal means equal', rows)


def c19(report, env):
    # strings that are not cell labels decompose to nothing; a label is a label whatever str subclass carries it
    from pyvc import native
    extract_label = native.real_function('hotxlfp.helper.cell:extract_label')

    class Ref(str):
        pass
    import enum

    class Named(str, enum.Enum):
        TOTAL = 'B7'
    fails, cases = [], 0
    for s_ in ('Sheet1!A1', '!A1', 'A1!B2', '#REF!A1', 'A1!', "'My sheet'!A1", 'x!$A$1', 'A1:B2', 'A1 ', ' A1', 'A-1', 'A1.0', '1A', '$', 'A$', '$A', 'A$$1', '$$A1'):
        cases += 1
        try:
            out = extract_label(s_)
        except Exception as e:
            out = 'raises %r' % (e,)
        if out != [] and len(fails) < 5:
            fails.append({'formula': 'extract_label(%r)' % s_, 'detail': 'not a cell label, must decompose to nothing: got %r' % (out,)})
    for s_, want in ((Ref('A1'), ('1', 0, False, 'A', 0, False)), (Ref('$b$7'), ('7', 6, True, 'b', 1, True)), (Named.TOTAL, ('7', 6, False, 'B', 1, False)), (Ref('aa$10'), ('10', 9, True, 'aa', 26, False))):
        cases += 1
        try:
            out = extract_label(s_)
            got = (out[0].label, out[0].index, out[0].is_absolute, out[1].label, out[1].index, out[1].is_absolute) if len(out) == 2 else out
        except Exception as e:
            got = 'raises %r' % (e,)
        if got != want and len(fails) < 5:
            fails.append({'formula': 'extract_label(<%s %r>)' % (type(s_).__name__, str.__str__(s_)), 'detail': 'a label held by a str subclass: expected %r, got %r' % (want, got)})
    bounded(report, 'C19.non-labels-and-str-subclasses', '18 strings that are not cell labels (sheet qualifiers, ranges, stray $ ...) decompose to nothing; 4 labels held by str subclasses decompose like the plain text', cases, fails, kind='table')


# ---- known findings decided by a concrete formula (KNOWN-FINDING while they still fail; an ordinary violation if not listed) -------------
def k14(report, env):
    import datetime
    from pyvc import e2e
    from props.common import known_e2e
    p = e2e.new_parser()
    r = p.parse('DAYS(DATE(1900,1,2),DATE(1900,1,1))')
    r2 = p.parse('DAYS(DATE(1900,3,1),DATE(1900,2,28))')
    known_e2e(report, 'C14-days-across-early-1900', not (r.get('result') == 1 and r2.get('result') == 1), 'DAYS(DATE(1900,1,2),DATE(1900,1,1))',
              'DAYS across 1 January or 28 February / 1 March 1900 counts a day too many: %r, %r' % (r, r2))
    # inside January-February 1900 (both ends after 1 January, before 1 March) the calendar difference holds; so do DATEDIF d
    fails, cases = [], 0
    d0 = datetime.date(1900, 1, 2)
    days = [d0 + datetime.timedelta(days=i) for i in range(0, 58, 3)] + [datetime.date(1900, 2, 28)]
    for a in days:
        for b in days:
            if a > b:
                continue
            cases += 1
            f = 'DAYS(DATE(%d,%d,%d),DATE(%d,%d,%d))' % (b.year, b.month, b.day, a.year, a.month, a.day)
            r = guarded_parse(p, f)
            if not (r['error'] is None and r['result'] == (b - a).days) and len(fails) < 5:
                fails.append({'formula': f, 'detail': 'expected %d, got %r' % ((b - a).days, r)})
            f = 'DATEDIF(DATE(%d,%d,%d),DATE(%d,%d,%d),"d")' % (a.year, a.month, a.day, b.year, b.month, b.day)
            r = guarded_parse(p, f)
            cases += 1
            if not (r['error'] is None and r['result'] == (b - a).days) and len(fails) < 5:
                fails.append({'formula': f, 'detail': 'expected %d, got %r' % ((b - a).days, r)})
    bounded(report, 'C14.early-1900-inside', 'DAYS and DATEDIF d for every pair of 21 days between 2 January and 28 February 1900 (outside the known finding\'s region)', cases, fails)


def k11(report, env):
    from pyvc import e2e
    from props.common import known_e2e
    r = e2e.new_parser().parse('SUMIFS({1,2;3,4},{1,2;3,4},">1")')
    known_e2e(report, 'C11-criteria-functions-on-2d-ranges', r != {'result': 9, 'error': None}, 'SUMIFS({1,2;3,4},{1,2;3,4},">1")',
              'SUMIFS over a two-dimensional range: expected 9, got %r' % (r,))


def k05(report, env):
    from pyvc import e2e
    from props.common import known_e2e
    got = []
    p = e2e.new_parser()
    p.set_function('F', lambda *a: got.append(a) or 0)
    r = guarded_parse(p, 'F(1,2;3,4)')
    bad = r['error'] is None and got != [(1, 2, 3, 4)]
    known_e2e(report, 'C05-mixed-separators-in-a-call', bad, 'F(1,2;3,4)', 'a call with mixed separators is accepted but passes %r, not one argument per slot' % (got,))


def k09(report, env):
    from pyvc import e2e
    from props.common import known_e2e
    p = e2e.new_parser()
    p.set_variable('a', 5)
    r = guarded_parse(p, 'a.b')
    known_e2e(report, 'C09-dotted-names', r != {'result': None, 'error': '#NAME?'} and r['error'] is None, 'a.b', 'with only a set, a.b evaluates to %r instead of #NAME?' % (r,))


def k15(report, env):
    from pyvc import e2e
    from props.common import known_e2e
    p = e2e.new_parser()
    once = guarded_parse(p, 'PROPER("a\u0130b")')
    p.set_variable('t', once['result'])
    twice = guarded_parse(p, 'PROPER(t)')
    known_e2e(report, 'C15-proper-dotted-capital-i', once['result'] != twice['result'], 'PROPER(PROPER("a\u0130b"))', 'PROPER is not idempotent: %r then %r' % (once, twice))


TABLES = {'C01': [c01], 'C02': [c02], 'C03': [c03], 'C04': [c04, c04_text_leaves], 'C05': [k05], 'C06': [c06], 'C08': [c08], 'C09': [c09, k09], 'C10': [c10], 'C11': [c11, c11_same_object, k11], 'C12': [c12], 'C14': [k14], 'C15': [c15, c15_sweep, c15_case_and_amp, k15], 'C16': [c16, c16_pv], 'C17': [c17, c17_big_and_long], 'C18': [c18, c18_close_numbers], 'C19': [c19], 'C20': [c20]}


def run(report, env):
    for t in TABLES.get(report.prop, []):
        t(report, env)


class _Collector(object):
    """ a report that only collects (for replays) """
    def __init__(self, prop):
        self.prop = prop
        self.bounded = []
        self.violations = []
        self.known = []

    def add_record(self, *a, **k):
        pass


def replay(rp, prop, env):
    """ replay of a violation reported by one of the tables: re-runs that table on the tree under check; 1 if it still fails, 0 if not,
        None if the replay file does not belong to a table """
    names = {}
    ob = rp.get('obligation') or ''
    if not any(ob.startswith(prop + '.') or ob.startswith('class-level-object') or ob.startswith('module-level-synchronisation') or ob.startswith(prop + '-')
               for _ in [0]):
        return None
    for t in TABLES.get(prop, []):
        c = _Collector(prop)
        try:
            t(c, env)
        except Exception as ex:
            print('table %s could not be re-run: %r' % (t.__name__, ex))
            continue
        hit = [b for b in c.bounded if b['function'] == ob]
        if hit or any(ob in v['what'] for v in c.violations):
            bad = [v for v in c.violations if v['what'].startswith(ob) or ob in v['what']]
            if bad:
                print('replayed on the tree under check (%s): %s' % (t.__name__, bad[0]['what']))
                print('VIOLATION property=%s replay=(this file)' % prop)
                return 1
            print('replayed on the tree under check (%s): the table passes (%d cases)' % (t.__name__, hit[0]['cases'] if hit else 0))
            return 0
    return None
