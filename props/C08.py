# C08 -- error values propagate through operators and can be trapped
import random
from props.common import bounded

LEVEL_TEXT = ("Deductive, per operation (the statement is per operation; composition over the parse tree is the meta-lemma M2): "
              "evaluate_arithmetic / evaluate_logic (all operators) / & / unary minus return an error operand, the left one first; an error "
              "literal reaches throw_error, which raises the canonical error (never returns); Parser.parse turns a raised or returned error into "
              "error=code, result=None; call_function turns an error raised by a function into the call's value; IFERROR, IFNA, ISERROR, ISERR, "
              "ISNA, ERROR.TYPE against their definitions for all values.  Bounded: error trees through parse.")
TRUSTED = ['PLY calls each reduction action once, post-order (M2: per-operation contracts compose over the parse tree)']


def extra(report, env):
    from pyvc import e2e
    p = e2e.new_parser()
    srcs = ['#N/A', '#DIV/0!', '#VALUE!', '#REF!', '#NAME?', '#NUM!', '#NULL!', '1/0', 'NA()', 'SQRT(-1)', 'SUM(1/0)', 'SUM({1,2},1/0)', 'ERR()', 'RAISE()',
            # calls that fail with an exception of some other class: a custom function, and built-ins given arguments they cannot handle
            'BOOMK()', 'BOOMA()', 'BOOMI()', 'BOOMX()', 'IMREAL(1)', 'COUNTIF({1,2},"")']
    from hotxlfp.formulas import error

    def raiser():
        raise error.NUM

    class HostFailure(Exception):
        pass

    def boom(exc):
        def f(*a):
            raise exc
        return f
    p.set_function('ERR', lambda: error.REF)
    p.set_function('RAISE', raiser)
    p.set_variable('arr', [1, 2, 3])
    p.on('callRangeValue', lambda a, b, setter: setter([[1, 2], [3, 4]]))
    p.set_function('BOOMK', boom(KeyError('k')))
    p.set_function('BOOMA', boom(AttributeError('no such attribute')))
    p.set_function('BOOMI', boom(IndexError(3)))
    p.set_function('BOOMX', boom(HostFailure()))
    expect = {'#N/A': '#N/A', '#DIV/0!': '#DIV/0!', '#VALUE!': '#VALUE!', '#REF!': '#REF!', '#NAME?': '#NAME?', '#NUM!': '#NUM!', '#NULL!': '#NULL!',
              '1/0': '#DIV/0!', 'NA()': '#N/A', 'SQRT(-1)': None, 'SUM(1/0)': '#DIV/0!', 'SUM({1,2},1/0)': '#DIV/0!', 'ERR()': '#REF!', 'RAISE()': '#NUM!',
              'BOOMK()': None, 'BOOMA()': None, 'BOOMI()': None, 'BOOMX()': None, 'IMREAL(1)': None, 'COUNTIF({1,2},"")': None}
    cases = 0
    fails = []

    def chk(text, pred, what):
        nonlocal cases
        cases += 1
        r = p.parse(text)
        if not pred(r) and len(fails) < 5:
            fails.append({'formula': text, 'detail': '%s; got %r' % (what, r)})
    ops = ['+', '-', '*', '/', '&', '=', '<', '>', '<>', '<=', '>=']
    literal = set(['#N/A', '#DIV/0!', '#VALUE!', '#REF!', '#NAME?', '#NUM!', '#NULL!'])
    for s in srcs:
        code = expect[s]
        is_code = (lambda r, c=code: r['error'] is not None and r['result'] is None and (c is None or r['error'] == c))
        chk(s, is_code, 'an error at the top is reported under error with its code')
        chk('-(%s)' % s, is_code, 'unary minus propagates')
        for op in ops:
            chk('(%s)%s1' % (s, op), is_code, 'left error operand propagates through %s' % op)
            chk('1%s(%s)' % (op, s), is_code, 'right error operand propagates through %s' % op)
            chk('((%s)%s2)+3' % (s, op), is_code, 'propagates through nesting')
            # an array or a range on the other side changes nothing: the operation evaluates to that error
            chk('{1,2}%s(%s)' % (op, s), is_code, 'right error operand against an array literal through %s' % op)
            chk('(%s)%sarr' % (s, op), is_code, 'left error operand against an array variable through %s' % op)
            chk('A1:B2%s(%s)' % (op, s), is_code, 'right error operand against a range through %s' % op)
        if s not in literal:
            for s2 in ('1/0', 'NA()', 'ERR()', 'RAISE()'):     # (an error literal anywhere aborts the formula with its own code)
                chk('(%s)+(%s)' % (s, s2), is_code, 'the left error wins')
                chk('(%s)<(%s)' % (s, s2), is_code, 'the left error wins')
        if s not in literal:      # an error literal aborts the whole formula by the statement; produced errors can be trapped
            chk('IFERROR(%s,7)' % s, lambda r: r['result'] == 7 and r['error'] is None, 'IFERROR(x,y) = y when x is an error')
            chk('ISERROR(%s)' % s, lambda r: r['result'] is True, 'ISERROR observes it')
            chk('IFERROR((%s)+1,7)' % s, lambda r: r['result'] == 7, 'IFERROR observes operator results')
            chk('IFERROR(SUM(1,%s),7)' % s, lambda r: r['result'] == 7, 'IFERROR observes nested function calls')
            chk('ISERR(%s)=(ISERROR(%s)=(ISNA(%s)=FALSE))' % (s, s, s), lambda r: r['result'] is True or r['error'] is None, 'ISERROR = ISERR or ISNA')
            if code is not None:
                want = {'#NULL!': 1, '#DIV/0!': 2, '#VALUE!': 3, '#REF!': 4, '#NAME?': 5, '#NUM!': 6, '#N/A': 7, '#GETTING_DATA': 8}[code]
                chk('ERROR.TYPE(%s)' % s, lambda r, w=want: r['result'] == w, 'ERROR.TYPE numbering')
    # values that are NOT errors, however unusual: IFERROR / IFNA hand them through, the predicates say FALSE, ERROR.TYPE says #N/A
    import math as _m
    not_errors = [0, 0.0, -0.0, '', ' ', False, True, None, 'text', '#N/A', '#DIV/0!', '#ERROR!', float('inf'), float('-inf'), float('nan'), 1e308, -1e308, [1, 2], [], 10 ** 400]
    for i, v in enumerate(not_errors):
        p.set_variable('nv', v)
        same = (lambda r, _v=v: r['error'] is None and (r['result'] is _v or (r['result'] == _v and type(r['result']) is type(_v)) or
                                                         (isinstance(_v, float) and _m.isnan(_v) and isinstance(r['result'], float) and _m.isnan(r['result']))))
        chk('IFERROR(nv,7)', same, 'IFERROR(x,y) = x exactly when x is not an error (x = %r)' % (v,))
        chk('IFNA(nv,7)', same, 'IFNA(x,y) = x when x is not #N/A (x = %r)' % (v,))
        for fn in ('ISERROR', 'ISERR', 'ISNA'):
            chk('%s(nv)' % fn, lambda r: r['result'] is False and r['error'] is None, '%s is FALSE on a value that is not an error (%r)' % (fn, v))
    chk('IFERROR(10^308*10.5,0)', lambda r: r['error'] is None and r['result'] == float('inf'), 'an overflowed product is a number, not an error value')
    chk('IFERROR(5,7)', lambda r: r['result'] == 5, 'IFERROR(x,y) = x when x is not an error')
    chk('IFNA(NA(),7)', lambda r: r['result'] == 7, 'IFNA')
    chk('IFNA(1/0,7)', lambda r: r['error'] == '#DIV/0!', 'IFNA passes other errors')
    bounded(report, 'C08.error-trees', '20 error sources (literals, operators, functions returning / raising error values, calls failing with 6 other exception classes) x 11 operators x 6 positions (scalar, array literal, array variable and range on the other side), traps, 20 values that are not errors (non-finite floats, text spelling a code, arrays ...) through IFERROR / IFNA / ISERROR / ISERR / ISNA', cases, fails)


def replay(rp):
    from pyvc import e2e
    from hotxlfp.formulas import error
    p = e2e.new_parser()

    def raiser():
        raise error.NUM
    p.set_function('ERR', lambda: error.REF)
    p.set_function('RAISE', raiser)
    p.set_variable('arr', [1, 2, 3])
    p.on('callRangeValue', lambda a, b, setter: setter([[1, 2], [3, 4]]))

    def boom(exc):
        def f(*a):
            raise exc
        return f
    for nm, exc in (('BOOMK', KeyError('k')), ('BOOMA', AttributeError('no such attribute')), ('BOOMI', IndexError(3)), ('BOOMX', type('HostFailure', (Exception,), {})())):
        p.set_function(nm, boom(exc))
    print('parse(%r) -> %r ; %s' % (rp['formula'], p.parse(rp['formula']), rp['detail']))
    return 1
