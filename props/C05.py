# C05 -- lexical conventions: literals, whitespace, separators, case, empty arguments
import random
from props.common import table_obligations, bounded

LEVEL_TEXT = ("Regex/table obligations on the real token rules (patterns read from the docstrings, order from the source lines): rule order, "
              "WHITESPACE first and discarded, no other rule accepts whitespace and only FUNCTION has a look-ahead (=> whitespace at a token "
              "boundary cannot change the token sequence, DESIGN App. A), NUMBER = digits, quoted literals are one STRING, cell shapes; LALR "
              "table: the three `seq : expression` reduce/reduce conflicts resolve by the separator.  Deductive: number/string literal actions, "
              "the sequence rules alternative by alternative (one slot per separator, None for an omitted slot, order preserved, two rows for ';' "
              "between rows), pass-through of the slot list to the call, case-insensitive labels.  Bounded: whitespace/separator/blank-pattern sweeps; every "
              "upper/lower pattern of 10 cell / range references gives the handler the same view (labels, indices, $ flags of both corners).")
TRUSTED = ['PLY lex: master regex = rules in source order, first matching alternative wins (assumed contract)',
           'int(text) / float(text) read decimal literals (py_int / py_float uninterpreted)']
CONTRACTS = ['p_expression_number', 'p_expression_string', 'to_number', 'p_expseq_comma', 'p_expseq_semicolon', 'p_expseq_backslash', 'p_array',
             'p_expression_array', 'p_expression_wargs', 'p_expression_function', 'Parser_call_cell_value', 'Parser_call_range_value']


def extra(report, env):
    from pyvc import lexer_facts, grammar, e2e
    obs, langs, order = lexer_facts.obligations(env['repo'])
    table_obligations(report, 'C05', obs)
    table_obligations(report, 'C05', grammar.run([grammar.expseq_resolution]))
    rng = random.Random(env['seed'])
    p = e2e.new_parser()
    cases = 0
    fails = []

    def same(a, b):
        return a == b or (isinstance(a.get('result'), float) and isinstance(b.get('result'), float) and abs(a['result'] - b['result']) < 1e-12)
    # whitespace at token boundaries; tokens given explicitly so that boundaries are known
    token_forms = [['1', '+', '2', '*', '3'], ['SUM(', '1', ',', '2', ')'], ['"a b"', '&', '"c"'], ['A1', '+', '$B$2'], ['{', '1', ',', '2', ';', '3', ',', '4', '}'],
                   ['-', '(', '2', '+', '3', ')', '/', '4'], ['IF(', '1', '<', '2', ',', '"y"', ',', '"n"', ')'], ['x', '>=', '1.5'],
                   ['SUM(', 'A1', ':', 'B2', ')'], ['SUM(', '$A$1', ':', 'B$2', ')', '+', 'a1', ':', 'a2'], ['35', '%'], ['2', '^', '3'], ['.', '5', '+', '1'], ["'q'", '&', '"r"'], ['MID(', '"hello"', ';', '2', ';', '3', ')']]
    wss = [' ', '\t', '\n', '  ', ' \t\n']
    for toks in token_forms:
        p.set_variable('x', 2)
        base = p.parse(''.join(toks))
        for _ in range(40 if env['tier'] == 'quick' else 300):
            parts = []
            for i, t in enumerate(toks):
                parts.append(t)
                if i < len(toks) - 1 and rng.random() < 0.6:
                    # not inside NUMBER . NUMBER / NUMBER % / NUMBER ^ NUMBER literals? the statement allows any token boundary
                    parts.append(rng.choice(wss))
            text = rng.choice(['', ' ', '\n']) + ''.join(parts) + rng.choice(['', ' ', '\t'])
            cases += 1
            r = p.parse(text)
            if not same(r, base) and len(fails) < 5:
                fails.append({'formula': text, 'detail': 'whitespace changed the outcome: %r vs %r for %r' % (r, base, ''.join(toks))})
    # separators and blank patterns through a recording function
    rec = []
    p.set_function('REC', lambda *a: rec.append(list(a)) or len(a))
    for n in range(1, 7):
        for pattern in range(2 ** n):
            slots = [str(i + 1) if (pattern >> i) & 1 else '' for i in range(n)]
            expect = [i + 1 if (pattern >> i) & 1 else None for i in range(n)]
            if n == 1 and pattern == 0:
                expect = []                      # REC() is a call without arguments, not one blank slot
            outs = []
            for sep in (',', ';', '\\'):
                del rec[:]
                r = p.parse('REC(%s)' % sep.join(slots))
                cases += 1
                outs.append((r, list(rec)))
                if r['error'] is None:
                    if rec != [expect] and len(fails) < 5:
                        fails.append({'formula': 'REC(%s)' % sep.join(slots), 'detail': 'accepted but arguments %r, expected %r' % (rec, [expect])})
            if len(set(repr(o) for o in outs)) != 1 and len(fails) < 5:
                fails.append({'formula': 'REC(%s)' % ','.join(slots), 'detail': 'separator styles disagree: %r' % (outs,)})
    # array literals
    for text, exp in (('{1,2,3}', [1, 2, 3]), ('{1;2;3}', [1, 2, 3]), ('{1\\2\\3}', [1, 2, 3]), ('{1,2;3,4}', [[1, 2], [3, 4]]),
                      ('{1\\2;3\\4}', [[1, 2], [3, 4]]), ('{1}', [1]), ('{"a",2}', ['a', 2])):
        cases += 1
        r = p.parse(text)
        if r['result'] != exp and len(fails) < 5:
            fails.append({'formula': text, 'detail': 'expected %r got %r' % (exp, r)})
    # literal fidelity (exact)
    from fractions import Fraction
    for _ in range(400 if env['tier'] == 'quick' else 4000):
        a = ''.join(rng.choice('0123456789') for _ in range(rng.randint(1, 18)))
        b = ''.join(rng.choice('0123456789') for _ in range(rng.randint(1, 12)))
        for text, exp in ((a, int(a)), (a + '.' + b, float(a + '.' + b)), ('.' + b, float('0.' + b)), (a + '%', float(Fraction(int(a), 100)))):
            cases += 1
            r = p.parse(text)
            if not (r['error'] is None and r['result'] == exp and type(r['result']) is type(exp)) and len(fails) < 5:
                fails.append({'formula': text, 'detail': 'expected exactly %r got %r' % (exp, r)})
    # quoted literals: exactly the characters between the quotes, whatever they are (full-width forms, ideographic space, symbols that
    # look like operators or quotes, control characters, characters outside the BMP); seeded texts over that alphabet as well
    qalpha = list('aZ09 +-*/&=<>(){},;:%^#!?@~$_.|') + ['\t', '\n', 'é', 'ß', '中', '１', '０', '円', 'Ａ', '！', '＂', '＇', '（', '）', '　', '\xa0', '​', '«', '»', '“', '”', '‘',
                                                      '\U0001F600', '\x01', '\x7f']
    seeded_texts = [''.join(rng.choice(qalpha) for _ in range(rng.randint(1, 12))) for _ in range(150 if env['tier'] == 'quick' else 3000)]
    for s in ['', 'a', 'a b', 'é中', "it's", '1+1', '  ', '\\n', 'x"y'.replace('"', ''), '１００円', 'Ａ１', '＂x＂', '　', 'SUM(1,2)', '#N/A', 'TRUE', '1e5', '{1,2}'] + seeded_texts:
        for q in ('"', "'"):
            if q in s:
                continue
            cases += 1
            r = p.parse(q + s + q)
            if r['result'] != s and len(fails) < 5:
                fails.append({'formula': q + s + q, 'detail': 'expected %r got %r' % (s, r)})
    # an omitted slot arrives as blank (None) whatever the receiving function looks like: declared defaults, keyword-only tails, *args
    got_args = []

    def with_defaults(a=1, b=10, c=20, *rest):
        got_args.append((a, b, c) + rest)
        return len(got_args)
    p.set_function('DEF', with_defaults)
    for text, want in (('DEF(1,,3)', (1, None, 3)), ('DEF(,2)', (None, 2, 20)), ('DEF(1,)', (1, None, 20)), ('DEF(,,)', (None, None, None)), ('DEF(1;;3;;5)', (1, None, 3, None, 5)),
                       ('DEF()', (1, 10, 20)), ('DEF(7)', (7, 10, 20))):
        del got_args[:]
        cases += 1
        r = p.parse(text)
        if (got_args != [want] or r['error'] is not None) and len(fails) < 5:
            fails.append({'formula': text, 'detail': 'a custom function with declared defaults must receive exactly the written slots, omitted ones as blank: expected %r, received %r (%r)' % (want, got_args, r)})
    # case-insensitive references
    seen = []
    p.on('callCellValue', lambda cell, setter: (seen.append(cell.label), setter(5)))
    for a, b in (('a1', 'A1'), ('$b$2', '$B$2'), ('aB12', 'AB12')):
        del seen[:]
        r1, r2 = p.parse(a + '+1'), p.parse(b + '+1')
        cases += 1
        if (r1 != r2 or seen[0] != seen[1]) and len(fails) < 5:
            fails.append({'formula': a + '+1', 'detail': 'case changed the outcome: %r %r %r' % (r1, r2, seen)})
    # ... in everything a handler can observe of the cell / range corners (label, row and column index / label / is_absolute)
    import itertools

    def view(c):
        return (c.label, c.row.index, c.row.label, c.row.is_absolute, c.col.index, c.col.label, c.col.is_absolute)
    p2 = e2e.new_parser()
    got = []
    p2.on('callCellValue', lambda cell, setter: (got.append(('cell', view(cell))), setter(5)))
    p2.on('callRangeValue', lambda a, b, setter: (got.append(('range', view(a), view(b))), setter([[1, 2], [3, 4]])))
    # variables that happen to be named like a cell (in one spelling) change nothing: a cell-shaped token is a cell reference in every case
    for nm in ('a1', 'ab12', 'xfd1', 'b3', 'Ab12'):
        p2.set_variable(nm, 'a variable named like a cell')
    for ref in ('a1', '$b$2', 'ab12', 'a1:b3', '$a$1:$b$3', 'b3:a1', 'aa3:ab$10', 'c$2:$c4', 'xfd1', 'a1:xfd2'):
        letters = [i for i, ch in enumerate(ref) if ch.isalpha()]
        outcomes = set()
        for mask in itertools.product((0, 1), repeat=len(letters)):
            t = list(ref)
            for i, m in zip(letters, mask):
                t[i] = t[i].upper() if m else t[i].lower()
            del got[:]
            text = 'SUM(%s)' % ''.join(t)
            r = p2.parse(text)
            cases += 1
            outcomes.add(repr((r, got)))
        if len(outcomes) != 1 and len(fails) < 5:
            fails.append({'formula': 'SUM(%s)' % ref, 'detail': 'the case of the reference changes what the handler sees or the outcome: %s' % sorted(outcomes)[:2]})
    bounded(report, 'C05.lexical', 'whitespace from {space, tab, newline, runs} at every token boundary of 15 token lists (the colon of a range is a token of its own) (seeded), all 2^n blank '
            'patterns n<=6 x 3 separators, array literals, seeded literals up to 18+12 digits (exact), quoted texts (18 fixed + seeded texts over a 58-character alphabet incl. full-width forms), label case (every upper/lower pattern of 10 cell / range references, full handler view)', cases, fails)


def replay(rp):
    from pyvc import e2e
    if rp['kind'] == 'table':
        print(rp['obligation'], rp['detail'])
        return 1
    p = e2e.new_parser()
    p.set_variable('x', 2)
    p.set_function('REC', lambda *a: len(a))
    print('parse(%r) -> %r ; %s' % (rp['formula'], p.parse(rp['formula']), rp['detail']))
    return 1
