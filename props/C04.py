# C04 -- precedence, associativity and parentheses determine expression structure
import random
from props.common import table_obligations, bounded

LEVEL_TEXT = ("[callees evaluate_arithmetic / evaluate_logic / value_and_type are verified under their own contracts in this check; the lexer "
              "handed to PLY is a per-call clone (table); exact equality is demanded where no step of a tree rounds.]  "
              "Table obligations, complete for the artefact they inspect: G1 shape of the operator productions, G2 the declared precedence "
              "satisfies the relation of the statement, G3 EVERY (complete operator item, operator lookahead) entry of the LALR table of a "
              "parser instance built the way the runtime builds it is reduce/shift as the statement demands (hence every depth).  Deductive: "
              "the actions for binary operators, unary minus, parentheses and the start rule return exactly the callee's contracted value of "
              "(operator, left, right) / the operand unchanged.  Assumed: the yacc precedence theorem.  Bounded: expression trees against exact "
              "Fraction evaluation.")
TRUSTED = ['PLY LRParser runs the LALR table and calls each reduction action once in post-order (assumed contract)',
           'yacc precedence theorem (table entries as checked => parse tree is the precedence/associativity tree)']
CONTRACTS = ['p_expressions', 'p_expression_paren', 'p_expression_uminus', 'p_expression_logical_operator', 'p_expression_arithmetic_operator',
             # the callees whose contracted value the actions pass on (modular: a change inside them is noticed by their own contract)
             'evaluate_arithmetic', 'evaluate_logic', 'value_and_type']


def extra(report, env):
    from pyvc import grammar, e2e
    res = grammar.run([grammar.g1_shape, grammar.g2_relation, grammar.g3_table])
    # the reading of a formula is PLY's: its assumed contract includes that the token stream of one evaluation is private to it
    from props.C03 import ply_call_obligations
    res = res + [('assumption.' + n, ok, d) for n, ok, d in ply_call_obligations(env['repo'])]
    table_obligations(report, 'C04', res)
    rng = random.Random(env['seed'])
    cases, fails = e2e.check_trees(rng, env['tier'])
    bounded(report, 'C04.trees', 'all arithmetic trees with <= %d operators over small leaves + seeded trees with <= %d operators, '
            'minimal / full / redundant parentheses, exact Fraction reference (exact equality where no step of the tree rounds: leaves 2^52, 2^50, 2^53-1, 2^-16), '
            'trees whose leaves are evaluated by handlers on the same parser during the parse' % ((3, 5) if env['tier'] == 'thorough' else (2, 4)), cases, fails)


def replay(rp):
    from pyvc import e2e, grammar
    if rp['kind'] == 'table':
        res = grammar.run([grammar.g1_shape, grammar.g2_relation, grammar.g3_table])
        bad = [r for r in res if not r[1]]
        for b in bad[:10]:
            print('table obligation fails:', b)
        return 1 if bad else 0
    r = e2e.replay_formula(rp)
    print('expected:', rp.get('detail'))
    return 1
