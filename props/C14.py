# C14 -- date and time functions agree with the proleptic Gregorian calendar
import datetime
import random
import calendar
from props.common import bounded

LEVEL_TEXT = ("[table: no date function converts through the process time zone; the calendar sweep is repeated in two other time zones.]  "
              "Deductive over the civil-calendar model (datetime's constructor and field accessors are uninterpreted functions with inverse "
              "axioms = assumed library contract): DATE (year offset below 1900, argument order, #VALUE! on non-numbers), TIME, YEAR..SECOND "
              "(field of parse_date's result, error passthrough), WEEKDAY (three numberings, #NUM! otherwise), DAYS and DATEVALUE (serial of "
              "C13), DATEDIF (d, m, y, ym; #NUM! when start > end), EDATE (month arithmetic in linear integer arithmetic with div/mod 12, day "
              "clamped by the Gregorian leap rule, #NUM! outside 1900..9999; split into 12 cases by target month).  Bounded: calendar sweeps "
              "against datetime/calendar, which also samples the assumed axioms.")
TRUSTED = ['datetime (proleptic Gregorian civil <-> ordinal, weekday)', 'dateutil for ISO text', 'machine arithmetic treated as mathematical']


def _sweep(report, env, label='', light=False):
    from pyvc import e2e
    rng = random.Random(env['seed'])
    p = e2e.new_parser()
    cases = 0
    fails = []

    def chk(text, want, what=''):
        nonlocal cases
        cases += 1
        r = p.parse(text)
        ok = (r['error'] == want) if isinstance(want, str) and want.startswith('#') else (r['error'] is None and r['result'] == want)
        if not ok and len(fails) < 5:
            fails.append({'formula': text, 'detail': '%s expected %r got %r' % (what, want, r)})
    years = list(range(1900, 10000, 1 if (env['tier'] == 'thorough' and not light) else (37 if not light else 293))) + [1900, 1904, 2000, 2100, 2400, 9999]
    for y in years:
        for m in range(1, 13):
            for d in (1, 15, 28, calendar.monthrange(y, m)[1]):
                for fn, want in (('YEAR', y), ('MONTH', m), ('DAY', d)):
                    chk('%s(DATE(%d,%d,%d))' % (fn, y, m, d), want)
                dt = datetime.datetime(y, m, d)
                w = dt.weekday()
                chk('WEEKDAY(DATE(%d,%d,%d))' % (y, m, d), 1 if w == 6 else w + 2)
                chk('WEEKDAY(DATE(%d,%d,%d),2)' % (y, m, d), w + 1)
                chk('WEEKDAY(DATE(%d,%d,%d),3)' % (y, m, d), w)
    chk('WEEKDAY(DATE(2020,1,1),4)', '#NUM!')
    chk('WEEKDAY(DATE(2020,1,1),0)', '#NUM!')
    for y in (0, 1, 99, 120, 1899):
        chk('YEAR(DATE(%d,6,15))' % y, 1900 + y, 'years 0-1899 mean 1900+year')
    for h, mi, s in ((0, 0, 0), (23, 59, 59), (12, 30, 15), (5, 7, 9)):
        chk('HOUR(TIME(%d,%d,%d))' % (h, mi, s), h)
        chk('MINUTE(TIME(%d,%d,%d))' % (h, mi, s), mi)
        chk('SECOND(TIME(%d,%d,%d))' % (h, mi, s), s)
    for text, (y, m, d, h, mi, s) in (('2021-03-04T05:06:07', (2021, 3, 4, 5, 6, 7)), ('1999-12-31 23:59:58', (1999, 12, 31, 23, 59, 58))):
        for fn, want in (('YEAR', y), ('MONTH', m), ('DAY', d), ('HOUR', h), ('MINUTE', mi), ('SECOND', s)):
            chk('%s("%s")' % (fn, text), want, 'ISO text')
    base = datetime.datetime(1899, 12, 30)
    # the ends of the range and of each century on their own, then seeded days
    edges = [datetime.datetime(9999, 12, 31), datetime.datetime(9999, 12, 30), datetime.datetime(9999, 1, 1), datetime.datetime(1900, 3, 1),
             datetime.datetime(1900, 3, 2), datetime.datetime(1900, 12, 31), datetime.datetime(2000, 2, 29), datetime.datetime(2100, 2, 28),
             datetime.datetime(2100, 3, 1), datetime.datetime(9996, 2, 29)]
    for d1 in edges:
        n = (d1 - base).days
        chk('YEAR(%d)' % n, d1.year, 'whole-day serial (edge of the range)')
        chk('MONTH(%d)' % n, d1.month, 'whole-day serial (edge of the range)')
        chk('DAY(%d)' % n, d1.day, 'whole-day serial (edge of the range)')
        chk('WEEKDAY(%d)' % n, (d1.isoweekday() % 7) + 1, 'whole-day serial (edge of the range)')
        chk('YEAR(DATE(%d,%d,%d))' % (d1.year, d1.month, d1.day), d1.year, 'edge of the range')
        chk('DAY(DATE(%d,%d,%d))' % (d1.year, d1.month, d1.day), d1.day, 'edge of the range')
    for _ in range(300 if env['tier'] == 'quick' else 3000):
        d1 = datetime.datetime(1900, 3, 1) + datetime.timedelta(days=rng.randrange(0, 2958000))
        n = (d1 - base).days
        chk('YEAR(%d)' % n, d1.year, 'whole-day serial')
        chk('MONTH(%d)' % n, d1.month, 'whole-day serial')
        chk('DAY(%d)' % n, d1.day, 'whole-day serial')
        d2 = datetime.datetime(1900, 3, 1) + datetime.timedelta(days=rng.randrange(0, 2958000))
        a, b = sorted((d1, d2))
        fa = 'DATE(%d,%d,%d)' % (a.year, a.month, a.day)
        fb = 'DATE(%d,%d,%d)' % (b.year, b.month, b.day)
        chk('DAYS(%s,%s)' % (fb, fa), (b - a).days)
        chk('DATEDIF(%s,%s,"d")' % (fa, fb), (b - a).days)
        months = (b.year - a.year) * 12 + b.month - a.month - (1 if b.day < a.day else 0)
        chk('DATEDIF(%s,%s,"m")' % (fa, fb), months)
        chk('DATEDIF(%s,%s,"y")' % (fa, fb), months // 12)
        chk('DATEDIF(%s,%s,"ym")' % (fa, fb), months % 12)
        if a != b:
            chk('DATEDIF(%s,%s,"d")' % (fb, fa), '#NUM!', 'start later than end')
    # EDATE
    starts = [datetime.datetime(2020, 1, 31), datetime.datetime(2019, 1, 31), datetime.datetime(2000, 2, 29), datetime.datetime(1900, 3, 1),
              datetime.datetime(9999, 12, 31), datetime.datetime(2021, 12, 15), datetime.datetime(2023, 3, 30), datetime.datetime(1999, 11, 30)]
    offs = list(range(-30, 31)) + [1200, -1200, 120000, -120000, 119999, 95988, 97187, -1427] + [rng.randrange(-120000, 120000) for _ in range(100)]
    for st in starts:
        for n in offs:
            idx = st.year * 12 + st.month - 1 + n
            y, m = idx // 12, idx % 12 + 1
            p.set_variable('va', st)
            p.set_variable('vb', n)
            cases += 1
            r = p.parse('EDATE(va,vb)')
            if y > 9999 or y < 1900:
                ok = r['error'] == '#NUM!'
            else:
                want = datetime.datetime(y, m, min(st.day, calendar.monthrange(y, m)[1]))
                ok = r['result'] == want
            if not ok and len(fails) < 5:
                fails.append({'formula': 'EDATE(%s,%d)' % (st.date(), n), 'detail': 'got %r' % (r,)})
    if label:
        for f in fails:
            f['tz'] = label
            f['detail'] = 'with the process time zone set to %s: %s' % (label, f['detail'])
    bounded(report, 'C14.calendar' + ('.tz' if label else ''), ('process time zone %s; ' % label if label else '') + 'valid dates on a year grid (thorough: every year 1900..9999) x 12 months x 4 days: YEAR/MONTH/DAY/WEEKDAY(3 types); '
            'TIME fields; ISO text; seeded serials and date pairs for DAYS/DATEDIF (d, m, y, ym); EDATE for 8 starts x ~170 offsets up to +-120000',
            cases, fails)


def tz_obligations(report, env, prop):
    """ table obligation: no date function converts through the process time zone (serials and calendar fields are civil, not local) """
    from pyvc import frame
    from props.common import table_obligations
    res = [(n, ok, d) for n, ok, d in frame.clock_reads(env['repo']) if '.reads.local-time-zone.' in n]
    res.append(('reads.local-time-zone.sites-enumerated', True, '%d call sites of .timestamp() / .astimezone() / tzlocal()' % len(res)))
    table_obligations(report, prop, res)


def with_tz(tz, fn):
    """ run fn() with the process time zone set to the POSIX TZ string tz (calendar results must not depend on it) """
    import os
    import time
    old = os.environ.get('TZ')
    os.environ['TZ'] = tz
    time.tzset()
    try:
        return fn()
    finally:
        if old is None:
            os.environ.pop('TZ', None)
        else:
            os.environ['TZ'] = old
        time.tzset()


def extra(report, env):
    tz_obligations(report, env, 'C14')
    _sweep(report, env)
    # the same sweep (thinner year grid) in two other process time zones, one of them with daylight saving: nothing in the statement
    # depends on where the process runs
    for tz in ('IST-5:30', 'PST8PDT,M3.2.0,M11.1.0'):
        with_tz(tz, lambda: _sweep(report, env, label=tz, light=True))


def replay(rp):
    from pyvc import e2e

    def run():
        p = e2e.new_parser()
        print('parse(%r) -> %r ; %s' % (rp.get('formula'), p.parse(rp['formula']) if rp.get('formula') and '(' in rp['formula'] and 'EDATE(' not in rp['formula'] else '(see detail)', rp.get('detail')))
    if rp.get('tz'):
        with_tz(rp['tz'], run)
    else:
        run()
    return 1
