# C12 -- logical functions are truth-functional; type predicates classify values
LEVEL_TEXT = ("Deductive: IF/NOT/IFS/SWITCH (arities up to 6) and AND/OR (any number of scalar items, loop invariant 'no error in the "
              "prefix' + quantified truth) and every predicate are verified against the statement; exclusivity of the predicates is a "
              "lemma over their contracts.  Bounded: XOR parity, nested arrays (iflatten is a generator).")
TRUSTED = ['utils.iflatten/flatten yield the leaves left to right (bounded native check only)', 'z3 5.1 quantifier instantiation']


def extra(report, env):
    from pyvc import e2e
    from props.common import bounded
    p = e2e.new_parser()
    cases = 0
    fails = []

    def flat(x):
        out = []
        for y in x:
            out.extend(flat(y)) if isinstance(y, list) else out.append(y)
        return out
    import itertools
    import random
    rng = random.Random(env['seed'])
    vals = [True, False, 0, 1, -2, 0.5, None]
    shapes = []
    for _ in range(150 if env['tier'] == 'quick' else 2000):
        n = rng.randint(1, 6)
        items = [rng.choice(vals) for _ in range(n)]
        # regroup into nested arrays of depth up to 3
        def nest(xs, depth):
            if len(xs) <= 1 or depth == 0 or rng.random() < 0.3:
                return list(xs)
            k = rng.randint(1, len(xs) - 1)
            return [nest(xs[:k], depth - 1), nest(xs[k:], depth - 1)] if rng.random() < 0.5 else [xs[0], nest(xs[1:], depth - 1)]
        shapes.append((items, nest(items, 3)))
    for items, nested in shapes:
        truth = [bool(x) for x in items]
        p.set_variable('blk', nested)
        for name, want in (('AND', all(truth)), ('OR', any(truth)), ('XOR', sum(truth) % 2 == 1)):
            for text in ('%s(blk)' % name, '%s(blk,TRUE)' % name if name == 'AND' else '%s(blk,FALSE)' % name):
                cases += 1
                r = p.parse(text)
                if r['result'] is not want and len(fails) < 5:
                    fails.append({'formula': '%s with blk=%r' % (text, nested), 'detail': 'expected %r got %r' % (want, r)})
    for text, want in (('AND({1,0;1,1})', False), ('AND({1,1;1,1})', True), ('OR({0,0;0,0})', False), ('OR({0,0;0,1})', True), ('XOR({1,1;1,0})', True),
                       ('XOR({1,1;1,1})', False), ('NOT(0)', True), ('NOT(2)', False), ('IF(0.5,"a","b")', 'a'), ('IFS(0,1,2,3)', 3),
                       ('IFS(FALSE,1,0,2)', '#N/A'), ('SWITCH(2,1,"a",2,"b","c")', 'b'), ('SWITCH(9,1,"a",2,"b","c")', 'c'), ('SWITCH(9,1,"a",2,"b")', '#N/A')):
        cases += 1
        r = p.parse(text)
        ok = (r['error'] == want) if isinstance(want, str) and want.startswith('#') else r['result'] == want and type(r['result']) is type(want)
        if not ok and len(fails) < 5:
            fails.append({'formula': text, 'detail': 'expected %r got %r' % (want, r)})
    # SWITCH / IFS: the FIRST matching case decides - seeded case lists with duplicates, cases of mixed types, with and without default
    import random
    rng = random.Random(env['seed'])
    vals = [0, 1, 2, 1.0, 2.5, '"a"', '"b"', '"A"', '""']      # (logicals against numbers are left out: the statement does not say whether TRUE equals 1)
    pyv = {'0': 0, '1': 1, '2': 2, '1.0': 1.0, '2.5': 2.5, '"a"': 'a', '"b"': 'b', '"A"': 'A', '""': ''}
    for _ in range(400 if env['tier'] == 'quick' else 6000):
        k = rng.randint(1, 5)
        pairs = [(str(rng.choice(vals)), 'r%d' % i) for i in range(k)]
        target = str(rng.choice(vals))
        default = rng.random() < 0.5
        text = 'SWITCH(%s,%s%s)' % (target, ','.join('%s,"%s"' % pr for pr in pairs), ',"dflt"' if default else '')
        want = None
        for c, res in pairs:
            a, b = pyv[target], pyv[c]
            # equal = same value; a logical is not a number, text only equals text (the comparison SWITCH itself uses is the language's ==)
            if type(a) is bool or type(b) is bool:
                eq = type(a) is type(b) and a == b
            elif isinstance(a, str) or isinstance(b, str):
                eq = isinstance(a, str) and isinstance(b, str) and a == b
            else:
                eq = a == b
            if eq:
                want = res
                break
        if want is None:
            want = 'dflt' if default else '#N/A'
        cases += 1
        r = p.parse(text)
        ok = (r['error'] == want) if want == '#N/A' else (r['result'] == want)
        if not ok and len(fails) < 5:
            fails.append({'formula': text, 'detail': 'the first case equal to the target decides (else the default, else #N/A): expected %r got %r' % (want, r)})
        conds = [rng.choice(['TRUE', 'FALSE', '0', '1', '2.5', 'blankv']) for _ in range(k)]
        text = 'IFS(%s)' % ','.join('%s,"r%d"' % (c, i) for i, c in enumerate(conds))
        truth = {'TRUE': True, 'FALSE': False, '0': False, '1': True, '2.5': True, 'blankv': False}
        want = next(('r%d' % i for i, c in enumerate(conds) if truth[c]), '#N/A')
        p.set_variable('blankv', None)
        cases += 1
        r = p.parse(text)
        ok = (r['error'] == want) if want == '#N/A' else (r['result'] == want)
        if not ok and len(fails) < 5:
            fails.append({'formula': text, 'detail': 'the value paired with the first true condition, else #N/A: expected %r got %r' % (want, r)})
    from hotxlfp.formulas import error
    for code in ('1/0', 'NA()', 'SQRT(-1)'):
        for text in ('AND(TRUE,%s)', 'OR(FALSE,%s)', 'XOR(%s,1)', 'NOT(%s)', 'IF(%s,1,2)', 'IFS(%s,1,TRUE,2)', 'AND({1,1},%s)'):
            cases += 1
            r = p.parse(text % code)
            if r['error'] is None and len(fails) < 5:
                fails.append({'formula': text % code, 'detail': 'an error in a tested condition must yield that error, got %r' % (r,)})
    for v in [1, -1, 2, 0, 1.5, -1.5, -2.5, -0.5, 2.5, 1000, 7.9, -7.9, 2 ** 53 + 1, 2 ** 53 + 2, -(2 ** 53 + 1), 2 ** 60 + 1, 10 ** 20 + 1, 10 ** 20, 9007199254740993.0]:
        p.set_variable('va', v)
        cases += 1
        e, o = p.parse('ISEVEN(va)'), p.parse('ISODD(va)')
        if (bool(e['result']) == bool(o['result']) or bool(o['result']) != (int(v) % 2 == 1)) and len(fails) < 5:
            fails.append({'formula': 'ISEVEN/ISODD(%r)' % v, 'detail': 'not complementary / not the parity of the integer part: %r %r' % (e, o)})
    bounded(report, 'C12.truth-tables', 'seeded tuples of length 1..6 from {TRUE,FALSE,0,1,-2,0.5,blank} regrouped into nested arrays (depth <= 3) for '
            'AND/OR/XOR, 2-D literals, IF/IFS/SWITCH/NOT spot checks, seeded SWITCH / IFS case lists with duplicates and mixed types (first match decides), 3 error sources x 7 condition positions, ISEVEN/ISODD on 12 numbers', cases, fails)


def replay(rp):
    print(rp)
    return 1
