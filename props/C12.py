# C12 -- logical functions are truth-functional; type predicates classify values
LEVEL_TEXT = ("Deductive: IF/NOT/IFS/SWITCH (arities up to 6) and AND/OR (any number of scalar items, loop invariant 'no error in the "
              "prefix' + quantified truth) and every predicate are verified against the statement; exclusivity of the predicates is a "
              "lemma over their contracts.  Bounded: XOR parity, nested arrays (iflatten is a generator).")
TRUSTED = ['utils.iflatten/flatten yield the leaves left to right (bounded native check only)', 'z3 5.1 quantifier instantiation']
