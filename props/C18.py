# C18 -- lookup functions return the addressed element or an error, never another one
LEVEL_TEXT = ("Deductive: CHOOSE (arities to 5), INDEX on one-dimensional arrays of any length and on every two-dimensional shape up to 3x3 "
              "for ALL integer indices (Python's negative-index wrap-around is modelled, which is what makes the safety clause bite), "
              "MATCH type 0 on numeric arrays of any length (loop invariant).  Bounded: MATCH types 1/-1 on all sorted arrays of length <= 5 "
              "over -3..3, text lookups through fnmatch (arrays mixing text, numbers, logicals, blanks), larger 2-D shapes, MATCH / INDEX over host lists the host edits "
              "in place between evaluations (history independence).")
TRUSTED = ['fnmatch.fnmatch (assumed library contract)', 'array literal construction: grammar contracts p_array / p_expseq_* (C05)']


def history_case(seed_words, edits, probes):
    """ one host list searched, edited in place by the host, searched again ...; first failure or None """
    import fnmatch
    from pyvc import e2e
    p = e2e.new_parser()
    ws = list(seed_words)
    p.set_variable('ws', ws)
    p.on('callRangeValue', lambda a, b, setter: setter(ws))
    for step in range(len(edits) + 1):
        for x in probes:
            if isinstance(x, str):
                hits = [j for j, w in enumerate(ws) if isinstance(w, str) and fnmatch.fnmatch(w.lower(), x.lower())]
            else:
                hits = [j for j, w in enumerate(ws) if not isinstance(w, str) and w == x]
            lit = '"%s"' % x if isinstance(x, str) else repr(x)
            for arr in ('ws', 'A1:A9'):
                r = p.parse('MATCH(%s,%s,0)' % (lit, arr))
                want = {'result': hits[0] + 1, 'error': None} if hits else {'result': None, 'error': '#N/A'}
                if r != want:
                    return step, 'MATCH(%s,%s,0) over %r: expected %r got %r' % (lit, arr, ws, want, r)
                if hits:
                    r = p.parse('INDEX(%s,MATCH(%s,%s,0))' % (arr, lit, arr))
                    if r != {'result': ws[hits[0]], 'error': None}:
                        return step, 'INDEX(%s,MATCH(%s,%s,0)) over %r: expected %r got %r' % (arr, lit, arr, ws, ws[hits[0]], r)
        if step < len(edits):
            i, v = edits[step]
            ws[i % len(ws)] = v           # the host edits a cell of its own list
    return None


def extra(report, env):
    import random
    from props.common import bounded
    rng = random.Random(env['seed'])
    words = ['apple', 'Apple', 'pear', 'plum', 'fig', 'figs', 'kiwi', 'lime', 'PLUM', 'peach', 3, 7, 2.5]
    probes_pool = ['apple', 'pear', 'p*', 'fig?', '?i*', 'plum', 'kiwi', 'zzz', 3, 7, 2.5, 4]
    cases = 0
    fails = []
    for _ in range(60 if env['tier'] == 'quick' else 1000):
        n = rng.randint(1, 7)
        seed_words = [rng.choice(words) for _ in range(n)]
        edits = [(rng.randrange(n), rng.choice(words)) for _ in range(rng.randint(1, 4))]
        probes = [rng.choice(probes_pool) for _ in range(3)]
        cases += (len(edits) + 1) * len(probes) * 2
        r = history_case(seed_words, edits, probes)
        if r is not None and len(fails) < 5:
            fails.append({'formula': 'MATCH / INDEX over a host list', 'seed_words': seed_words, 'edits': edits, 'probes': probes,
                          'detail': 'after %d in-place edits by the host: %s' % r})
    bounded(report, 'C18.histories', 'MATCH(x,array,0) and INDEX(array,MATCH(x,array,0)) over a host list (variable and range) that the host edits in place '
            'between evaluations: seeded lists of 1..7 words / numbers, 1..4 edits, 3 probes (text with wildcards, numbers)', cases, fails)


def replay(rp):
    r = history_case(rp['seed_words'], [tuple(e) for e in rp['edits']], rp['probes'])
    print('host list %r, edits %r, probes %r: %s' % (rp['seed_words'], rp['edits'], rp['probes'], 'all as stated' if r is None else 'after %d edits: %s' % r))
    return 0 if r is None else 1
