# C18 -- lookup functions return the addressed element or an error, never another one
LEVEL_TEXT = ("Deductive: CHOOSE (arities to 5), INDEX on one-dimensional arrays of any length and on every two-dimensional shape up to 3x3 "
              "for ALL integer indices (Python's negative-index wrap-around is modelled, which is what makes the safety clause bite), "
              "MATCH type 0 on numeric arrays of any length (loop invariant).  Bounded: MATCH types 1/-1 on all sorted arrays of length <= 5 "
              "over -3..3, text lookups through fnmatch, larger 2-D shapes.")
TRUSTED = ['fnmatch.fnmatch (assumed library contract)', 'array literal construction: grammar contracts p_array / p_expseq_* (C05)']
