# C18 -- lookup functions return the addressed element or an error, never another one
LEVEL_TEXT = ("Deductive: CHOOSE (arities to 5), INDEX on one-dimensional arrays of any length and on every two-dimensional shape up to 3x3 "
              "for ALL integer indices (Python's negative-index wrap-around is modelled, which is what makes the safety clause bite), "
              "MATCH type 0 on numeric arrays of any length (loop invariant).  Bounded: MATCH types 1/-1 on all sorted arrays of length <= 5 "
              "over -3..3, text lookups through fnmatch (arrays mixing text, numbers, logicals, blanks), larger 2-D shapes, MATCH / INDEX over host lists the host edits "
              "in place between evaluations (history independence).")
TRUSTED = ['fnmatch.fnmatch (assumed library contract)', 'array literal construction: grammar contracts p_array / p_expseq_* (C05)']


def history_case(seed_words, edits, probes):
    """ one host list searched, edited in place by the host, searched again ...; first failure or None """
    from pyvc.api import wildcard_match
    from pyvc import e2e
    p = e2e.new_parser()
    ws = list(seed_words)
    p.set_variable('ws', ws)
    p.on('callRangeValue', lambda a, b, setter: setter(ws))
    for step in range(len(edits) + 1):
        for x in probes:
            if isinstance(x, str):
                hits = [j for j, w in enumerate(ws) if isinstance(w, str) and wildcard_match(w.lower(), x.lower())]
            else:
                hits = [j for j, w in enumerate(ws) if not isinstance(w, str) and w == x]
            lit = '"%s"' % x if isinstance(x, str) else repr(x)
            for arr in ('ws', 'A1:A9'):
                r = p.parse('MATCH(%s,%s,0)' % (lit, arr))
                want = {'result': hits[0] + 1, 'error': None} if hits else {'result': None, 'error': '#N/A'}
                if r != want:
                    return step, 'MATCH(%s,%s,0) over %r: expected %r got %r' % (lit, arr, ws, want, r)
                if hits:
                    r = p.parse('INDEX(%s,MATCH(%s,%s,0))' % (arr, lit, arr))
                    if r != {'result': ws[hits[0]], 'error': None}:
                        return step, 'INDEX(%s,MATCH(%s,%s,0)) over %r: expected %r got %r' % (arr, lit, arr, ws, ws[hits[0]], r)
        if step < len(edits):
            i, v = edits[step]
            ws[i % len(ws)] = v           # the host edits a cell of its own list
    return None


def extra(report, env):
    import random
    from props.common import bounded
    rng = random.Random(env['seed'])
    words = ['apple', 'Apple', 'pear', 'plum', 'fig', 'figs', 'kiwi', 'lime', 'PLUM', 'peach', 3, 7, 2.5, 'pea', 'AB-1', 'AB-10', 'AB-100', 'app', 'a[1]', 'a1', '[x]', 'x']
    probes_pool = ['apple', 'pear', 'p*', 'fig?', '?i*', 'plum', 'kiwi', 'zzz', 3, 7, 2.5, 4, 'pea', 'AB-1', 'AB-10', 'app', 'fig', 'a[1]', 'a[1]*', '[x]', '?[1]', '[!a]*']
    cases = 0
    fails = []
    for _ in range(60 if env['tier'] == 'quick' else 1000):
        n = rng.randint(1, 7)
        seed_words = [rng.choice(words) for _ in range(n)]
        edits = [(rng.randrange(n), rng.choice(words)) for _ in range(rng.randint(1, 4))]
        probes = [rng.choice(probes_pool) for _ in range(3)]
        cases += (len(edits) + 1) * len(probes) * 2
        r = history_case(seed_words, edits, probes)
        if r is not None and len(fails) < 5:
            fails.append({'formula': 'MATCH / INDEX over a host list', 'seed_words': seed_words, 'edits': edits, 'probes': probes,
                          'detail': 'after %d in-place edits by the host: %s' % r})
    # positions that are not positions: fractions between 0 and 1, negative fractions, beyond the end by a fraction - an error, never an element
    from pyvc import e2e
    pi = e2e.new_parser()
    pi.set_variable('vec', [10, 20, 30])
    pi.set_variable('tab', [[1, 2, 3], [4, 5, 6]])
    pi.on('callRangeValue', lambda a, b, setter: setter([[1, 2, 3], [4, 5, 6]]))
    for text in ('INDEX(vec,0.5)', 'INDEX(vec,0.999)', 'INDEX(vec,-0.5)', 'INDEX(vec,3.5)', 'INDEX(vec,4)', 'INDEX(vec,-1)', 'INDEX({10,20,30},0.5)', 'INDEX({10;20;30},0.5)',
                 'INDEX(tab,0.5,1)', 'INDEX(tab,1,0.5)', 'INDEX(tab,2.5,1)', 'INDEX(tab,1,3.5)', 'INDEX(tab,-0.5,1)', 'INDEX(A1:C2,0.5,1)', 'INDEX(A1:C2,1,-0.5)',
                 'CHOOSE(0.5,"a","b")', 'CHOOSE(2.5,"a","b")', 'CHOOSE(-0.5,"a","b")', 'CHOOSE(3,"a","b")', 'CHOOSE(0,"a","b")'):
        cases += 1
        r = pi.parse(text)
        if r['error'] is None and len(fails) < 5:
            fails.append({'formula': text, 'seed_words': [], 'edits': [], 'probes': [], 'detail': 'not a position inside the array: an error is expected, got %r' % (r,)})
    bounded(report, 'C18.histories', 'MATCH(x,array,0) and INDEX(array,MATCH(x,array,0)) over a host list (variable and range) that the host edits in place '
            'between evaluations: seeded lists of 1..7 words / numbers, 1..4 edits, 3 probes (text with wildcards, numbers)', cases, fails)


def replay(rp):
    r = history_case(rp['seed_words'], [tuple(e) for e in rp['edits']], rp['probes'])
    print('host list %r, edits %r, probes %r: %s' % (rp['seed_words'], rp['edits'], rp['probes'], 'all as stated' if r is None else 'after %d edits: %s' % r))
    return 0 if r is None else 1
