# C16 -- real-valued math and PV return the mathematically defined value or an error
import math
import random
from props.common import bounded

LEVEL_TEXT = ("What hotxlfp contributes is coercion, delegation and a few closed forms; those are proved: every elementary function coerces its "
              "argument with parse_number (numeric text and logicals are numbers, other text is #VALUE! - never a number), returns the named "
              "mathematical function inside its domain and an error (never a number) outside; closed forms (ACOSH, ACOTH, ACOT incl. ACOT(0) = "
              "pi/2, COT, EXP, LOG/LOG10) against the defining identities; ATAN2 is #DIV/0! iff both arguments are 0; PV satisfies the annuity "
              "equation as a polynomial identity (all three type cases, linear form at rate 0); RAND in [0,1), RANDBETWEEN an integer in [a,b].  "
              "The real functions themselves (libm) and their mutual identities are assumed and sampled on a native grid.")
TRUSTED = ['libm accuracy and the identities between libm functions (sin^2+cos^2 = 1 ...): properties of the C library, sampled natively',
           'machine arithmetic treated as mathematical (real_arith); math.* raise ValueError outside their domain, OverflowError on overflow',
           'random.random in [0,1), random.randint(a,b) an integer in [a,b]']


def extra(report, env):
    from pyvc import e2e
    rng = random.Random(env['seed'])
    p = e2e.new_parser()
    cases = 0
    fails = []

    def val(text):
        return p.parse(text)

    def close(a, b):
        return abs(a - b) <= 1e-9 * max(1.0, abs(a), abs(b))
    # the edges of the domains, from both sides and a hair (1e-10, 1e-13, one ulp) away: a value just outside is an error, never a number
    import math as _m
    edges = []
    for b in (1.0, -1.0, 0.0):
        for e in (1e-10, 1e-13, 1e-7):
            edges += [b + e, b - e]
        edges += [_m.nextafter(b, _m.inf), _m.nextafter(b, -_m.inf)]
    xs = [0.0, 1.0, -1.0, 0.5, -0.5, 2.0, 10.0, 1e-8, 123.456, -37.25, 1e6, 3.0, 0.999999, 1.000001] + edges + \
         [rng.uniform(-50, 50) for _ in range(60 if env['tier'] == 'quick' else 600)] + [10 ** rng.uniform(-12, 12) for _ in range(40)]
    import math as m
    ref = {'ABS': abs, 'SQRT': m.sqrt, 'EXP': m.exp, 'LN': m.log, 'LOG10': m.log10, 'SIN': m.sin, 'COS': m.cos, 'TAN': m.tan, 'ASIN': m.asin,
           'ACOS': m.acos, 'ATAN': m.atan, 'SINH': m.sinh, 'COSH': m.cosh, 'TANH': m.tanh, 'ASINH': m.asinh, 'ACOSH': m.acosh, 'ATANH': m.atanh,
           'RADIANS': m.radians, 'DEGREES': m.degrees, 'ACOT': lambda x: m.pi / 2 if x == 0 else m.atan(1 / x),      # the inverse of COT on (-pi/2, pi/2] 'COT': lambda x: 1 / m.tan(x),
           'ACOTH': lambda x: m.atanh(1 / x)}
    for name, f in ref.items():
        for x in xs:
            p.set_variable('va', x)
            cases += 1
            r = val('%s(va)' % name)
            try:
                exp = f(x)
                if isinstance(exp, complex) or exp != exp:
                    raise ValueError()
            except (ValueError, ZeroDivisionError, OverflowError):
                exp = None
            if exp is None:
                if name == 'ACOSH' and abs(x) > 1e150:
                    continue
                ok = r['error'] is not None and r['result'] is None          # outside the domain: an error, never a number
            elif r['error'] is not None:
                ok = (name in ('EXP', 'SINH', 'COSH') and abs(x) > 700) or (name == 'ACOSH' and x > 1e150) or (name == 'COT' and abs(m.sin(x)) < 1e-300)
            else:
                ok = close(r['result'], exp) or (name in ('TAN', 'COT') and abs(exp) > 1e6)
            if not ok and len(fails) < 5:
                fails.append({'formula': '%s(%r)' % (name, x), 'detail': 'expected %r got %r' % (exp, r)})
        for t, want in (('"2"', f(2.0) if name not in ('ASIN', 'ACOS', 'ATANH') else None), ('TRUE', None), ('"abc"', '#VALUE!'), ('""', '#VALUE!')):
            cases += 1
            r = val('%s(%s)' % (name, t))
            if want == '#VALUE!' and r['error'] != '#VALUE!' and len(fails) < 5:
                fails.append({'formula': '%s(%s)' % (name, t), 'detail': 'non-numeric text must be #VALUE!, got %r' % (r,)})
            if isinstance(want, float) and not (r['error'] is None and close(r['result'], want)) and len(fails) < 5:
                fails.append({'formula': '%s(%s)' % (name, t), 'detail': 'numeric text must act as a number: expected %r got %r' % (want, r)})
    # identities
    for x in xs:
        if abs(x) > 1e3:
            continue
        p.set_variable('va', x)
        checks = [('SIN(va)*SIN(va)+COS(va)*COS(va)', 1.0), ('TAN(va)-SIN(va)/COS(va)', 0.0)]
        if x > 0:
            checks += [('EXP(LN(va))/va', 1.0), ('LOG(va,7)-LN(va)/LN(7)', 0.0), ('SQRT(va)*SQRT(va)/va', 1.0)]
        if -1 <= x <= 1:
            checks += [('SIN(ASIN(va))-va', 0.0), ('COS(ACOS(va))-va', 0.0)]
        checks += [('TAN(ATAN(va))-va', 0.0), ('SINH(ASINH(va))-va', 0.0)]
        for text, want in checks:
            cases += 1
            r = val(text)
            if not (r['error'] is None and abs(r['result'] - want) <= 1e-6 * max(1.0, abs(x))) and len(fails) < 5:
                if 'TAN' in text and abs(m.cos(x)) < 1e-6:
                    continue
                fails.append({'formula': text.replace('va', repr(x)), 'detail': 'identity: expected %r got %r' % (want, r)})
    # ATAN2: the angle of the point (x, y); #DIV/0! only at the origin
    for x in (-2.0, -1, 0, 0.5, 3, 1e-200, -3e-170, 1e-300, 1e200):
        for y in (-2.0, -1, 0, 0.5, 3, 1e-200, -1e-250, 1e200):
            p.set_variable('va', x)
            p.set_variable('vb', y)
            cases += 1
            r = val('ATAN2(va,vb)')
            if x == 0 and y == 0:
                ok = r['error'] == '#DIV/0!'
            else:
                ok = r['error'] is None and close(r['result'], m.atan2(y, x))
            if not ok and len(fails) < 5:
                fails.append({'formula': 'ATAN2(%r,%r)' % (x, y), 'detail': 'got %r' % (r,)})
    # PV annuity equation on floats
    for _ in range(300 if env['tier'] == 'quick' else 3000):
        rate = rng.choice([0, 0.0, rng.uniform(-0.9, 2.0), rng.uniform(0.0001, 0.2)])
        n = rng.choice([0, 1, rng.randint(1, 60), rng.uniform(0.5, 40)])
        pmt = rng.uniform(-1000, 1000)
        fv = rng.choice([0, rng.uniform(-5000, 5000)])
        typ = rng.choice([0, 1])
        for k, v in zip(('va', 'vb', 'vc', 'vd'), (rate, n, pmt, fv)):
            p.set_variable(k, v)
        cases += 1
        r = val('PV(va,vb,vc,vd,%d)' % typ)
        if r['error'] is not None:
            fails.append({'formula': 'PV(%r,%r,%r,%r,%d)' % (rate, n, pmt, fv, typ), 'detail': 'got %r' % (r,)}) if len(fails) < 5 else None
            continue
        pv = r['result']
        if rate == 0:
            resid = pv + pmt * n + fv
            scale = abs(pv) + abs(pmt * n) + abs(fv) + 1
        else:
            q = (1 + rate) ** n
            resid = pv * q + pmt * (1 + rate * typ) * (q - 1) / rate + fv
            scale = abs(pv * q) + abs(pmt * (1 + rate * typ) * (q - 1) / rate) + abs(fv) + 1
        if abs(resid) > 1e-9 * scale and len(fails) < 5:
            fails.append({'formula': 'PV(%r,%r,%r,%r,%d)' % (rate, n, pmt, fv, typ), 'detail': 'annuity equation residual %r' % (resid,)})
    for _ in range(200):
        cases += 2
        r = val('RAND()')
        if not (isinstance(r['result'], float) and 0 <= r['result'] < 1) and len(fails) < 5:
            fails.append({'formula': 'RAND()', 'detail': 'got %r' % (r,)})
        a, b = sorted((rng.randint(-50, 50), rng.randint(-50, 50)))
        r = val('RANDBETWEEN(%d,%d)' % (a, b))
        if not (isinstance(r['result'], int) and a <= r['result'] <= b) and len(fails) < 5:
            fails.append({'formula': 'RANDBETWEEN(%d,%d)' % (a, b), 'detail': 'got %r' % (r,)})
    bounded(report, 'C16.grid', '22 functions x ~110 reals over 24 orders of magnitude (value inside the domain, error outside; the domain edges -1, 0, 1 from both sides at 1e-7, 1e-10, 1e-13 and one ulp), numeric text / logical / '
            'non-numeric text arguments, 9 identities, ATAN2 on a 9x8 grid incl. magnitudes 1e-300..1e200, seeded PV equations, RAND/RANDBETWEEN', cases, fails)


def replay(rp):
    print(rp)
    return 1
