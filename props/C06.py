# C06 -- arithmetic and concatenation follow the implicit type-conversion table
import random
import datetime
from fractions import Fraction
from props.common import bounded, known_e2e

LEVEL_TEXT = ("Deductive: value_and_type (classification), evaluate_arithmetic for each of + - * / over ALL pairs of scalar operands against "
              "the statement's conversion rules (independent date-result table in the sidecar, zero divisor, non-numeric text, errors first), "
              "the & action (text verbatim, blank as nothing, errors first), the arithmetic actions of the grammar, and the array layer ExcelArrayOps "
              "(6 operator methods x arrays of 2 / 3 elements against a scalar, an equal-length and an unequal-length array: element-wise through "
              "evaluate_arithmetic's contract, #VALUE! on a length mismatch, a new list, the wrapped array untouched).  Float arithmetic is "
              "treated as real arithmetic (flagged).  Bounded: typed pairs incl. arrays through parse, commutativity of + and *.")
TRUSTED = ['dateutil.parser.parse (text dates; reads the clock for missing fields)', 'machine arithmetic treated as mathematical (real_arith)']
KNOWN_ARRAY = 'one-element array operand broadcasts instead of #VALUE!'


def extra(report, env):
    from pyvc import e2e
    rng = random.Random(env['seed'])
    p = e2e.new_parser()
    from hotxlfp.formulas import error
    d1, d2 = datetime.datetime(2020, 1, 15), datetime.datetime(1999, 12, 31, 6)
    pool = [0, 1, -3, 7, 2.5, -0.25, True, False, None, '4', '-1.5', 'abc', '', d1, d2, [1, 2, 3], [4.0, 5, 6], [1, 2], [[1, 2], [3, 4]]]   # one-element arrays: known finding C06-one-element-array-broadcast, checked separately
    cases = 0
    fails = []

    def num(v):
        if isinstance(v, bool):
            return int(v)
        if v is None:
            return 0
        if isinstance(v, (int, float)):
            return v
        if isinstance(v, str):
            try:
                return int(v)
            except ValueError:
                try:
                    return float(v)
                except ValueError:
                    return 'text'
        return 'other'
    import copy
    pristine = copy.deepcopy(pool)
    for ia, a in enumerate(pool):
        for ib, b in enumerate(pool):
            p.set_variable('va', a)
            p.set_variable('vb', b)
            for op in '+-*/':
                cases += 1
                # outcomes are snapshotted at once (a result may alias an operand), operands are compared with pristine copies after
                # every evaluation: an operand array that an evaluation changes makes the next evaluation of the same formula differ
                r = p.parse('va%svb' % op)
                snap = repr(r)
                r = copy.deepcopy(r)
                r2 = repr(p.parse('vb%sva' % op)) if op in '+*' else None
                again = repr(p.parse('va%svb' % op))
                if r2 is not None and snap != r2 and len(fails) < 5:
                    fails.append({'formula': 'va%svb' % op, 'bind': [repr(pristine[ia]), repr(pristine[ib])], 'detail': 'not commutative: %s vs %s' % (snap, r2)})
                if (again != snap or repr(a) != repr(pristine[ia]) or repr(b) != repr(pristine[ib])) and len(fails) < 5:
                    fails.append({'formula': 'va%svb' % op, 'bind': [repr(pristine[ia]), repr(pristine[ib])],
                                  'detail': 'evaluating twice over the same operand objects: %s then %s; operands afterwards %r, %r' % (snap, again, a, b)})
                    pool[ia], pool[ib] = copy.deepcopy(pristine[ia]), copy.deepcopy(pristine[ib])
                    a, b = pool[ia], pool[ib]
                    p.set_variable('va', a)
                    p.set_variable('vb', b)
                if isinstance(a, (list, datetime.datetime)) or isinstance(b, (list, datetime.datetime)):
                    continue
                x, y = num(a), num(b)
                if x == 'text' or y == 'text':
                    exp = ('err', '#VALUE!')
                elif op == '/' and y == 0:
                    exp = ('err', '#DIV/0!')
                else:
                    exp = ('val', {'+': lambda: x + y, '-': lambda: x - y, '*': lambda: x * y, '/': lambda: x / y}[op]())
                ok = (r['error'] == exp[1]) if exp[0] == 'err' else (r['error'] is None and abs(r['result'] - exp[1]) <= 1e-12 * max(1, abs(exp[1])))
                if not ok and len(fails) < 5:
                    fails.append({'formula': 'va%svb' % op, 'bind': [repr(a), repr(b)], 'detail': 'expected %r got %r' % (exp, r)})
            # & : text verbatim, integers as digits, blank as nothing
            if not isinstance(a, (list, datetime.datetime, float, bool)) and not isinstance(b, (list, datetime.datetime, float, bool)):
                cases += 1
                r = p.parse('va&vb')
                exp = ('' if a is None else str(a)) + ('' if b is None else str(b))
                if r['result'] != exp and len(fails) < 5:
                    fails.append({'formula': 'va&vb', 'bind': [repr(a), repr(b)], 'detail': 'expected %r got %r' % (exp, r)})
    # dates: date +- n is the date n days later / earlier; date - date the day difference
    for d in (d1, datetime.datetime(1900, 3, 1), datetime.datetime(2000, 2, 28)):
        for n in (0, 1, 30, 366, -5):
            if d + datetime.timedelta(days=n) < datetime.datetime(1900, 3, 1) or d - datetime.timedelta(days=n) < datetime.datetime(1900, 3, 1):
                continue     # serial 60 (Excel's 29 Feb 1900) has no calendar date: day arithmetic is claimed from 1 March 1900 on
            p.set_variable('va', d)
            p.set_variable('vb', n)
            cases += 3
            r = p.parse('va+vb')
            if r['result'] != d + datetime.timedelta(days=n) and len(fails) < 5:
                fails.append({'formula': 'va+vb', 'bind': [repr(d), repr(n)], 'detail': 'expected the date %d days later, got %r' % (n, r)})
            r = p.parse('vb+va')
            if r['result'] != d + datetime.timedelta(days=n) and len(fails) < 5:
                fails.append({'formula': 'vb+va', 'bind': [repr(d), repr(n)], 'detail': 'number+date: got %r' % (r,)})
            r = p.parse('va-vb')
            if d - datetime.timedelta(days=n) < datetime.datetime(1900, 3, 1):
                continue     # serial 60 (Excel's 29 Feb 1900) has no calendar date: day arithmetic is claimed from 1 March 1900 on
            if r['result'] != d - datetime.timedelta(days=n) and len(fails) < 5:
                fails.append({'formula': 'va-vb', 'bind': [repr(d), repr(n)], 'detail': 'got %r' % (r,)})
    p.set_variable('va', datetime.datetime(1900, 1, 5))
    p.set_variable('vb', 100)
    cases += 1
    r = p.parse('va-vb')
    if r['error'] != '#NUM!' and len(fails) < 5:
        fails.append({'formula': 'va-vb', 'bind': ['1900-01-05', '100'], 'detail': 'a date before 1900 must be #NUM!, got %r' % (r,)})
    # arrays: element-wise with scalars and equal lengths, #VALUE! on a length mismatch
    for text, exp in (('{1,2,3}+1', [2, 3, 4]), ('1+{1,2,3}', [2, 3, 4]), ('{1,2,3}*{4,5,6}', [4, 10, 18]), ('10-{1,2}', [9, 8]), ('{8,6}/2', [4, 3]),
                      ('{1,2,3}+{1,2}', '#VALUE!'), ('{1,2}-{1,2,3}', '#VALUE!'), ('{{1,2};{3,4}}*2', None),
                      # a text scalar is ONE value, spelled with however many characters: it goes with every element
                      ('"12"+{1;2}', [13, 14]), ('{1;2;4}*"3"', [3, 6, 12]), ('{10,20}-"5"', [5, 15]), ('"100"/{1,2,4}', [100, 50, 25]), ('{1,2}+"1.5"', [2.5, 3.5]),
                      ('TRUE+{1,2}', [2, 3]), ('{1,2,3}*FALSE', [0, 0, 0])):
        cases += 1
        r = p.parse(text)
        ok = (r['error'] == exp) if isinstance(exp, str) else (exp is None or r['result'] == exp)
        if not ok and len(fails) < 5:
            fails.append({'formula': text, 'detail': 'expected %r got %r' % (exp, r)})
    # the same array object on both sides / used twice in one formula
    arr = [1, 2, 4]
    p.set_variable('va', arr)
    for text, exp in (('va*2+va', [3, 6, 12]), ('va+va', [2, 4, 8]), ('va-va', [0, 0, 0]), ('(va+1)*va', [2, 6, 20]), ('va/va', [1, 1, 1])):
        cases += 1
        r = p.parse(text)
        if (r['result'] != exp or arr != [1, 2, 4]) and len(fails) < 5:
            fails.append({'formula': text, 'bind': ['[1, 2, 4]'], 'detail': 'expected %r got %r; operand afterwards %r' % (exp, r, arr)})
            arr[:] = [1, 2, 4]
    # known finding: a one-element array operand broadcasts
    r = p.parse('{1,2}+{5}')
    known_e2e(report, 'C06-one-element-array-broadcast', r['error'] != '#VALUE!', '{1,2}+{5}',
              'a one-element array operand broadcasts like a scalar: {1,2}+{5} = %r instead of #VALUE!' % (r['result'],))
    bounded(report, 'C06.pairs', 'all ordered pairs from a 19-value typed pool x (+ - * / &), each evaluated twice over the same operand objects (operands compared with pristine copies), date +- n for 15 cases, 15 array forms (text and logical scalars against arrays), 5 formulas using one array object twice', cases, fails)


def replay(rp):
    print(rp)
    return 1
