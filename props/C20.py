# C20 -- event emitter: ordered delivery, exact unsubscription, once means once
import itertools
import random
from props.common import bounded

LEVEL_TEXT = ("[listener shapes include bound contexts: each listener is called with exactly its own keywords.]  "
              "Deductive over the abstract view name -> list of (callback, context): on appends and leaves everything else untouched; off(name) "
              "removes the name, off(name, cb) keeps exactly the other listeners in order and never raises; emit delivers to the listeners "
              "subscribed at its start, in order, with the emitted arguments - under a havoc of the listener table at every call-out (subscribe / "
              "unsubscribe / delete during delivery), which is what makes 'delivery over a snapshot' a proof obligation; once registers a wrapper "
              "that remembers the original callback.  Shapes: up to 3 listeners under the emitted name (callbacks, contexts, arguments arbitrary). "
              "Bounded: all operation sequences up to a length against a reference model, with re-entrant callbacks.")
TRUSTED = ['host callables carry no attribute named _ (only the emitter\'s own wrappers do)']


class Model(object):
    """ reference model of the statement """
    def __init__(self):
        self.t = {}

    def on(self, name, cb, ctx=None):
        self.t.setdefault(name, []).append({'cb': cb, 'ctx': ctx or {}, 'once': False, 'fired': False})
        return self

    def once(self, name, cb, ctx=None):
        self.t.setdefault(name, []).append({'cb': cb, 'ctx': ctx or {}, 'once': True, 'fired': False})
        return self

    def off(self, name, cb=None):
        if cb is None:
            self.t.pop(name, None)
        else:
            keep = [e for e in self.t.get(name, []) if e['cb'] != cb]
            if keep:
                self.t[name] = keep
            else:
                self.t.pop(name, None)
        return self

    def emit(self, name, *args):
        for e in list(self.t.get(name, [])):
            if e['once']:
                if e['fired']:
                    continue                  # once means once, also when a nested emit got there first
                e['fired'] = True
                lst = self.t.get(name, [])
                if e in lst:
                    lst2 = [x for x in lst if x is not e]
                    if lst2:
                        self.t[name] = lst2
                    else:
                        self.t.pop(name, None)
            e['cb'](*args, **e['ctx'])
        return self


def scenario(em, ops, log, depth_limit=2):
    """ run a sequence of operations; callbacks f, g are plain, h re-enters the emitter """
    state = {'depth': 0}

    def f(*a, **k):
        log.append(('f', a, tuple(sorted(k.items()))))

    class Handler(object):
        # g is a bound method: every `handler.g` is a new object that is equal to, but not the same object as, the one subscribed
        def g(self, *a, **k):
            log.append(('g', a, tuple(sorted(k.items()))))
    handler = Handler()

    class Fresh(dict):
        def __getitem__(self, key):
            return handler.g if key == 'g' else f
    cbs = Fresh()

    def make_h(action):
        def h(*a, **k):
            log.append(('h:' + action[0], a))
            if state['depth'] >= depth_limit:
                return
            state['depth'] += 1
            try:
                if action[0] == 'on':
                    em.on(action[1], f)
                elif action[0] == 'off':
                    em.off(action[1], handler.g)
                elif action[0] == 'offall':
                    em.off(action[1])
                elif action[0] == 'emit':
                    em.emit(action[1], 'nested')
            finally:
                state['depth'] -= 1
        return h
    hs = {}
    for pos, op in enumerate(ops):
        kind = op[0]
        if kind in ('on', 'once'):
            cb = op[2]
            if isinstance(cb, tuple):
                cb = hs.setdefault(cb, make_h(cb[1:]))
            else:
                cb = cbs[cb]
            if pos % 2 == 1:
                # every other subscription binds a context of its own: it must reach that listener and no other
                getattr(em, kind)(op[1], cb, {'c%d' % pos: pos})
            else:
                getattr(em, kind)(op[1], cb)
        elif kind == 'off':
            if op[2] is None:
                em.off(op[1])
            else:
                cb = op[2]
                cb = hs.get(cb) if isinstance(cb, tuple) else cbs[cb]
                if cb is not None:
                    em.off(op[1], cb)
        elif kind == 'emit':
            # the emitted arguments arrive as they are, whatever their number and shape (a single list is ONE argument)
            pattern = EMIT_ARGS[pos % len(EMIT_ARGS)]
            em.emit(op[1], *pattern)
    return log


EMIT_ARGS = [(1, 'x'), ([1, 2],), (), ((3, 4),), ({'k': 1},), (None,), ([],), ([1, 2], [3]), ('abc',)]


def all_ops():
    names = ['a', 'b']
    cbs = ['f', 'g', ('h', 'emit', 'a'), ('h', 'on', 'a'), ('h', 'off', 'a'), ('h', 'offall', 'a')]
    ops = []
    for n in names:
        for c in cbs:
            ops.append(('on', n, c))
            ops.append(('once', n, c))
        for c in ['f', 'g', None]:
            ops.append(('off', n, c))
        ops.append(('emit', n))
    return ops


def extra(report, env):
    from pyvc import native
    Emitter = native.real_function('hotxlfp.tinyemitter:Emitter')
    rng = random.Random(env['seed'])
    ops = all_ops()
    cases = 0
    fails = []

    def run(seq):
        l1, l2 = [], []
        try:
            scenario(Emitter(), seq, l1)
        except Exception as ex:
            l1.append(('EXC', type(ex).__name__))
        scenario(Model(), seq, l2)
        return l1, l2
    core = [o for o in ops if o[1] == 'a' or o[0] == 'emit']
    maxlen = 3 if env['tier'] == 'quick' else 4
    for n in range(1, maxlen + 1):
        for seq in itertools.product(core, repeat=n):
            if seq[-1][0] != 'emit':
                continue
            cases += 1
            l1, l2 = run(seq)
            if l1 != l2 and len(fails) < 5:
                fails.append({'ops': [list(map(str, o)) for o in seq], 'seq': repr(seq), 'detail': 'emitter log %r, reference model %r' % (l1, l2)})
    for _ in range(3000 if env['tier'] == 'quick' else 40000):
        seq = tuple(rng.choice(ops) for _ in range(rng.randint(2, 7))) + (('emit', rng.choice('ab')),)
        cases += 1
        l1, l2 = run(seq)
        if l1 != l2 and len(fails) < 5:
            fails.append({'ops': [list(map(str, o)) for o in seq], 'seq': repr(seq), 'detail': 'emitter log %r, reference model %r' % (l1, l2)})
    # events of one name never reach listeners of another - whatever the names look like
    odd_names = ['*', '', 'all', 'A', 'a', 'a ', 'a.b', 'a*', '__all__', 'error', 'None', 'callFunction', 'newListener', 'é']
    em = Emitter()
    seen = []
    for nm in odd_names:
        em.on(nm, lambda *a, _n=nm: seen.append(_n))
        em.once(nm, lambda *a, _n=nm: seen.append(_n + ' (once)'))
    for nm in odd_names:
        del seen[:]
        em.emit(nm, 1)
        em.emit(nm, 2)
        cases += 1
        want = [nm, nm + ' (once)', nm]
        if seen != want and len(fails) < 5:
            fails.append({'ops': ['on/once under %r' % odd_names, 'emit %r twice' % nm], 'seq': 'names', 'name': nm,
                          'detail': 'listeners called: %r, expected only those of %r: %r' % (seen, nm, want)})
    # bound contexts
    em = Emitter()
    got = []
    em.on('n', lambda *a, **k: got.append((a, k)), {'who': 'ctx'})
    em.emit('n', 1, 2)
    cases += 1
    if got != [((1, 2), {'who': 'ctx'})]:
        fails.append({'ops': ['on n with ctx', 'emit n 1 2'], 'seq': "ctx", 'detail': 'bound context not delivered: %r' % (got,)})
    bounded(report, 'C20.sequences', 'all sequences of <= %d operations over one name (20 operation kinds incl. re-entrant callbacks that subscribe, '
            'unsubscribe, clear or emit during delivery) ending in an emit, plus seeded sequences of <= 8 operations over two names, against a '
            'reference model' % maxlen, cases, fails, kind='sequence')


def replay(rp):
    from pyvc import native
    Emitter = native.real_function('hotxlfp.tinyemitter:Emitter')
    if rp.get('seq') == 'ctx':
        print(rp['detail'])
        return 1
    if rp.get('seq') == 'names':
        odd_names = ['*', '', 'all', 'A', 'a', 'a ', 'a.b', 'a*', '__all__', 'error', 'None', 'callFunction', 'newListener', 'é']
        em = Emitter()
        seen = []
        for nm in odd_names:
            em.on(nm, lambda *a, _n=nm: seen.append(_n))
            em.once(nm, lambda *a, _n=nm: seen.append(_n + ' (once)'))
        em.emit(rp['name'], 1)
        em.emit(rp['name'], 2)
        want = [rp['name'], rp['name'] + ' (once)', rp['name']]
        print('emit %r twice: listeners called %r, expected %r' % (rp['name'], seen, want))
        return 1 if seen != want else 0
    seq = eval(rp['seq'])
    l1, l2 = [], []
    scenario(Emitter(), seq, l1)
    scenario(Model(), seq, l2)
    print('operations:', seq)
    print('emitter        :', l1)
    print('reference model:', l2)
    return 1 if l1 != l2 else 0
