# C03 -- parser instances are isolated; evaluation is re-entrant and thread-independent
import ast
import os
import random
import threading
import sys
from props.common import table_obligations, bounded

LEVEL_TEXT = ("[bounded: also the fresh-process interference oracle - every outcome equals the outcome of the same formula in a freshly started "
              "process, whatever ran before or meanwhile on this or another parser.]  "
              "Frame obligations: every per-instance table (variables, functions, listeners, lexer, LR parser) is created fresh in __init__; no "
              "class-level mutable attribute; module state (the function registry) is written only by the decorators at import; call-site "
              "obligation at the PLY boundary: the lexer handed to LRParser.parse must be owned by the call (a clone made in the call) - with the "
              "argument omitted PLY uses the process-global ply.lex.lexer shared by all parsers, with self.lex it would be shared by nested "
              "evaluations on the same parser.  With these facts two evaluations have disjoint write footprints (meta-lemma M1); no schedule is "
              "explored by this family.  Bounded: nested evaluation at every call-out point (other parser / same parser, depth 2), threads.")
TRUSTED = ['PLY LRParser.parse/lex footprints as stated (assumed contract)', 'CPython does not tear operations on distinct objects (M1)',
           'no interleaving is explored: the claim rests on footprint disjointness']
CONTRACTS = ['Emitter_init']


def ply_call_obligations(repo):
    path = os.path.join(repo, 'hotxlfp', 'grammarparser', 'parser.py')
    tree = ast.parse(open(path, encoding='utf-8').read())
    out = []
    found = 0
    for n in ast.walk(tree):
        if isinstance(n, ast.Call) and isinstance(n.func, ast.Attribute) and n.func.attr == 'parse' and \
                isinstance(n.func.value, ast.Attribute) and n.func.value.attr == 'yacc':
            found += 1
            kw = {k.arg: k.value for k in n.keywords}
            lexer = kw.get('lexer') or (n.args[1] if len(n.args) > 1 else None)
            if lexer is None:
                out.append(('callpre.lexer-owned', False, 'self.yacc.parse(input) without lexer=: PLY falls back to the process-global ply.lex.lexer'))
            else:
                src = ast.unparse(lexer)
                fresh = isinstance(lexer, ast.Call) and isinstance(lexer.func, ast.Attribute) and lexer.func.attr == 'clone'
                out.append(('callpre.lexer-owned', fresh, 'lexer argument %s is not a clone made in the call (shared between nested evaluations)' % src))
    out.append(('callpre.ply-call-site-found', found == 1, '%d call sites of self.yacc.parse' % found))
    # __init__ of both Parser classes: per-instance state assigned from fresh expressions
    return out


def init_obligations(repo):
    from pyvc import frame
    out = []
    for rel, qual, node, cls, tree in frame.walk_functions(repo):
        if node.name != '__init__' or cls not in ('Parser', 'Emitter', 'FormulaParser'):
            continue
        for n in ast.walk(node):
            if isinstance(n, ast.Assign):
                for t in n.targets:
                    if isinstance(t, ast.Attribute) and isinstance(t.value, ast.Name) and t.value.id == 'self':
                        o = frame.owner_of(n.value, {a.arg: 'Host' for a in node.args.args}, False)
                        if t.attr in ('variables', 'functions', '_e', 'lex', 'yacc', 'names', 'parser'):
                            out.append(('init.%s.%s.%s-fresh' % (rel, cls, t.attr), o in ('Fresh',) or isinstance(n.value, ast.Call),
                                        'per-instance table assigned from a non-fresh expression (%s)' % o))
    out.append(('init.enumerated', len(out) >= 6, '%d per-instance tables' % len(out)))
    return out


def global_write_obligations(repo):
    from pyvc import frame
    out = []
    for s in frame.all_sinks(repo):
        if s.owner == 'Global':
            out.append(('module-state.' + s.name, False, 'module level state written in a function at line %d' % s.line))
    out.append(('module-state.checked', True, ''))
    out.extend(frame.module_state(repo))
    out.extend(frame.mutable_defaults(repo))
    out.extend(frame.process_state_writes(repo))
    # a value that came from the host (a callback, a list) may be registered with several parsers: writing to it is a channel between them
    for s in frame.all_sinks(repo):
        if s.owner in ('Host', 'FreshElem') and not s.ok:
            out.append(('host-object-write.' + s.name, False, 'line %d writes to an object that came from the host (%s)' % (s.line, s.note)))
    return out


def extra(report, env):
    from pyvc import e2e
    repo = env['repo']
    table_obligations(report, 'C03', ply_call_obligations(repo) + init_obligations(repo) + global_write_obligations(repo))
    rng = random.Random(env['seed'])
    cases = 0
    fails = []
    formulas = ['1+2*3', 'SUM(1,2,3)&"x"', 'IF(2>1,"y","n")', '{1,2;3,4}', 'x*2', 'A1+B2', 'MAX(A1:B2)', '1/0', 'nosuch', 'LEFT("hello",2)', '((', '3%']

    def mk(tag):
        q = e2e.new_parser()
        q.set_variable('x', 21)
        q.on('callCellValue', lambda cell, setter: setter(10))
        q.on('callRangeValue', lambda a, b, setter: setter([1, 5, 3]))
        return q
    solo = {f: mk('s').parse(f) for f in formulas}
    # --- nesting: a complete inner evaluation at every call-out point of the outer one
    for outer_f in ['EVAL()+x', 'SUM(1,EVAL(),3)', 'IF(EVAL()>0,A1,2)', 'x+1', 'A1*2', 'MAX(A1:B2)+1', 'EVAL()&EVAL()']:
        for inner_f in formulas:
            for same in (False, True):
                for hook in ('function', 'callVariable', 'callCellValue', 'callRangeValue', 'callFunction'):
                    outer = mk('o')
                    inner = outer if same else mk('i')
                    got = []

                    def run_inner(*a, _inner=inner, _f=inner_f, _got=got):
                        _got.append(_inner.parse(_f))
                        return 4
                    outer.set_function('EVAL', (lambda: run_inner()) if hook == 'function' else (lambda: 4))
                    if hook != 'function':
                        state = {'busy': False}

                        def listener(*a, _s=state):
                            if _s['busy']:
                                return
                            _s['busy'] = True
                            try:
                                run_inner()
                            finally:
                                _s['busy'] = False
                        outer.on(hook, listener)
                    ref = mk('r')
                    ref.set_function('EVAL', lambda: 4)
                    expect = ref.parse(outer_f)
                    cases += 1
                    r = outer.parse(outer_f)
                    bad = None
                    if repr(r) != repr(expect):
                        bad = 'outer evaluation %r: %r, alone: %r' % (outer_f, r, expect)
                    for g in got:
                        if repr(g) != repr(solo[inner_f]):
                            bad = 'inner evaluation %r: %r, alone: %r' % (inner_f, g, solo[inner_f])
                    if bad and len(fails) < 5:
                        fails.append({'formula': outer_f, 'inner': inner_f, 'same_parser': same, 'hook': hook, 'detail': bad})
    # --- registrations are invisible to other parsers
    a, b = e2e.new_parser(), e2e.new_parser()
    a.set_variable('only_a', 1)
    a.set_function('ONLYA', lambda: 1)
    hits = []
    a.on('callVariable', lambda *x: hits.append(x))
    cases += 3
    if b.parse('only_a')['error'] != '#NAME?' or b.parse('ONLYA()')['error'] != '#NAME?':
        fails.append({'formula': 'only_a', 'detail': 'a binding of one parser is visible on another'})
    b.set_variable('y', 2)
    b.parse('y')
    if hits:
        fails.append({'formula': 'y', 'detail': 'a listener of one parser was called by another'})
    # --- threads on distinct parsers
    old = sys.getswitchinterval()
    sys.setswitchinterval(1e-6)
    errors = []
    try:
        def worker(seed):
            rr = random.Random(seed)
            q = mk('t')
            for _ in range(200 if env['tier'] == 'quick' else 2000):
                f = rr.choice(formulas)
                r = q.parse(f)
                if repr(r) != repr(solo[f]):
                    errors.append({'formula': f, 'detail': 'in a thread: %r, alone: %r' % (r, solo[f])})
                    return
        ts = [threading.Thread(target=worker, args=(env['seed'] * 10 + i,)) for i in range(4)]
        for t in ts:
            t.start()
        for t in ts:
            t.join()
    finally:
        sys.setswitchinterval(old)
    cases += 4 * (200 if env['tier'] == 'quick' else 2000)
    fails.extend(errors[:2])
    interference(report, env, 'C03')
    bounded(report, 'C03.nesting-threads', '7 outer x 12 inner formulas x {other parser, same parser} x 5 call-out points (depth 2); 4 threads x distinct '
            'parsers with switch interval 1e-6 (a sample of schedules, not an exploration)', cases, fails)


def interference(report, env, prop):
    """ outcome of every evaluation = its outcome in a process that evaluated nothing else, whatever was evaluated before / meanwhile on
        this or another parser (fresh-process oracle: pyvc.e2e_fresh) """
    import random as _r
    from pyvc import e2e
    from props.common import bounded as _b
    cases, fails = e2e.check_interference(_r.Random(env['seed'] + 7), env['tier'], env['scratch'])
    _b(report, prop + '.interference', 'every ordered pair of %d formulas (second after first, on another parser) and seeded interleavings of 2..7 '
       'evaluations over 3 parsers, 30%% of them with a nested evaluation in the middle, each outcome compared with the outcome of the same formula in a '
       'freshly started process' % len(e2e.INTERFERENCE_FORMULAS), cases, fails)


def replay(rp):
    if rp.get('interference'):
        from pyvc import e2e
        r = e2e.replay_formula(rp)
        return 0 if isinstance(r, dict) else 1
    print(rp)
    return 1
