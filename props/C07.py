# C07 -- comparisons form a consistent total order with number < text < logical
LEVEL_TEXT = ("Deductive: every comparison method of ExcelComparator and evaluate_logic (6 operators) is verified path by path "
              "against the rank order of the statement for all scalar operands; trichotomy, symmetry, class order and transitivity "
              "are lemmas over the spec order.  Dates enter through the serial (C13 contract of serialize_date).")
TRUSTED = ['CPython comparison semantics on int/float/str/bool as encoded in pyvc.ops', 'z3 5.1 (strings: str.<, reals)']
