# C07 -- comparisons form a consistent total order with number < text < logical
LEVEL_TEXT = ("Deductive: every comparison method of ExcelComparator and evaluate_logic (6 operators) is verified path by path "
              "against the rank order of the statement for all scalar operands; trichotomy, symmetry, class order and transitivity "
              "are lemmas over the spec order.  Dates enter through the serial (C13 contract of serialize_date).")
TRUSTED = ['CPython comparison semantics on int/float/str/bool as encoded in pyvc.ops', 'z3 5.1 (strings: str.<, reals)']


def order_case(values, i, j):
    """ the six operators on values[i], values[j] (bound to variables) through Parser.parse; '' or what is wrong """
    from pyvc import e2e
    p = e2e.new_parser()
    p.set_variable('va', values[i])
    p.set_variable('vb', values[j])
    r = {}
    for op in ('<', '=', '>', '<=', '>=', '<>'):
        a = p.parse('va%svb' % op)
        b = p.parse('vb%sva' % op)
        if a['error'] is not None or b['error'] is not None or not isinstance(a['result'], bool) or not isinstance(b['result'], bool):
            return 'va%svb -> %r, vb%sva -> %r' % (op, a, op, b)
        r[op] = a['result']
        r['rev' + op] = b['result']
    if [r['<'], r['='], r['>']].count(True) != 1:
        return 'not exactly one of <, =, > : %r' % ({k: r[k] for k in ('<', '=', '>')},)
    if r['<='] != (r['<'] or r['=']) or r['>='] != (r['>'] or r['=']) or r['<>'] != (not r['=']):
        return '<=, >=, <> are not the derived relations: %r' % (r,)
    if r['<'] != r['rev>'] or r['>'] != r['rev<'] or r['='] != r['rev=']:
        return 'a<b iff b>a fails: %r' % (r,)
    return ''


class Level(int):
    """ a number carried by a subclass of int (what enum.IntEnum members, numpy integers ... are) """


class Money(float):
    """ a number carried by a subclass of float """


def rank(v):
    import datetime
    if isinstance(v, bool):
        return 2
    if isinstance(v, str):
        return 1
    if isinstance(v, (int, float, datetime.datetime)):
        return 0
    return None


def extra(report, env):
    """ the order of the statement end to end, with near-ties: numbers that differ in the last bits, dates a second apart, text that spells
        dates or numbers, every class against every class, transitivity on seeded triples """
    import datetime
    import itertools
    import random
    from pyvc import e2e, native
    from props.common import bounded
    rng = random.Random(env['seed'])
    ser = native.real_function('hotxlfp.formulas.utils:serialize_date')
    d0 = datetime.datetime(2019, 11, 20)
    values = [0, 1, -1, 0.3, 0.1 + 0.2, 1 / 3, 2 / 3, 1 - 2 / 3, 1e16, 1e16 + 2, 43789, 43789.0, 43789.00001, 50000, 1e-300, -1e-300,
              d0, d0 + datetime.timedelta(seconds=1), d0 + datetime.timedelta(milliseconds=2), datetime.datetime(1900, 3, 1), datetime.datetime(9999, 12, 31),
              datetime.datetime(1900, 1, 1), datetime.datetime(1900, 1, 1, 12), datetime.datetime(1899, 12, 31, 12), datetime.datetime(1899, 12, 30), datetime.datetime(1800, 1, 1), 0.25, 0.75,
              '', 'a', 'A', 'b', 'ab', '2019-01-01', '2019-11-20', '50000', '12', 'TRUE', 'z', 'é',
              True, False, None,
              Level(3), Level(-1), Money(2.25), Money(43789.0)]          # numbers are numbers whatever class carries them
    cases = 0
    fails = []

    def key(v):
        # the order of the statement on non-blank values: class rank, then numeric value (dates by serial) / text (case-insensitively, as the
        # comparison of the library is documented) / FALSE < TRUE
        if isinstance(v, bool):
            return (2, int(v))
        if isinstance(v, str):
            return (1, v)
        if isinstance(v, datetime.datetime):
            return (0, ser(v))
        return (0, v)
    n = len(values)
    lt = {}
    for i in range(n):
        for j in range(n):
            cases += 1
            bad = order_case(values, i, j)
            if bad and len(fails) < 5:
                fails.append({'formula': 'va ? vb', 'order_case': [i, j], 'detail': 'va = %r, vb = %r: %s' % (values[i], values[j], bad)})
                continue
            a, b = values[i], values[j]
            if a is None or b is None or bad:
                continue
            p = e2e.new_parser()
            p.set_variable('va', a)
            p.set_variable('vb', b)
            got = p.parse('va<vb')['result']
            lt[(i, j)] = got
            ra, rb = rank(a), rank(b)
            want = None
            if ra != rb:
                want = ra < rb                  # every number or date < every text < every logical
            elif ra in (0, 2):
                want = key(a) < key(b)          # numbers and dates numerically (dates by serial), FALSE < TRUE
            if want is not None and got is not want and len(fails) < 5:
                fails.append({'formula': 'va<vb', 'order_case': [i, j], 'detail': 'va = %r, vb = %r: va<vb is %r, the order of the statement says %r' % (a, b, got, want)})
    # transitivity on non-blank values
    idx = [i for i in range(n) if values[i] is not None]
    for _ in range(3000 if env['tier'] == 'quick' else 40000):
        i, j, k = rng.choice(idx), rng.choice(idx), rng.choice(idx)
        cases += 1
        if lt.get((i, j)) and lt.get((j, k)) and not lt.get((i, k)) and len(fails) < 5:
            fails.append({'formula': 'va<vb', 'order_case': [i, k], 'detail': '%r < %r and %r < %r but not %r < %r' % (values[i], values[j], values[j], values[k], values[i], values[k])})
    bounded(report, 'C07.order', 'all ordered pairs of %d values (numbers differing in the last bits, dates a second / 2 ms apart and at both ends of the range, text '
            'spelling dates and numbers, logicals, blank): exactly one of < = >, derived relations, a<b iff b>a, the class order and the numeric order of '
            'the statement; transitivity on seeded triples' % n, cases, fails)


def replay(rp):
    print(rp.get('detail'))
    return 1
