# C13 -- date serial numbers: invertible, monotone, Excel 1900 system
import datetime
import random
from props.common import bounded

LEVEL_TEXT = ("Deductive (dates as real microsecond counts, arithmetic over the reals - flagged): serialize_date against the statement's serial "
              "(days since 1899-12-30 from 1 March 1900 on), parse_date against the inverse, epoch_seconds; lemmas: round trips, strict "
              "monotonicity, additivity; consumers: the comparator (convert_other and the five rich comparisons see the serial, whatever the number "
              "type on the other side), DATEVALUE, DAYS.  Bounded (native floats): every calendar day, seeded millisecond date-times, every "
              "integer serial; end to end: date +/- n, date - date, N, DAYS, DATEVALUE and 6 comparison operators x 7 numbers around the serial "
              "(int and float, either side) on seeded date-times.")
TRUSTED = ['datetime/timedelta arithmetic (civil <-> ordinal), microsecond rounding of timedelta(seconds=float)', 'machine arithmetic treated as mathematical']


def extra(report, env):
    from props.C14 import tz_obligations
    tz_obligations(report, env, 'C13')
    from pyvc import native
    ser = native.real_function('hotxlfp.formulas.utils:serialize_date')
    par = native.real_function('hotxlfp.formulas.utils:parse_date')
    rng = random.Random(env['seed'])
    d0 = datetime.datetime(1900, 1, 1)
    base = datetime.datetime(1899, 12, 30)
    march = datetime.datetime(1900, 3, 1)
    last = datetime.datetime(9999, 12, 31) if env['tier'] == 'thorough' else datetime.datetime(2400, 12, 31)
    cases = 0
    fails = []
    prev = None
    d = d0
    one = datetime.timedelta(days=1)
    while d <= last:
        s = ser(d)
        cases += 1
        bad = None
        if prev is not None and not s > prev:
            bad = 'serial does not increase: %r then %r' % (prev, s)
        if d >= march and s != (d - base).days:
            bad = 'serial %r is not the number of days since 1899-12-30 (%d)' % (s, (d - base).days)
        back = par(s)
        if back != d:
            bad = 'serial %r converts back to %r' % (s, back)
        if d >= march and ser(par((d - base).days)) != (d - base).days:
            bad = 'serial -> date -> serial is not the identity at %d' % (d - base).days
        if bad and len(fails) < 5:
            fails.append({'date': d.isoformat(), 'detail': bad})
        prev = s
        if d == last:
            break                      # 9999-12-31 + 1 day does not exist
        d += one
    for _ in range(20000 if env['tier'] == 'quick' else 200000):
        dt = d0 + datetime.timedelta(days=rng.randrange(0, 2958000), milliseconds=rng.randrange(0, 86400000))
        cases += 1
        back = par(ser(dt))
        if abs((back - dt).total_seconds()) > 0.0005 and len(fails) < 5:
            fails.append({'date': dt.isoformat(), 'detail': 'round trip off by %s' % (back - dt)})
    bounded(report, 'C13.calendar', 'every calendar day 1900-01-01..%s (strictly increasing, = days since 1899-12-30 from 1 March 1900, round trips both '
            'ways), seeded millisecond date-times (round trip within 0.5 ms)' % last.date().isoformat(), cases, fails, kind='date', exhaustive=False)


    consumers(report, env, rng)


class Stamp(datetime.datetime):
    """ a datetime subclass, as pandas.Timestamp and friends are """


def consumers(report, env, rng):
    """ C13's last sentence end to end: +, -, DATEVALUE, N, DAYS and the six comparison operators see the serial of the statement """
    from pyvc import e2e
    base = datetime.datetime(1899, 12, 30)
    p = e2e.new_parser()
    cases = 0
    fails = []

    def serial(d):
        return (d - base).days + (d - datetime.datetime(d.year, d.month, d.day)).total_seconds() / 86400.0

    def note(text, binds, detail):
        if len(fails) < 5:
            fails.append({'formula': text, 'bindings': binds, 'detail': detail})
    for _it in range(150 if env['tier'] == 'quick' else 3000):
        # time of day a multiple of 1/8 day: its serial is an exact float, comparisons with it are exact
        d = datetime.datetime(1900, 3, 1) + datetime.timedelta(days=rng.randrange(0, 2957000), hours=rng.choice([0, 0, 3, 6, 12, 18, 21]))
        e = d + datetime.timedelta(days=rng.randrange(0, 400), hours=rng.choice([0, 6, 12]))
        s, se = serial(d), serial(e)
        binds = {'d': d.isoformat(), 'e': e.isoformat()}
        if _it % 3 == 2:
            # a date-time handed over as an instance of a datetime subclass (what data libraries return) is a date-time like any other
            d = Stamp(d.year, d.month, d.day, d.hour, d.minute, d.second)
            e = Stamp(e.year, e.month, e.day, e.hour, e.minute, e.second)
            binds['subclass'] = True
        p.set_variable('d', d)
        p.set_variable('e', e)
        n = rng.choice([0, 1, 30, 365, 0.25, 1.5, rng.randrange(0, 1000)])
        for text, want in (('d+%s' % n, d + datetime.timedelta(days=n)), ('%s+d' % n, d + datetime.timedelta(days=n)), ('e-%s' % n, e - datetime.timedelta(days=n)),
                           ('e-d', se - s), ('N(d)', s), ('DAYS(e,d)', se - s), ('DATEVALUE("%s")' % d.date().isoformat(), float(int(s)))):
            cases += 1
            r = p.parse(text)
            got = r['result']
            if isinstance(want, datetime.datetime):
                ok = isinstance(got, datetime.datetime) and abs((got - want).total_seconds()) < 0.001
            else:
                ok = r['error'] is None and isinstance(got, (int, float)) and not isinstance(got, bool) and abs(got - want) < 1e-6
            if not ok:
                note(text, binds, 'expected %r got %r' % (want, r))
        # numbers around the serial, as integer and as float, on either side of each comparison operator
        ks = [int(s), int(s) + 1, int(s) - 1, float(int(s)), s, s + 0.125, s - 0.125]
        for k in ks:
            p.set_variable('k', k)
            for op, f in (('<', lambda a, b: a < b), ('>', lambda a, b: a > b), ('=', lambda a, b: a == b), ('<>', lambda a, b: a != b),
                          ('<=', lambda a, b: a <= b), ('>=', lambda a, b: a >= b)):
                for text, want in (('k%sd' % op, f(k, s)), ('d%sk' % op, f(s, k)), ('%r%sd' % (k, op), f(k, s))):
                    cases += 1
                    r = p.parse(text)
                    if r['result'] is not want:
                        note(text, dict(binds, k=repr(k)), 'the serial of d is %r: expected %r got %r' % (s, want, r))
        # serials increase strictly with time: date-times a second / a millisecond apart are different under every operator
        for gap in (datetime.timedelta(seconds=1), datetime.timedelta(milliseconds=1), datetime.timedelta(minutes=1)):
            p.set_variable('g', d + gap)
            for text, want in (('d<g', True), ('d=g', False), ('d<>g', True), ('d>=g', False), ('g>d', True), ('g<=d', False), ('g=d', False), ('N(g)>N(d)', True)):
                cases += 1
                r = p.parse(text)
                if r['result'] is not want:
                    note(text, dict(binds, g=(d + gap).isoformat()), 'g is %s later than d: expected %r got %r' % (gap, want, r))
        for op, f in (('<', lambda a, b: a < b), ('=', lambda a, b: a == b), ('>=', lambda a, b: a >= b)):
            cases += 1
            r = p.parse('d%se' % op)
            if r['result'] is not f(s, se):
                note('d%se' % op, binds, 'expected %r got %r' % (f(s, se), r))
    bounded(report, 'C13.consumers', 'seeded date-times from 1 March 1900 on (time of day in eighths of a day) through Parser.parse: date +/- n, date - date, '
            'N, DAYS, DATEVALUE against the serial of the statement; 7 numbers around the serial (int and float) x 6 comparison operators x '
            '{variable left, variable right, literal left}; date against date; date-times 1 ms / 1 s / 1 min apart under every operator', cases, fails)


def replay(rp):
    if rp.get('formula'):
        from pyvc import e2e
        import datetime as _dt
        p = e2e.new_parser()
        for k, v in (rp.get('bindings') or {}).items():
            p.set_variable(k, _dt.datetime.fromisoformat(v) if k in ('d', 'e', 'g') else eval(v))
        print('parse(%r) with %r -> %r ; %s' % (rp['formula'], rp.get('bindings'), p.parse(rp['formula']), rp['detail']))
        return 1
    from pyvc import native
    import datetime
    ser = native.real_function('hotxlfp.formulas.utils:serialize_date')
    par = native.real_function('hotxlfp.formulas.utils:parse_date')
    d = datetime.datetime.fromisoformat(rp['date'])
    print('serialize_date(%s) = %r ; parse_date of it = %r ; %s' % (d, ser(d), par(ser(d)), rp['detail']))
    return 1
