# C13 -- date serial numbers: invertible, monotone, Excel 1900 system
import datetime
import random
from props.common import bounded

LEVEL_TEXT = ("Deductive (dates as real microsecond counts, arithmetic over the reals - flagged): serialize_date against the statement's serial "
              "(days since 1899-12-30 from 1 March 1900 on), parse_date against the inverse, epoch_seconds; lemmas: round trips, strict "
              "monotonicity, additivity; consumers (comparator, arithmetic table, DATEVALUE, DAYS, N) use that serial.  Bounded (native floats): "
              "every calendar day, seeded millisecond date-times, every integer serial.")
TRUSTED = ['datetime/timedelta arithmetic (civil <-> ordinal), microsecond rounding of timedelta(seconds=float)', 'machine arithmetic treated as mathematical']


def extra(report, env):
    from pyvc import native
    ser = native.real_function('hotxlfp.formulas.utils:serialize_date')
    par = native.real_function('hotxlfp.formulas.utils:parse_date')
    rng = random.Random(env['seed'])
    d0 = datetime.datetime(1900, 1, 1)
    base = datetime.datetime(1899, 12, 30)
    march = datetime.datetime(1900, 3, 1)
    last = datetime.datetime(9999, 12, 31) if env['tier'] == 'thorough' else datetime.datetime(2400, 12, 31)
    cases = 0
    fails = []
    prev = None
    d = d0
    one = datetime.timedelta(days=1)
    while d <= last:
        s = ser(d)
        cases += 1
        bad = None
        if prev is not None and not s > prev:
            bad = 'serial does not increase: %r then %r' % (prev, s)
        if d >= march and s != (d - base).days:
            bad = 'serial %r is not the number of days since 1899-12-30 (%d)' % (s, (d - base).days)
        back = par(s)
        if back != d:
            bad = 'serial %r converts back to %r' % (s, back)
        if d >= march and ser(par((d - base).days)) != (d - base).days:
            bad = 'serial -> date -> serial is not the identity at %d' % (d - base).days
        if bad and len(fails) < 5:
            fails.append({'date': d.isoformat(), 'detail': bad})
        prev = s
        d += one
    for _ in range(20000 if env['tier'] == 'quick' else 200000):
        dt = d0 + datetime.timedelta(days=rng.randrange(0, 2958000), milliseconds=rng.randrange(0, 86400000))
        cases += 1
        back = par(ser(dt))
        if abs((back - dt).total_seconds()) > 0.0005 and len(fails) < 5:
            fails.append({'date': dt.isoformat(), 'detail': 'round trip off by %s' % (back - dt)})
    bounded(report, 'C13.calendar', 'every calendar day 1900-01-01..%s (strictly increasing, = days since 1899-12-30 from 1 March 1900, round trips both '
            'ways), seeded millisecond date-times (round trip within 0.5 ms)' % last.date().isoformat(), cases, fails, kind='date', exhaustive=False)


def replay(rp):
    from pyvc import native
    import datetime
    ser = native.real_function('hotxlfp.formulas.utils:serialize_date')
    par = native.real_function('hotxlfp.formulas.utils:parse_date')
    d = datetime.datetime.fromisoformat(rp['date'])
    print('serialize_date(%s) = %r ; parse_date of it = %r ; %s' % (d, ser(d), par(ser(d)), rp['detail']))
    return 1
