# C02 -- evaluation is a pure, repeatable function of formula and registered bindings
import copy
import gc
import random
from props.common import table_obligations, bounded, known_e2e

LEVEL_TEXT = ("Frame (ownership) analysis over every function of hotxlfp/**: one obligation per mutation sink (in-place list/dict methods, item "
              "and attribute stores, del, global) - its target must be created in the function (Fresh), be the production object of a grammar "
              "action (ParseOwned) or be self inside a registration method; host values and module state are never written.  Table: clock / "
              "random sources are read only in NOW, TODAY, RAND, RANDBETWEEN (dateutil's default-date = known finding); every `raise` of a shared "
              "object is listed and parse() must leave no traceback on the shared error values.  Deductive: the record Parser.parse returns is a "
              "function of the grammar parser's outcome alone (value / error value / exception text; ghost log of the callee outcome) - so not "
              "of self.debug, which only adds a stderr write.  History independence follows from the frames (nothing persistent is written) plus PLY's "
              "assumed per-call state; bounded: seeded histories against a fresh parser, host list deep-copies, traceback retention.")
TRUSTED = ['PLY resets lexer position and builds fresh stacks per parse call (assumed)', 'the analysis is syntactic and conservative: unknown owner = host']
CONTRACTS = ['Parser_parse', 'flatten', 'p_expseq_comma', 'p_expseq_semicolon', 'p_expseq_backslash', 'clear_tracebacks', 'LARGE']


def extra(report, env):
    from pyvc import frame, e2e
    repo = env['repo']
    res = []
    for s in frame.all_sinks(repo):
        res.append(('frame.' + s.name, s.ok, 'mutation sink at line %d targets %s (%s)' % (s.line, s.owner, s.note)))
    res.append(('frame.sinks-enumerated', len(res) > 50, '%d sinks' % len(res)))
    res.extend(frame.module_state(repo))
    res.extend(frame.mutable_defaults(repo))
    res.extend(frame.process_state_writes(repo))
    known_clock = None
    for name, ok, detail in frame.clock_reads(repo):
        if not ok and name.endswith('parse_date.reads.dateutil-default'):
            known_clock = (name, detail)
            continue
        res.append(('reads.' + name, ok, detail))
    shared = [r for r in frame.raise_sites(repo) if not r['fresh']]
    res.append(('raise-sites-enumerated', len(shared) >= 1, '%d raise sites of shared objects: %s' % (len(shared), [r['site'] for r in shared])))
    table_obligations(report, 'C02', res)
    rng = random.Random(env['seed'])
    cases = 0
    fails = []
    from hotxlfp.formulas import error
    # --- known finding: dateutil reads the clock
    if known_clock is not None:
        import datetime
        p = e2e.new_parser()
        r = p.parse('DAY("March 2021")')
        known_e2e(report, 'C02-dateutil-clock', True, 'DAY("March 2021")',
                  'dateutil.parser.parse fills missing date fields from today: DAY("March 2021") = %r depends on the current date' % (r['result'],))
    # --- histories: outcome after any history = outcome on a fresh parser
    formulas = ['1+2*3', 'SUM(A1:B2)', 'x&"a"', 'IF(x>1,"y","n")', '1/0', 'nosuch', 'NOSUCH(1)', '((', 'SUM(1/0)', '"abc', 'MYF(1)', 'BOOM()', '{1,2;3,4}',
                'INDEX({1,2,3},2)', 'A1+$B$2', 'TRIM("  a  b ")', '-x', '#N/A', 'DATE(2020,1,31)+1', 'LARGE(lst,2)', 'MEDIAN(lst)', 'SUM(lst,lst)',
                'RAISE("#N/A")', 'IFNA(RAISE("#N/A"),1)', 'RAISE("#GETTING_DATA",1)', 'ISNA(RAISE("#N/A",3))', 'RAISE("#DIV/0!",2)', 'RAISE()+1',
                '1 2 ~', '#REF! + ~', 'MYF(1) + ~', 'A1 + ~', '1/0 + ~', 'x ~', '~', '"abc ~', 'BOOM() + ~', 'SUM(A1:B2) ~ 1', '1 + ~ + MYF(2)',
                'IFERROR(RAISE("#NUM!",1),RAISE("#REF!"))', 'ERROR.TYPE(RAISE("#VALUE!"))', 'SUM(1,RAISE("#NULL!",3))', 'SQRT(0-1)', 'RAISE(,9)']

    def mk():
        q = e2e.new_parser()
        q.set_variable('x', 3)
        q.set_variable('lst', [5, 1, 4, [2, 9]])
        q.set_function('MYF', lambda a: a * 2)

        def boom():
            raise RuntimeError('boom')
        q.set_function('BOOM', boom)

        def raiser(text=None, kind=0):
            # an ordinary exception (or an error value) whose text may spell an error code
            raise [ValueError, RuntimeError, KeyError, error.XLError][int(kind)](*([] if text is None else [text]))
        q.set_function('RAISE', raiser)
        q.on('callCellValue', lambda cell, setter: setter(cell.row.index + cell.col.index))
        q.on('callRangeValue', lambda a, b, setter: setter([[1, 2], [3, 4]]))
        return q
    fresh = {f: mk().parse(f) for f in formulas}
    for _ in range(150 if env['tier'] == 'quick' else 1500):
        q = mk()
        hist = [rng.choice(formulas) for _ in range(rng.randint(1, 6))]
        for h in hist:
            q.parse(h)
        probe = rng.choice(formulas)
        cases += 1
        r = q.parse(probe)
        if repr(r) != repr(fresh[probe]) and len(fails) < 5:
            fails.append({'formula': probe, 'history': hist, 'detail': 'after history %r: %r, on a fresh parser: %r' % (hist, r, fresh[probe])})
    # --- debug on/off
    import io
    import contextlib
    for f in formulas:
        a = mk()
        b = mk()
        b.debug = True
        la, lb = [], []
        for q, lg in ((a, la), (b, lb)):
            # what the host gets to see (events, in order) is part of the outcome
            q.on('callFunction', lambda name, args, setter, _l=lg: _l.append(('fn', name)))
            q.on('callVariable', lambda name, setter, _l=lg: _l.append(('var', name)))
            q.on('callCellValue', lambda cell, setter, _l=lg: _l.append(('cell', cell.label)))
            q.on('callRangeValue', lambda c1, c2, setter, _l=lg: _l.append(('range', c1.label, c2.label)))
        with contextlib.redirect_stderr(io.StringIO()):
            rb = b.parse(f)
        ra = a.parse(f)
        cases += 1
        if (repr(ra) != repr(rb) or la != lb) and len(fails) < 5:
            fails.append({'formula': f, 'detail': 'debug changes the outcome: %r with events %r vs %r with events %r' % (ra, la, rb, lb)})
    # --- host values are never mutated
    hosts = [[3, 1, 2], [[3, 1], [2, 9]], ['b', 'a', None], [5, [4, [3, [2]]]], [2.5, 1, 7, 7]]
    funcs = ['SUM', 'LARGE2', 'MEDIAN', 'MAX', 'MIN', 'AVERAGE', 'COUNT', 'CONCATENATE', 'AND', 'OR', 'INDEX2', 'MATCH2', 'TEXTJOIN2', 'PRODUCT', 'MODE',
             'STDEV', 'VAR', 'AVEDEV', 'COUNTA', 'SUMIF2', 'COUNTIF2', 'plus', 'amp', 'cmp', 'XOR', 'SLOPE', 'SUMIFS2', 'AVERAGEIFS2', 'MAXIFS2', 'TEXTJOIN3',
             'times', 'SUMPRODUCT2']
    for h in hosts:
        for fn in funcs:
            q = e2e.new_parser()
            before = copy.deepcopy(h)
            q.set_variable('h', h)
            q.on('callRangeValue', lambda a, b, setter, _h=h: setter(_h))
            text = {'LARGE2': 'LARGE(h,1)', 'INDEX2': 'INDEX(h,1)', 'MATCH2': 'MATCH(1,h,0)', 'TEXTJOIN2': 'TEXTJOIN(",",TRUE,h)', 'SUMIF2': 'SUMIF(h,">1")',
                    'COUNTIF2': 'COUNTIF(h,">1")', 'plus': 'h+1', 'amp': 'h&"a"', 'cmp': 'h=1', 'SUMIFS2': 'SUMIFS(h,ones,">0")',
                    'AVERAGEIFS2': 'AVERAGEIFS(h,ones,">0")', 'MAXIFS2': 'MAXIFS(h,ones,">0")', 'TEXTJOIN3': 'TEXTJOIN("",FALSE,h,h)', 'times': 'h*h',
                    'SUMPRODUCT2': 'SUMIFS(h,ones,">0",ones,"1")'}.get(fn, '%s(h,A1:B2)' % fn)
            q.set_variable('ones', [1] * len(h))
            q.parse(text)
            cases += 1
            if h != before and len(fails) < 5:
                fails.append({'formula': text, 'detail': 'host list mutated: %r -> %r' % (before, h)})
    # --- no memory retained per evaluation: traceback chains on the shared error values stay empty
    q = mk()

    def tblen(e):
        n, tb = 0, e.__traceback__
        while tb is not None:
            n, tb = n + 1, tb.tb_next
        return n
    names = ['ERROR', 'DIV_ZERO', 'NAME', 'NOT_AVAILABLE', 'NULL', 'NUM', 'REF', 'VALUE', 'DATA']
    sizes = []
    for rnd in range(3):
        for _ in range(100):
            for f in ('nosuch+1', 'SUM(1/0)', '#REF!', 'CONCATENATE(1/0)', 'NOSUCH(1)', '((', 'BOOM()', 'SQRT(-1)', '1/0', '"unterminated'):
                q.parse(f)
        gc.collect()
        sizes.append(sum(tblen(getattr(error, n)) for n in names))
        cases += 1
    if sizes[-1] > 0 and len(fails) < 5:
        fails.append({'formula': 'nosuch+1 (repeated)', 'detail': 'traceback entries retained on the shared error values after 100/200/300 rounds: %r' % (sizes,)})
    # ... and after SUCCESSFUL evaluations that raise an error value internally (no failing parse in between to clean up)
    q = mk()
    sizes2 = []
    for rnd in range(3):
        for _ in range(100):
            for f in ('IFERROR(SUM(1/0),0)', 'ISERROR(MAX(1,2/0))', 'IFERROR(nosuch,1)+1', 'IF(ISNA(AVERAGE(NA())),1,2)'):
                q.parse(f)
        gc.collect()
        sizes2.append(sum(tblen(getattr(error, n)) for n in names))
        cases += 1
    if sizes2[-1] > 0 and len(fails) < 5:
        fails.append({'formula': 'IFERROR(SUM(1/0),0) (repeated)', 'detail': 'traceback entries retained after successful evaluations: %r' % (sizes2,)})
    interference(report, env, 'C02')
    bounded(report, 'C02.histories', 'seeded histories of <= 6 parses (22 formulas incl. failing ones and raising callbacks) before a probe vs a fresh '
            'parser; debug on/off for 22 formulas; 5 host lists x 32 consumers deep-compared; traceback growth over 3x1000 failing parses', cases, fails)


def interference(report, env, prop):
    """ outcome of every evaluation = its outcome in a process that evaluated nothing else, whatever was evaluated before / meanwhile on
        this or another parser (fresh-process oracle: pyvc.e2e_fresh) """
    import random as _r
    from pyvc import e2e
    from props.common import bounded as _b
    cases, fails = e2e.check_interference(_r.Random(env['seed'] + 7), env['tier'], env['scratch'])
    _b(report, prop + '.interference', 'every ordered pair of %d formulas (second after first, on another parser) and seeded interleavings of 2..7 '
       'evaluations over 3 parsers, 30%% of them with a nested evaluation in the middle, each outcome compared with the outcome of the same formula in a '
       'freshly started process' % len(e2e.INTERFERENCE_FORMULAS), cases, fails)


def replay(rp):
    if rp.get('interference'):
        from pyvc import e2e
        r = e2e.replay_formula(rp)
        return 0 if isinstance(r, dict) else 1
    print(rp.get('formula'), rp.get('detail'))
    return 1
