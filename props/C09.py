# C09 -- names resolve to what was registered; unknown names are #NAME?
import os
import re
import random
from props.common import table_obligations, bounded

LEVEL_TEXT = ("Deductive: Parser.set_variable/get_variable/set_function on a map model of the per-instance dictionaries; call_variable (value of the "
              "variable for every value incl. None/0/'', #NAME? exactly when unknown and no listener supplied a value); call_function (custom "
              "function first, then the registry, applied exactly once to the arguments in order - ghost call log -, otherwise #NAME? and no other "
              "exception class); the grammar actions make exactly one callback call with the token text / slot list.  Table: every name of "
              "SUPPORTED_FORMULAS.md is registered by a decorator; TRUE/FALSE/NULL predefined.  Regex: identifier-shaped names that are not "
              "cell-shaped lex as one VARIABLE token (known finding for two shapes).  Bounded: names/values/unknown calls through parse.")
TRUSTED = ['listeners are host code (havoc); the registry is filled only by the decorators at import (frame obligation of C03)']


def registration_decorator_obligations(repo):
    """ the registration decorator stores and hands back the decorated function itself (the contracts on registered functions are
        contracts on what the registry holds only because of this) """
    import ast
    path = os.path.join(repo, 'hotxlfp', 'formulas', '__init__.py')
    tree = ast.parse(open(path, encoding='utf-8').read())
    out = []
    found = False
    for n in ast.walk(tree):
        if isinstance(n, ast.FunctionDef) and n.name == 'register_for':
            inner = [x for x in n.body if isinstance(x, ast.FunctionDef)]
            rets = [x for x in n.body if isinstance(x, ast.Return)]
            if len(inner) != 1 or len(rets) != 1 or not (isinstance(rets[0].value, ast.Name) and rets[0].value.id == inner[0].name):
                out.append(('registry.decorator-shape', False, 'register_for does not return its single inner function'))
                continue
            found = True
            w = inner[0]
            arg = w.args.args[0].arg if w.args.args else None
            wrets = [x for x in ast.walk(w) if isinstance(x, ast.Return)]
            same_back = len(wrets) == 1 and isinstance(wrets[0].value, ast.Name) and wrets[0].value.id == arg
            stores = [x for x in ast.walk(w) if isinstance(x, ast.Assign) and isinstance(x.targets[0], ast.Subscript)]
            stores_same = len(stores) >= 1 and all(isinstance(x.value, ast.Name) and x.value.id == arg for x in stores)
            out.append(('registry.decorator-returns-the-function', same_back, 'the decorator hands back something other than the decorated function'))
            out.append(('registry.decorator-registers-the-function', stores_same, 'the registry receives something other than the decorated function'))
    out.append(('registry.decorator-found', found, 'Dispatcher.register_for'))
    return out


def extra(report, env):
    import z3
    from pyvc import lexre, lexer_facts, e2e
    from pyvc.runner import load_known_findings, write_replay
    w = env['world']
    # --- registry table
    names = w.registry_names()
    md = open(os.path.join(env['repo'], 'SUPPORTED_FORMULAS.md'), encoding='utf-8').read()
    # the first section ("# Supported Formulas - N") ends where the next heading starts
    parts = re.split(r'^# .*$', md, flags=re.M)
    first = parts[1] if len(parts) > 1 else md
    documented = re.findall(r'^\s*[-*]\s*`?([A-Z][A-Z0-9\.]*)`?\s*$', first, re.M)
    res = [('registry.documented-names-found', len(documented) >= 100, '%d names parsed from the first section' % len(documented))]
    for n in documented:
        res.append(('registry.%s' % n, n in names, 'documented but not registered'))
    res.extend(registration_decorator_obligations(env['repo']))
    # a custom function may itself evaluate a formula on the same parser: the call sites after it in the outer formula are still reached
    # exactly because the token stream of each evaluation is private (PLY's assumed contract: the lexer handed over is a per-call clone)
    from props.C03 import ply_call_obligations
    res.extend(('assumption.' + n, ok, d) for n, ok, d in ply_call_obligations(env['repo']))
    table_obligations(report, 'C09', res)
    # per-instance tables are created fresh in __init__ (shared with C03): a shared table would make names of one parser resolve on another
    from props.C03 import init_obligations
    table_obligations(report, 'C09', init_obligations(env['repo']))
    # --- identifier regex obligation
    try:
        obs, langs, order = lexer_facts.obligations(env['repo'])
        az = z3.Union(z3.Range(z3.StringVal('a'), z3.StringVal('z')), z3.Range(z3.StringVal('A'), z3.StringVal('Z')))
        dig = z3.Range(z3.StringVal('0'), z3.StringVal('9'))
        us = lexre.lit('_')
        ident = z3.Concat(z3.Union(az, us), z3.Star(z3.Union(az, dig, us)))
        cellshaped = z3.Concat(z3.Plus(az), z3.Plus(dig))
        ANY = z3.Star(lexre.allchar())
        var = langs['VARIABLE'][0]
        earlier = [n for n in order[:order.index('VARIABLE')] if n not in ('WHITESPACE', 'STRING', 'FUNCTION', 'XLERROR')]
        prefix_taken = lexre.union(z3.Concat(langs[n][0], ANY) for n in earlier)
        # one VARIABLE token: the rule matches the whole name and no earlier rule matches a prefix.  (VARIABLE's own preferred match is
        # the whole name for these shapes: first alternative greedy, second only letters/underscores.)
        alt1 = z3.Concat(az, z3.Plus(z3.Union(az, dig, us)))
        alt2 = z3.Plus(z3.Union(az, us))
        whole = z3.Union(alt1, z3.Intersect(alt2, z3.Complement(z3.Concat(alt1, ANY))))
        okvar = z3.Intersect(var, whole, z3.Complement(prefix_taken))
        bad = z3.Intersect(ident, z3.Complement(cellshaped), z3.Complement(okvar))
        # known region: a cell-shaped prefix followed by more characters, or a leading underscore run followed by a digit somewhere
        region = z3.Union(z3.Concat(z3.Plus(az), z3.Plus(dig), z3.Plus(z3.Union(az, dig, us))),
                          z3.Concat(z3.Plus(us), z3.Star(z3.Union(az, us)), dig, z3.Star(z3.Union(az, dig, us))),
                          z3.Concat(z3.Plus(z3.Union(az, us)), us, z3.Star(z3.Union(az, us)), dig, z3.Star(z3.Union(az, dig, us))))
        known = [f for f in load_known_findings() if f.get('id') == 'C09-unreferencable-identifiers' and not f.get('fixed')]
        r, wit = lexre.decide_empty(z3.Intersect(bad, z3.Complement(region)) if known else bad)
        if r == 'unsat':
            report.add_record('C09.regex.identifier-is-one-VARIABLE-token' + ('.outside-known-region' if known else ''), 'regex', 'discharged', 'z3-regex')
        elif r == 'sat':
            p = e2e.new_parser()
            p.set_variable(wit, 42)
            got = p.parse(wit)
            report.add_record('C09.regex.identifier-is-one-VARIABLE-token', 'regex', 'failed', 'z3-regex', witness=wit)
            if got.get('result') != 42:
                path = write_replay('C09', 'identifier', {'kind': 'identifier', 'property': 'C09', 'obligation': 'regex.identifier', 'name': wit,
                                                          'observed': repr(got), 'expected': 'the variable evaluates to its value 42'})
                report.violations.append({'what': 'variable %r cannot be referenced' % wit, 'replay': path, 'no_input': False})
        else:
            report.undecided.append({'obligation': 'C09.regex.identifier', 'reason': str(wit)})
        if known:
            r2, wit2 = lexre.decide_empty(z3.Intersect(bad, region))
            if r2 == 'sat':
                p = e2e.new_parser()
                p.set_variable(wit2, 42)
                if p.parse(wit2).get('result') != 42:
                    report.known.append({'finding': known[0], 'witness': wit2})
    except lexre.Unsupported as u:
        report.undecided.append({'obligation': 'C09.regex.identifier', 'reason': str(u)})
    # --- bounded
    rng = random.Random(env['seed'])
    p = e2e.new_parser()
    cases = 0
    fails = []
    from hotxlfp.formulas import error
    vals = [None, 0, 0.0, '', False, True, 7, -2.5, 'txt', [1, 2], error.VALUE, object(), (1, 2)]
    for _ in range(300 if env['tier'] == 'quick' else 3000):
        name = rng.choice('abcxyzPQR_') + ''.join(rng.choice('abcxyz_PQR') for _ in range(rng.randint(0, 6)))
        if re.match(r'[A-Za-z]+[0-9]+\Z', name):
            continue
        v = rng.choice(vals)
        p2 = e2e.new_parser()
        p2.set_variable(name, v)
        cases += 1
        r = p2.parse(name)
        exp_err = str(v) if isinstance(v, error.XLError) else None
        ok = (r['error'] == exp_err and r['result'] is None) if exp_err else (r['error'] is None and r['result'] is v)
        if not ok and len(fails) < 5:
            fails.append({'formula': name, 'detail': 'variable set to %r evaluates to %r' % (v, r)})
        cases += 1
        r = p2.parse(name + 'q')
        if r['error'] != '#NAME?' and len(fails) < 5:
            fails.append({'formula': name + 'q', 'detail': 'unknown variable gives %r' % (r,)})
    for name in ('TRUE', 'FALSE', 'NULL'):
        cases += 1
        r = p.parse(name)
        if r != {'result': {'TRUE': True, 'FALSE': False, 'NULL': None}[name], 'error': None} and len(fails) < 5:
            fails.append({'formula': name, 'detail': 'predefined name gives %r' % (r,)})
    log = []
    p.set_function('SUM', lambda *a: log.append(a) or 'custom')
    p.set_function('MYF', lambda *a: log.append(a) or len(a))
    for text, exp, nlog in (('SUM(1,2)', 'custom', 1), ('MYF(1,"a",3)', 3, 1), ('MYF(MYF(1),MYF())', 2, 3), ('MYF()+MYF(1)', 1, 2)):
        del log[:]
        cases += 1
        r = p.parse(text)
        if (r['result'] != exp or len(log) != nlog) and len(fails) < 5:
            fails.append({'formula': text, 'detail': 'expected %r with %d calls, got %r with calls %r' % (exp, nlog, r, log)})
    del log[:]
    p.parse('MYF(1,"a",{2,3})')
    cases += 1
    if log != [(1, 'a', [2, 3])] and len(fails) < 5:
        fails.append({'formula': 'MYF(1,"a",{2,3})', 'detail': 'arguments not passed in order: %r' % (log,)})
    # a custom function receives whatever its arguments evaluate to - error values, blanks and arrays included - and its return value is the call's value
    for text, nargs in (('MYF(1/0)', 1), ('MYF(1,NA(),3)', 3), ('MYF(SQRT(-1),"x")', 2), ('MYF(A1)', 1), ('MYF(,1)', 2), ('MYF({1,2},1/0)', 2)):
        del log[:]
        cases += 1
        r = p.parse(text)
        if (r != {'result': nargs, 'error': None} or len(log) != 1 or len(log[0]) != nargs) and len(fails) < 5:
            fails.append({'formula': text, 'detail': 'a custom function is called once with the evaluated arguments whatever they are: got %r with calls %r' % (r, log)})
    # function names are taken as written: a custom function registered in lower or mixed case is the one that is called, and a built-in
    # spelled in another case is not that built-in
    pc = e2e.new_parser()
    calls = []
    for nm in ('triple', 'netPrice', 'Vat_2024', 'sum', 'Sum'):
        pc.set_function(nm, lambda *a, _n=nm: calls.append((_n, a)) or ('custom ' + _n))
    for text, want, who in (('triple(2)', 'custom triple', 'triple'), ('netPrice(1,2)', 'custom netPrice', 'netPrice'), ('Vat_2024()', 'custom Vat_2024', 'Vat_2024'),
                            ('sum(1,2)', 'custom sum', 'sum'), ('Sum(1,2)', 'custom Sum', 'Sum'), ('SUM(1,2)', 3, None), ('triple(1)&netPrice()', 'custom triplecustom netPrice', 'triple')):
        del calls[:]
        cases += 1
        r = pc.parse(text)
        if (r['result'] != want or (who is not None and (not calls or calls[0][0] != who)) or (who is None and calls)) and len(fails) < 5:
            fails.append({'formula': text, 'detail': 'custom functions registered as triple / netPrice / Vat_2024 / sum / Sum: expected %r, got %r with calls %r' % (want, r, calls)})
    for text in ('sum(1,2)', 'Sum(1,2)', 'pi()', 'Pi()', 'if(TRUE,1,2)', 'mAx(1,2)', 'TRIPLE(2)', 'NETPRICE(1)'):
        cases += 1
        r = (e2e.new_parser() if text[0].islower() or text[1].islower() else pc).parse(text)
        if r['error'] != '#NAME?' and len(fails) < 5:
            fails.append({'formula': text, 'detail': 'no function is registered under this spelling: expected #NAME?, got %r' % (r,)})
    pe = e2e.new_parser()
    pe.set_variable('x', 7)
    elog = []
    pe.set_function('EVAL', lambda text: pe.parse(text)['result'])
    pe.set_function('G', lambda *a: elog.append(a) or sum(v for v in a if isinstance(v, (int, float))))
    for text, want, ncalls in (('EVAL("x")+1', 8, 0), ('G(EVAL("x+1"),5)+G(2)', 15, 2), ('G(1)+EVAL("G(2)")+G(3)', 6, 3)):
        del elog[:]
        cases += 1
        r = pe.parse(text)
        if (r != {'result': want, 'error': None} or len(elog) != ncalls) and len(fails) < 5:
            fails.append({'formula': text, 'detail': 'a custom function that evaluates on the same parser: expected %r with %d calls of G, got %r with calls %r' % (want, ncalls, r, elog)})
    # a registered callable is the function of that name whatever else it is (an object with __len__ 0, an empty callable dict subclass ...)
    class Memo(dict):
        def __call__(self, *a):
            return 'memo called'
    pf = e2e.new_parser()
    pf.set_function('MEMO', Memo())
    pf.set_function('SUM', Memo())
    for text in ('MEMO(1)', 'SUM(1,2)'):
        cases += 1
        r = pf.parse(text)
        if r != {'result': 'memo called', 'error': None} and len(fails) < 5:
            fails.append({'formula': text, 'detail': 'registered callable that happens to be falsy (an empty dict subclass with __call__): got %r' % (r,)})
    p.set_function('IFERROR', lambda a, b: 'mine')
    cases += 1
    r = p.parse('IFERROR(1/0,2)')
    if r['result'] != 'mine' and len(fails) < 5:
        fails.append({'formula': 'IFERROR(1/0,2)', 'detail': 'a custom IFERROR registered over the built-in: got %r' % (r,)})
    for text in ('NOSUCH()', 'NOSUCH(1)', 'NOSUCH(1)+1', '1+NOSUCH(2)*3', 'SUM(1,NOSUCH(2))', 'IF(TRUE,NOSUCH(),2)', '-NOSUCH(1)', 'NOSUCH(1)&"a"',
                 'NOSUCH.FN(1)', 'nosuch(1)', 'N0SUCH(1)'):
        cases += 1
        r = e2e.new_parser().parse(text)
        if r['error'] != '#NAME?' and len(fails) < 5:
            fails.append({'formula': text, 'detail': 'a call to an unregistered function gives %r, expected #NAME?' % (r,)})
    # registrations made after a name has already been used take effect: a custom function overriding a built-in (or an earlier custom
    # function) that earlier formulas called, a variable re-set between evaluations, a custom function registered after the name failed
    ph = e2e.new_parser()
    steps = [('SUM(1,2)', 3), ('MAX(4,9)', 9), ('UNDEF(1)', '#NAME?'), ('later', '#NAME?')]
    ph.set_variable('v', 1)
    steps.append(('v', 1))
    for text, want in steps:
        cases += 1
        r = ph.parse(text)
        if (r['error'] if isinstance(want, str) else r['result']) != want and len(fails) < 5:
            fails.append({'formula': text, 'detail': 'before any re-registration: expected %r got %r' % (want, r)})
    ph.set_function('SUM', lambda *a: 'custom sum')
    ph.set_function('UNDEF', lambda *a: 'now defined')
    ph.set_variable('later', 'now set')
    ph.set_variable('v', 2)
    for text, want in (('SUM(1,2)', 'custom sum'), ('MAX(4,9)', 9), ('UNDEF(1)', 'now defined'), ('later', 'now set'), ('v', 2), ('SUM(1)&UNDEF()', 'custom sumnow defined')):
        cases += 1
        r = ph.parse(text)
        if r['result'] != want and len(fails) < 5:
            fails.append({'formula': text, 'detail': 'after set_function / set_variable on a name already used by earlier formulas: expected %r got %r' % (want, r)})
    ph.set_function('SUM', lambda *a: 'second custom sum')
    cases += 1
    r = ph.parse('SUM(1,2)')
    if r['result'] != 'second custom sum' and len(fails) < 5:
        fails.append({'formula': 'SUM(1,2)', 'detail': 'after registering a second custom function under the same name: %r' % (r,)})
    # bindings of one parser are invisible to every other parser (also TRUE/FALSE/NULL shadowing)
    pa, pb = e2e.new_parser(), e2e.new_parser()
    pa.set_variable('rate', 0.25)
    pa.set_variable('TRUE', 'yes')
    pa.set_function('ONLYA', lambda: 1)
    cases += 4
    for text, want in (('rate', '#NAME?'), ('rate*4', '#NAME?'), ('ONLYA()', '#NAME?')):
        r = pb.parse(text)
        if r['error'] != want and len(fails) < 5:
            fails.append({'formula': text, 'detail': 'bound on another parser only, yet evaluates to %r here' % (r,)})
    r = e2e.new_parser().parse('TRUE')
    if r['result'] is not True and len(fails) < 5:
        fails.append({'formula': 'TRUE', 'detail': 'predefined name shadowed through another parser: %r' % (r,)})
    for n in sorted(names):
        cases += 1
        from hotxlfp import formulas
        if not formulas.is_supported(n) and len(fails) < 5:
            fails.append({'formula': n, 'detail': 'decorator name not in the run-time registry'})
    bounded(report, 'C09.names', 'seeded identifier-shaped names x 13 values of any type, predefined names, custom functions (precedence, call log), '
            'registrations made after a name was used (override of a built-in / of a custom function, late definitions), 11 formulas calling unregistered functions, every decorator name against the run-time registry', cases, fails)


def replay(rp):
    from pyvc import e2e
    if rp['kind'] == 'identifier':
        p = e2e.new_parser()
        p.set_variable(rp['name'], 42)
        print('variable %r = 42 ; parse -> %r' % (rp['name'], p.parse(rp['name'])))
        return 1
    if rp['kind'] == 'table':
        print(rp['obligation'], rp['detail'])
        return 1
    print('parse(%r) -> %r ; %s' % (rp['formula'], e2e.new_parser().parse(rp['formula']), rp['detail']))
    return 1
