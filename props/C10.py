# C10 -- reference events deliver canonical coordinates, once, in evaluation order
import random
from props.common import bounded

LEVEL_TEXT = ("Deductive: call_cell_value / call_range_value / call_variable / call_function emit exactly one event of the right name (ghost "
              "log), the cell event carries the upper-cased label with the row/column and $ flags of extract_label's contract, the range event "
              "carries top-left and bottom-right however the corners were written with labels recomposed from the carried coordinates; the value "
              "is the last value other than None handed to the setter (0, FALSE, '' count; host invocations of the escaped setter closure are "
              "simulated up to twice - bounded, flagged); the twelve alternatives of p_cell and the other callback actions make exactly one "
              "callback call.  Assumed: PLY's post-order reduction (order of events).  Bounded: recorded event sequences against a reference walk.")
TRUSTED = ['PLY reduces in post-order, left to right, arguments before their call (order of events across a formula)',
           'the setter closure is invoked by host code: at most two invocations are explored symbolically (bounded)']


def extra(report, env):
    from pyvc import e2e
    rng = random.Random(env['seed'])
    cases = 0
    fails = []

    def recorder():
        p = e2e.new_parser()
        log = []
        p.on('callCellValue', lambda cell, s: log.append(('cell', cell.label, cell.row.index, cell.col.index, cell.row.is_absolute, cell.col.is_absolute)))
        p.on('callRangeValue', lambda a, b, s: log.append(('range', a.label, a.row.index, a.col.index, b.label, b.row.index, b.col.index)))
        p.on('callVariable', lambda name, s: log.append(('var', name)))
        p.on('callFunction', lambda name, args, s: log.append(('fn', name, len(args))))
        return p, log

    def col_index(s):
        v = 0
        for ch in s.upper():
            v = v * 26 + ord(ch) - 64
        return v - 1
    # cells: any case, $ patterns, columns A..XFD and beyond, rows to 1048576
    cols = ['A', 'z', 'AA', 'xfd', 'XFE', 'ab', 'ZZZZ']
    rows = [1, 9, 10, 1048576, 2000000]
    for c in cols:
        for r in rows:
            for ca in ('', '$'):
                for ra in ('', '$'):
                    p, log = recorder()
                    text = '%s%s%s%d' % (ca, c, ra, r)
                    res = p.parse(text)
                    cases += 1
                    exp = [('cell', text.upper(), r - 1, col_index(c), ra == '$', ca == '$')]
                    if (log != exp or res != {'result': None, 'error': None}) and len(fails) < 5:
                        fails.append({'formula': text, 'detail': 'events %r, expected %r; result %r (a cell without listener is blank)' % (log, exp, res)})
    # ranges: all four corner orders
    for (c1, r1, c2, r2) in (('A', 1, 'C', 5), ('C', 5, 'A', 1), ('A', 5, 'C', 1), ('C', 1, 'A', 5), ('b', 2, 'b', 2), ('AA', 10, 'Z', 3)):
        for a1, a2 in (('', ''), ('$', ''), ('', '$')):
            p, log = recorder()
            text = '%s%s%d:%s%s%d' % (a1, c1, r1, c2, a2, r2)
            res = p.parse(text)
            cases += 1
            if len(log) != 1 or log[0][0] != 'range':
                if len(fails) < 5:
                    fails.append({'formula': text, 'detail': 'events %r' % (log,)})
                continue
            _, la, ra_, ca_, lb, rb_, cb_ = log[0]
            ok = ra_ == min(r1, r2) - 1 and rb_ == max(r1, r2) - 1 and ca_ == min(col_index(c1), col_index(c2)) and cb_ == max(col_index(c1), col_index(c2))
            import re

            def coords(label):
                m = re.match(r'\$?([A-Z]+)\$?([0-9]+)\Z', label)
                return (int(m.group(2)) - 1, col_index(m.group(1))) if m else None
            ok = ok and coords(la) == (ra_, ca_) and coords(lb) == (rb_, cb_)
            if not ok and len(fails) < 5:
                fails.append({'formula': text, 'detail': 'range event %r: corners not normalised or labels disagree with coordinates' % (log[0],)})
    # order: left to right, arguments before their call
    p, log = recorder()
    p.set_variable('x', 1)
    p.set_variable('y', 2)
    for text, exp in (('SUM(A1,x)+MAX(B2:C3,y)', ['cell', 'var', 'fn', 'range', 'var', 'fn']), ('IF(x>0,A1,B1)', ['var', 'cell', 'cell', 'fn']),
                      ('x+A1*y', ['var', 'cell', 'var']), ('SUM(SUM(A1),SUM(x))', ['cell', 'fn', 'var', 'fn', 'fn'])):
        del log[:]
        p.parse(text)
        cases += 1
        if [e[0] for e in log] != exp and len(fails) < 5:
            fails.append({'formula': text, 'detail': 'event order %r, expected %r' % ([e[0] for e in log], exp)})
    # setter semantics: last value other than None wins, including 0, FALSE and ''
    for seq, exp in (([5], 5), ([0], 0), ([False], False), ([''], ''), ([None], None), ([5, None], 5), ([5, 0], 0), ([None, ''], ''), ([1, 2, 3], 3)):
        for ev, text in (('callCellValue', 'A1'), ('callRangeValue', 'A1:B2'), ('callVariable', 'v'), ('callFunction', 'PI()')):
            p = e2e.new_parser()
            p.set_variable('v', 'orig')
            p.on(ev, lambda *a, _s=seq: [a[-1](x) for x in _s])
            r = p.parse(text)
            cases += 1
            import math
            base = {'callCellValue': None, 'callRangeValue': None, 'callVariable': 'orig', 'callFunction': math.pi}[ev]
            want = exp if exp is not None else base
            if (r['result'] != want or (want is not None and type(r['result']) is not type(want))) and len(fails) < 5:
                fails.append({'formula': text, 'detail': 'listener %s set %r: value %r, expected %r' % (ev, seq, r, want)})
    # listeners that evaluate on the same parser while a reference is being resolved (formula cells, validation rules): the value of a
    # reference is what ITS setter was handed, whenever that happened relative to the nested evaluations and whatever they were handed
    for order in ('set-then-nest', 'nest-then-set', 'set-nest-none'):
        for second_listener in (False, True):
            for text, want in (('C1', 7), ('C1+A1', 14), ('B1+C1', 28), ('SUM(B1,C1,A1)', 35), ('E1', None), ('E1+C1', 7), ('C1+E1', 7), ('IF(C1=7,B1,0)', 21)):
                bad = reentrant_case(order, second_listener, text, want)
                cases += 1
                if bad and len(fails) < 5:
                    fails.append({'formula': text, 'reentrant': [order, second_listener, want], 'detail': bad})
    # what a reference raises does not depend on the references resolved before it on the same parser (reversed-corner ranges, the same
    # corner cells on their own, ranges sharing a corner ...): each event log equals the one a fresh parser gives
    hist_pool = ['A1', 'B2', '$B$2', 'a1', 'B2:A1', 'A1:B2', 'A3:C1', 'A3:D4', '$B5:A$2', 'B5:A2', 'SUM(B2:A1)', 'SUM(A1:B2)+B2', 'C1', 'A3', 'D4', 'B5', 'A2',
                 'COUNT(A3:C1)', 'COUNT(A3:D4)', 'SUM($B5:A$2)', 'x', 'SUM(x,A1)']
    fresh_log = {}
    for f in hist_pool:
        q, lg = recorder()
        q.set_variable('x', 1)
        q.parse(f)
        fresh_log[f] = list(lg)
    for _ in range(200 if env['tier'] == 'quick' else 3000):
        q, lg = recorder()
        q.set_variable('x', 1)
        seq = [rng.choice(hist_pool) for _ in range(rng.randint(2, 6))]
        for pos, f in enumerate(seq):
            del lg[:]
            q.parse(f)
            cases += 1
            if lg != fresh_log[f]:
                if len(fails) < 5:
                    fails.append({'formula': f, 'history': seq[:pos], 'detail': 'after %r on the same parser %r raises %r, on a fresh parser %r' % (seq[:pos], f, lg, fresh_log[f])})
                break
    # only some kinds of listener registered: still one event per reference of THAT kind and nothing else - a range nobody listens for
    # raises no cell events, an unknown name raises its one variable event and is #NAME?
    from pyvc import e2e as _e
    for kinds in (('callCellValue',), ('callVariable',), ('callCellValue', 'callVariable'), ('callRangeValue',), ('callFunction',)):
        q = _e.new_parser()
        lg = []
        if 'callCellValue' in kinds:
            q.on('callCellValue', lambda cell, st: lg.append(('cell', cell.label)))
        if 'callRangeValue' in kinds:
            q.on('callRangeValue', lambda a, b, st: lg.append(('range', a.label, b.label)))
        if 'callVariable' in kinds:
            q.on('callVariable', lambda name, st: lg.append(('var', name)))
        if 'callFunction' in kinds:
            q.on('callFunction', lambda name, args, st: lg.append(('fn', name)))
        for text, refs, want in (('SUM(A1:B2)', [('range', 'A1', 'B2'), ('fn', 'SUM')], {'result': 0, 'error': None}),
                                 ('MAX(A1:C3)+A1', [('range', 'A1', 'C3'), ('fn', 'MAX'), ('cell', 'A1')], 'any'),
                                 ('A1:B2', [('range', 'A1', 'B2')], {'result': None, 'error': None}),
                                 ('rate', [('var', 'rate')], {'result': None, 'error': '#NAME?'}),
                                 ('Rate+1', [('var', 'Rate')], {'result': None, 'error': '#NAME?'}),
                                 ('true', [('var', 'true')], {'result': None, 'error': '#NAME?'}),
                                 ('TRUE', [('var', 'TRUE')], {'result': True, 'error': None}),
                                 ('SUM(x1y,2)', None, None)):
            if refs is None:
                continue
            del lg[:]
            r = q.parse(text)
            cases += 1
            exp = [e for e in refs if {'cell': 'callCellValue', 'range': 'callRangeValue', 'var': 'callVariable', 'fn': 'callFunction'}[e[0]] in kinds]
            if (lg != exp or (want != 'any' and r != want)) and len(fails) < 5:
                fails.append({'formula': text, 'detail': 'only %r registered: events %r (expected %r), outcome %r (expected %r)' % (kinds, lg, exp, r, want)})
    # reference walk: seeded formulas in which the same variable / cell / range / function occurs several times; every occurrence
    # raises its own event (post-order, left to right) and takes the value its own setter was given
    for _ in range(300 if env['tier'] == 'quick' else 5000):
        tree = gen_refs(rng, rng.randint(1, 5))
        text = render_refs(tree)
        bad = walk_case(tree, text)
        cases += 1
        if bad and len(fails) < 5:
            fails.append({'formula': text, 'walk': tree, 'detail': bad})
        # the same formula with listeners that stay silent on some events
        silent = [k for k in range(1, 12) if rng.random() < 0.4]
        bad = walk_case(tree, text, silent)
        cases += 1
        if bad and len(fails) < 5:
            fails.append({'formula': text, 'walk': tree, 'silent': silent, 'detail': 'listeners silent on events %r: %s' % (silent, bad)})
    for seq, exp in (([0], 0), ([0.0], 0.0), ([False], False), ([''], ''), ([None, 0], 0), ([5, 0], 0), ([[]], [])):
        q = e2e.new_parser()
        q.on('callVariable', lambda name, st, _s=seq: [st(x) for x in _s])
        r = q.parse('unknownname')
        cases += 1
        if (r['error'] is not None or r['result'] != exp or type(r['result']) is not type(exp)) and len(fails) < 5:
            fails.append({'formula': 'unknownname', 'detail': 'a listener answers an unregistered name with %r: the reference is worth %r, got %r' % (seq, exp, r)})
    bounded(report, 'C10.events', '5 subsets of listener kinds x 7 formulas (only the events of registered kinds, a range nobody answers stays blank, an unknown name is #NAME? after its one event), event logs after seeded histories of 2..6 references on one parser (reversed-corner ranges, shared corners) against a fresh parser, listeners re-entering the same parser while a cell is being resolved (3 orders of hand-over x with/without a second listener x 8 formulas), 7 columns x 5 rows x 4 $-patterns, 18 ranges (all corner orders), 4 ordering formulas, 9 setter sequences x 4 events, seeded formulas with '
            'repeated references (<= 6 atoms from 2 variables, 2 cells, 1 range, SUM / MAX calls) against a reference walk: one event per occurrence, '
            'each occurrence valued by its own setter, and again with listeners silent on a random 40% of the events (blank / the variable own value)', cases, fails)


def reentrant_case(order, second_listener, text, want):
    """ sheet: A1 = 7, B1 = formula A1*3, C1 = 7 handed over before / after a nested evaluation (or followed by None), E1 = nobody answers.
        A second listener (a validation rule) re-enters the parser on every cell but A1 and hands nothing over. """
    from pyvc import e2e
    p = e2e.new_parser()

    def sheet(cell, setter):
        lab = cell.label
        if lab == 'A1':
            setter(7)
        elif lab == 'B1':
            setter(p.parse('A1*3')['result'])
        elif lab == 'C1':
            if order == 'set-then-nest':
                setter(7)
                p.parse('A1+100')
            elif order == 'nest-then-set':
                p.parse('A1+100')
                setter(7)
            else:
                setter(7)
                p.parse('A1+100')
                setter(None)
        elif lab == 'E1':
            p.parse('A1+100')            # looks something up, answers nothing: the cell is blank

    def validation(cell, setter):
        if cell.label != 'A1':
            p.parse('A1*1000')
    p.on('callCellValue', sheet)
    if second_listener:
        p.on('callCellValue', validation)
    r = p.parse(text)
    if r != {'result': want, 'error': None}:
        return 'C1 is handed 7 (%s)%s: expected %r got %r' % (order, ', a second listener re-enters the parser on every cell' if second_listener else '', want, r)
    return None


class SkipCase(Exception):
    pass


SILENT_RANGE = object()      # a range nobody answered: blank (contributes nothing to SUM / MAX)


def gen_refs(rng, n):
    if n <= 0 or rng.random() < 0.25:
        return rng.choice([['var', 'x'], ['var', 'x'], ['var', 'y'], ['cell', 'A1'], ['cell', 'A1'], ['cell', 'B2'], ['range', 'A1', 'B2'], ['num', 3]])
    k = rng.randint(0, n - 1)
    if rng.random() < 0.5:
        return ['fn', rng.choice(['SUM', 'MAX']), gen_refs(rng, k), gen_refs(rng, n - 1 - k)]
    return ['add', gen_refs(rng, k), gen_refs(rng, n - 1 - k)]


def render_refs(t):
    if t[0] in ('var', 'cell'):
        return t[1]
    if t[0] == 'num':
        return str(t[1])
    if t[0] == 'range':
        return '%s:%s' % (t[1], t[2])
    if t[0] == 'fn':
        return '%s(%s,%s)' % (t[1], render_refs(t[2]), render_refs(t[3]))
    return '(%s+%s)' % (render_refs(t[1]), render_refs(t[2]))


def walk_case(tree, text, silent=()):
    """ evaluate text with listeners that hand the n-th event the value n (ranges: [n, n]); compare events and value with the walk.
        `silent`: event numbers at which the listener does not call the setter - that reference is then blank (cell, range: 0 in a sum)
        or keeps the variable's own value (100), whatever an earlier reference was given """
    from pyvc import e2e
    p = e2e.new_parser()
    p.set_variable('x', 100)
    p.set_variable('y', 100)
    log = []

    def give(kind, key, setter):
        log.append((kind, key))
        n = len(log)
        if n in silent:
            return
        setter([n, n] if kind == 'range' else n)
    p.on('callVariable', lambda name, s: give('var', name, s))
    p.on('callCellValue', lambda cell, s: give('cell', cell.label, s))
    p.on('callRangeValue', lambda a, b, s: give('range', a.label + ':' + b.label, s))
    p.on('callFunction', lambda name, args, s: log.append(('fn', name)))
    exp = []

    def flat(v):
        return [x for y in v for x in flat(y)] if isinstance(v, list) else [v]

    def ev(t):
        if t[0] == 'num':
            return t[1]
        if t[0] in ('var', 'cell'):
            exp.append((t[0], t[1]))
            if len(exp) in silent:
                return 100 if t[0] == 'var' else None       # the variable's own value / a blank cell
            return len(exp)
        if t[0] == 'range':
            exp.append(('range', t[1] + ':' + t[2]))
            if len(exp) in silent:
                return SILENT_RANGE
            return [len(exp), len(exp)]
        if t[0] == 'fn':
            a, b = ev(t[2]), ev(t[3])
            exp.append(('fn', t[1]))
            items = [v for v in flat([a, b]) if v is not SILENT_RANGE and v is not None]      # blanks contribute nothing to SUM / MAX
            if not items:
                raise SkipCase()            # MAX / SUM of nothing at all: outside what this walk pins down
            return (sum if t[1] == 'SUM' else max)(items)
        a, b = ev(t[1]), ev(t[2])
        if a is SILENT_RANGE or b is SILENT_RANGE:
            raise SkipCase()                # a blank range as an operand of +: not pinned down by the statement
        a = 0 if a is None else a           # a blank operand of + is 0
        b = 0 if b is None else b
        if isinstance(a, list) or isinstance(b, list):
            if isinstance(a, list) and isinstance(b, list):
                return [x + y for x, y in zip(a, b)]
            return [x + b for x in a] if isinstance(a, list) else [a + y for y in b]
        return a + b
    try:
        want = ev(tree)
    except SkipCase:
        return None
    if want is SILENT_RANGE:
        return None
    r = p.parse(text)
    if log != exp:
        return 'events %r, expected one per occurrence in evaluation order: %r' % (log, exp)
    if r != {'result': want, 'error': None}:
        return 'value %r, expected %r (the n-th event was given the value n)' % (r, want)
    return None


def replay(rp):
    if rp.get('history') is not None:
        from pyvc import e2e
        logs = []
        for fresh in (True, False):
            p = e2e.new_parser()
            p.set_variable('x', 1)
            lg = []
            p.on('callCellValue', lambda cell, s: lg.append(('cell', cell.label, cell.row.index, cell.col.index, cell.row.is_absolute, cell.col.is_absolute)))
            p.on('callRangeValue', lambda a, b, s: lg.append(('range', a.label, a.row.index, a.col.index, b.label, b.row.index, b.col.index)))
            if not fresh:
                for f in rp['history']:
                    p.parse(f)
            del lg[:]
            p.parse(rp['formula'])
            logs.append([e for e in lg])
        print('events of %r on a fresh parser %r ; after %r: %r' % (rp['formula'], logs[0], rp['history'], logs[1]))
        return 0 if logs[0] == logs[1] else 1
    if rp.get('reentrant'):
        bad = reentrant_case(rp['reentrant'][0], rp['reentrant'][1], rp['formula'], rp['reentrant'][2])
        print('parse(%r): %s' % (rp['formula'], bad or 'as stated'))
        return 1 if bad else 0
    if rp.get('walk'):
        bad = walk_case(rp['walk'], rp['formula'], rp.get('silent') or ())
        print('parse(%r): %s' % (rp['formula'], bad or 'events and value as stated'))
        return 1 if bad else 0
    from pyvc import e2e
    print('parse(%r): %s' % (rp['formula'], rp['detail']))
    return 1
