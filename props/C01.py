# C01 -- parse() is total: it always returns a well-formed result/error record
import ast
import os
import random
from props.common import table_obligations, bounded

LEVEL_TEXT = ("Deductive: Parser.parse against the record invariant of the statement with the grammar parser's result havocked (any value, "
              "any Exception); from_message closed over the nine codes (lemma) and total on exception objects of any class / args (text assumed);  the three error hooks raise and never return; termination "
              "obligations: every while-loop and recursion cycle of hotxlfp/** is enumerated from the AST and must carry a variant in a "
              "sidecar contract (table obligation) - a new loop without one is reported.  Bounded: every registered function x arity x typed "
              "pool, token soups, raising/returning callbacks, listeners that subscribe / unsubscribe / emit / evaluate during a delivery, exceptions with unhashable or missing args, under a line budget.")
TRUSTED = ['PLY and re terminate; one builtin call takes bounded time', 'BaseExceptions that are not Exceptions and a host __str__ that raises are outside the contract']
CONTRACTS = ['from_message', 'from_message_of_exception', 'from_message_closed', 'Parser_throw_error', 't_error', 'p_error', 'Parser_parse', 'GrammarParser_parse',
             'BASE', 'column_index_to_label', 'SUBSTITUTE']

# loops / recursion that are known and how their termination is decided
TERMINATION = {
    'hotxlfp/formulas/utils.py:iflatten:while': 'bounded stand-in (generator over itertools.chain; finite nestings)',
    'hotxlfp/formulas/mathtrig.py:BASE:while': 'variant in contract BASE (value decreases; radix >= 2 and value >= 0 validated before the loop)',
    'hotxlfp/helper/cell.py:column_index_to_label:while': 'variant in contract column_index_to_label',
    'hotxlfp/grammarparser/parser.py:Parser.run:while': 'dead code (raw_input REPL, never called by parse); not reachable from Parser.parse',
}


def find_loops(repo):
    out = []
    root = os.path.join(repo, 'hotxlfp')
    for d, _, files in os.walk(root):
        for fn in files:
            if not fn.endswith('.py') or 'parsetab' in fn:
                continue
            path = os.path.join(d, fn)
            rel = os.path.relpath(path, repo)
            tree = ast.parse(open(path, encoding='utf-8').read())
            for node in ast.walk(tree):
                if isinstance(node, (ast.FunctionDef,)):
                    for sub in ast.walk(node):
                        if isinstance(sub, ast.While):
                            owner = enclosing(tree, sub)
                            out.append('%s:%s:while' % (rel, owner))
    return sorted(set(out))


def enclosing(tree, target):
    best = '?'

    def visit(node, path):
        nonlocal best
        for ch in ast.iter_child_nodes(node):
            p = path
            if isinstance(ch, (ast.FunctionDef, ast.ClassDef)):
                p = path + [ch.name]
            if ch is target:
                best = '.'.join(path) if path else '?'
                return True
            if visit(ch, p):
                return True
        return False
    visit(tree, [])
    # innermost function name only (class prefix kept)
    return best


def extra(report, env):
    from pyvc import e2e
    loops = find_loops(env['repo'])
    res = []
    for l in loops:
        res.append(('termination.' + l, l in TERMINATION, 'a while-loop without a termination argument (variant in a sidecar contract): %s' % l))
    res.append(('termination.loops-enumerated', len(loops) >= 1, '%d while loops' % len(loops)))
    # bounded time of the lexer: no token rule may nest unbounded repeats (exponential backtracking of `re`)
    from pyvc import lexer_facts
    try:
        obs, _, _ = lexer_facts.obligations(env['repo'])
        res.extend(o for o in obs if o[0].startswith('L0.'))
    except Exception as ex:
        res.append(('lexer.rules-readable', False, repr(ex)))
    # bounded time rests on PLY's assumed contract, which includes that the token stream of one evaluation is private to it: an
    # evaluation re-entered from a listener must not rewind the lexer of the one in progress
    from props.C03 import ply_call_obligations
    res.extend(('assumption.' + n, ok, d) for n, ok, d in ply_call_obligations(env['repo']))
    table_obligations(report, 'C01', res)
    rng = random.Random(env['seed'])
    cases, fails = e2e.check_totality(rng, env['tier'])
    # wall-clock bound for inputs that make a backtracking matcher work hard: unterminated literals with long tails, long operator runs
    import time as _time
    p2 = e2e.new_parser()
    hard = ['SUM("abc' + 'x' * 40, "'" + 'y z' * 20, 'CONCATENATE("Total: ", 12, " units shipped to the warehouse in the last quarter)',
            '"' + 'a b' * 30, '((((((((((((((((((((((1', '1' + '+1' * 300, 'A' * 200 + '(', '"' * 41, 'x' * 3000, '1.' * 200, '{' + '1,' * 400 + '1}']
    for text in hard:
        cases += 1
        t0 = _time.time()
        try:
            r = e2e.run_with_deadline(lambda: p2.parse(text), 5.0)
            bad = e2e.well_formed(r)
        except e2e.Budget:
            bad = 'did not return within 5 s'
        except BaseException as ex:
            bad = 'parse raised %s' % type(ex).__name__
        if bad and len(fails) < 5:
            fails.append({'formula': text, 'detail': bad})
    # host values that are never-ending lazy iterables, in a child process with a memory cap (a C-level loop cannot be interrupted in-process)
    n_lazy, lazy_fails = e2e.lazy_iterables_sweep(env['scratch'])
    cases += n_lazy
    fails.extend(lazy_fails[:max(0, 5 - len(fails))])
    bounded(report, 'C01.totality', 'every registered name x arity 0..%d x 15-value typed pool (arity 3 sampled), seeded token soups, '
            'callbacks returning each pool value / raising 5 exception kinds, listeners acting on the emitter during a delivery, exceptions with odd args, '
            'every registered name over never-ending iterables (itertools.count / generator / cycle as variable, function result, range answer; child '
            'process, 3 GB cap), line budget 400000' % (3 if env['tier'] == 'thorough' else 2),
            cases, fails)


def replay(rp):
    from pyvc import e2e
    if rp['kind'] == 'table':
        print(rp['detail'])
        return 1
    r = e2e.replay_formula(rp)
    bad = e2e.well_formed(r) if isinstance(r, dict) else r
    print('well-formedness:', bad)
    return 1 if bad else 0
