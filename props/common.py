# helpers shared by the property modules
import random
import time


def table_obligations(report, prefix, results, replay_kind=None):
    """ results: (name, ok, detail) ground facts about the grammar / registry; failing ones are violations with a replay file """
    from pyvc.runner import write_replay
    for name, ok, detail in results:
        if ok:
            report.add_record('%s.%s' % (prefix, name), 'table', 'discharged', 'ground')
        else:
            report.add_record('%s.%s' % (prefix, name), 'table', 'failed', 'ground', detail=detail)
            path = write_replay(report.prop, name, {'kind': 'table', 'property': report.prop, 'obligation': name, 'detail': detail,
                                                    'how': 'ground fact about the grammar/lexer/registry of the working tree; replay recomputes it'})
            report.violations.append({'what': '%s: %s' % (name, detail), 'replay': path, 'no_input': False})


def bounded(report, name, bound, cases, fails, kind='e2e', exhaustive=False):
    from pyvc.runner import write_replay
    report.bounded.append({'function': name, 'contract': 'end-to-end through Parser.parse', 'cases': cases, 'applicable': cases,
                           'bound': bound, 'failures': len(fails), 'role': 'stand-in', 'exhaustive': exhaustive})
    for f in fails[:1]:
        payload = dict(f)
        payload.update({'kind': kind, 'property': report.prop, 'obligation': name})
        path = write_replay(report.prop, name, payload)
        report.violations.append({'what': '%s: %s' % (name, f.get('detail')), 'replay': path, 'no_input': False})


def known_e2e(report, fid, still_fails, witness, what):
    """ a finding decided by a concrete formula: listed in known_findings.json -> KNOWN-FINDING while it still fails;
        not listed -> an ordinary violation """
    from pyvc.runner import load_known_findings, write_replay
    if not still_fails:
        return
    listed = [f for f in load_known_findings() if f.get('id') == fid and f.get('property') == report.prop and not f.get('fixed')]
    if listed:
        report.known.append({'finding': listed[0], 'witness': witness})
    else:
        path = write_replay(report.prop, fid, {'kind': 'e2e', 'property': report.prop, 'obligation': fid, 'formula': witness, 'detail': what})
        report.violations.append({'what': what, 'replay': path, 'no_input': False})


def guarded_parse(p, formula, seconds=20):
    """ Parser.parse under a wall-clock alarm: an evaluation that does not come back is an outcome (reported), never a hanging check """
    from pyvc import e2e
    import threading
    if threading.current_thread() is not threading.main_thread():
        return p.parse(formula)
    try:
        return e2e.run_with_deadline(lambda: p.parse(formula), seconds)
    except e2e.Budget:
        return {'result': None, 'error': 'DOES-NOT-RETURN within %d s' % seconds}


def formula_table(report, name, bound, rows, variables=None, functions=None):
    """ a table of formulas with the outcome the property demands (a value with its type, an error code, or a predicate over the record),
        each on a fresh parser through the real Parser.parse; labelled bounded """
    from pyvc import e2e
    fails = []
    cases = 0
    for formula, want in rows:
        p = e2e.new_parser()
        for k, v in (variables or {}).items():
            p.set_variable(k, v)
        for k, v in (functions or {}).items():
            p.set_function(k, v)
        r = guarded_parse(p, formula)
        cases += 1
        if callable(want):
            ok = bool(want(r))
        elif isinstance(want, str) and want.startswith('#'):
            ok = r == {'result': None, 'error': want}
        else:
            ok = r['error'] is None and r['result'] == want and type(r['result']) is type(want)
        if not ok and len(fails) < 5:
            fails.append({'formula': formula, 'detail': 'expected %s, got %r' % (want.__doc__ if callable(want) else repr(want), r)})
    bounded(report, name, bound, cases, fails)
