# helpers shared by the property modules
import random
import time


def table_obligations(report, prefix, results, replay_kind=None):
    """ results: (name, ok, detail) ground facts about the grammar / registry; failing ones are violations with a replay file """
    from pyvc.runner import write_replay
    for name, ok, detail in results:
        if ok:
            report.add_record('%s.%s' % (prefix, name), 'table', 'discharged', 'ground')
        else:
            report.add_record('%s.%s' % (prefix, name), 'table', 'failed', 'ground', detail=detail)
            path = write_replay(report.prop, name, {'kind': 'table', 'property': report.prop, 'obligation': name, 'detail': detail,
                                                    'how': 'ground fact about the grammar/lexer/registry of the working tree; replay recomputes it'})
            report.violations.append({'what': '%s: %s' % (name, detail), 'replay': path, 'no_input': False})


def bounded(report, name, bound, cases, fails, kind='e2e', exhaustive=False):
    from pyvc.runner import write_replay
    report.bounded.append({'function': name, 'contract': 'end-to-end through Parser.parse', 'cases': cases, 'applicable': cases,
                           'bound': bound, 'failures': len(fails), 'role': 'stand-in', 'exhaustive': exhaustive})
    for f in fails[:1]:
        payload = dict(f)
        payload.update({'kind': kind, 'property': report.prop, 'obligation': name})
        path = write_replay(report.prop, name, payload)
        report.violations.append({'what': '%s: %s' % (name, f.get('detail')), 'replay': path, 'no_input': False})


def known_or_violation(report, name, fails, known_match):
    pass
