# C17 -- rounding and integer functions meet their specs; radix conversions invert
import math
import random
from fractions import Fraction
from props.common import bounded, known_e2e

LEVEL_TEXT = ("[CEILING / FLOOR: for all numbers and 9 fixed dyadic significances the documented-side clause is proved (linear) and checked natively on "
              "exact rationals.]  "
              "Deductive (reals; 10^digits as an uninterpreted positive quantity): ROUNDUP/ROUNDDOWN return an integer number of units 10^-digits on "
              "the required side and less than one unit away for ALL numbers and digit counts; INT is the floor; SIGN; QUOTIENT is the truncated "
              "quotient with #DIV/0! for a zero divisor; EVEN/ODD are the nearest even/odd integers away from zero (ODD(0)=1, EVEN(0)=0); FACT with "
              "#NUM! for negatives; BASE validates radix 2..36 and non-negative numbers and its digit loop terminates (variant); DEC2HEX gives an "
              "error outside the 40-bit range.  Partly decided / bounded: MOD, CEILING, FLOOR (floor of a quotient of two unknowns), ROUND "
              "(builtin round), digit strings of BASE/DEC2HEX/HEX2DEC/DECIMAL (library text<->number functions), FACTDOUBLE (n <= 300), "
              "ROMAN/ARABIC (finite domain, exhaustive), COMPLEX/IMREAL/IMAGINARY.")
TRUSTED = ['builtin round, math.factorial, int(text, base), hex(): assumed library functions', 'machine arithmetic treated as mathematical (real_arith)']


C17_NAMES = ['ROUND', 'ROUNDUP', 'ROUNDDOWN', 'CEILING', 'FLOOR', 'INT', 'EVEN', 'ODD', 'QUOTIENT', 'MOD', 'SIGN', 'FACT', 'FACTDOUBLE', 'HEX2DEC', 'DEC2HEX',
             'DECIMAL', 'BASE', 'ARABIC', 'ROMAN', 'IMREAL', 'IMAGINARY', 'COMPLEX']


def extra(report, env):
    from pyvc import e2e, native
    from props.common import table_obligations
    from props.C01 import find_loops, TERMINATION
    # "every call terminates": every while-loop of the two modules has a listed termination argument (shared with C01)
    loops = [l for l in find_loops(env['repo']) if 'formulas/mathtrig.py' in l or 'formulas/engineering.py' in l]
    table_obligations(report, 'C17', [('termination.' + l, l in TERMINATION, 'a while-loop without a termination argument (variant in a sidecar contract): %s' % l)
                                      for l in loops] + [('termination.loops-enumerated', True, '%d while loops in mathtrig / engineering' % len(loops))])
    rng = random.Random(env['seed'])
    p = e2e.new_parser()
    cases = 0
    fails = []
    # every function of the statement on arguments of every kind (fractions where whole numbers are expected, negatives, huge and tiny
    # magnitudes, text, logicals, blanks) comes back - under a line budget
    # (magnitudes stay moderate: FACT(1e15), ROUND(x, 1e15) and the like are bounded by the size of the number they have to build, not by a loop - DESIGN 7)
    odd = [3.5, 0.5, -0.5, 7 / 2, 1e-9, 2.0000000001, -3.999999, 3999.5, 4000, 0, -1, 170.5, 1000, -1000, True, False, None, '3.5', 'x', '', '1e2', [1, 2]]
    for name in C17_NAMES:
        for a in odd:
            for b in (None, 0, 2, 4, 3.5, -1, 16):
                p.set_variable('va', a)
                p.set_variable('vb', b)
                for text in (['%s(va)' % name] if b is None else ['%s(va,vb)' % name, '%s(vb,va)' % name]):
                    cases += 1
                    try:
                        r = e2e.run_budgeted(lambda: p.parse(text), 300000)
                        bad = e2e.well_formed(r)
                    except e2e.Budget:
                        bad = 'does not terminate within the line budget'
                    except BaseException as ex:
                        bad = 'parse raised %s' % type(ex).__name__
                    if bad and len(fails) < 5:
                        fails.append({'formula': text, 'bind': [repr(a), repr(b)], 'detail': bad})
    # ROUND / ROUNDUP / ROUNDDOWN at digits <= 0 are exact in floating point: no tolerance at all
    for x in (0.49999999999999994, -0.49999999999999994, 1.4999999999999998, 2.5, -2.5, 0.5, 4503599627370497.0, 4503599627370495.5, 123456.5, 1e15 + 0.5, 14.999999999999998):
        for d in (0, -1):
            unit = Fraction(10) ** (-d)
            for name in ('ROUND', 'ROUNDUP', 'ROUNDDOWN'):
                cases += 1
                p.set_variable('va', x)
                p.set_variable('vb', d)
                r = p.parse('%s(va,vb)' % name)
                if r['error'] is not None:
                    ok = False
                else:
                    v, fx = Fraction(r['result']), Fraction(x)
                    mult = (v / unit).denominator == 1
                    ok = mult and ((abs(v - fx) <= unit / 2) if name == 'ROUND' else
                                   (abs(v) >= abs(fx) and abs(v) - abs(fx) < unit) if name == 'ROUNDUP' else (abs(v) <= abs(fx) and abs(fx) - abs(v) < unit))
                if not ok and len(fails) < 5:
                    fails.append({'formula': '%s(%r,%d)' % (name, x, d), 'bind': [repr(x), repr(d)], 'detail': 'exactly: a multiple of %s on the stated side / within half a unit; got %r' % (unit, r)})

    def call(name, *args):
        for k, v in zip(('va', 'vb', 'vc'), args):
            p.set_variable(k, v)
        return p.parse('%s(%s)' % (name, ','.join(('va', 'vb', 'vc')[:len(args)])))

    def F(x):
        return Fraction(x)
    nums = [0, 1, -1, 2, -2, 7, -7, 10, 15, -15, 0.5, -0.5, 1.5, -1.5, 2.5, -2.5, 0.125, -0.375, 3.7, -3.7, 123.456, -123.456, 1e-3, 99.995, 1234567.891,
            0.25, 17.0, -17.0, 1000000, 5.5, -5.5, 2.675]
    def ceil_floor(x, s):
        nonlocal cases
        for name in ('CEILING', 'FLOOR'):
            cases += 1
            r = call(name, x, s)
            fx, fs = F(x), abs(F(s))
            if name == 'FLOOR' and x > 0 and s < 0:
                ok = r['error'] == '#NUM!'
            elif r['error'] is not None:
                ok = False
            else:
                v = F(r['result'])
                mult = (v / fs).denominator == 1
                if name == 'CEILING':
                    side = (v >= fx and v - fx < fs) if (x >= 0 or s > 0) else (v <= fx and fx - v < fs)
                else:
                    side = (v <= fx and fx - v < fs) if (x >= 0 or s > 0) else (v >= fx and v - fx < fs)
                ok = mult and side
            if not ok and len(fails) < 5:
                fails.append({'formula': '%s(%r,%r)' % (name, x, s), 'detail': 'got %r' % (r,)})
    # numbers a hair (2^-34 significances, exactly representable) beside a multiple: the adjacent multiple on the documented side is the
    # NEXT one, however close the number is to the one it has just passed
    for s in (1, 2, 0.5, 0.25, -1, -2, -0.5, 4):
        for k in (-1000, -7, -1, 0, 1, 3, 7, 1000):
            for eps in (2.0 ** -34, -2.0 ** -34, 2.0 ** -20, -2.0 ** -20):
                x = (k + eps) * abs(s)
                ceil_floor(x, s)
                for name in ('ROUNDUP', 'ROUNDDOWN', 'INT'):
                    cases += 1
                    r = call(name, x, 0) if name != 'INT' else call(name, x)
                    want = math.floor(x) if name == 'INT' else ((math.ceil(abs(x)) if name == 'ROUNDUP' else math.floor(abs(x))) * (1 if x >= 0 else -1))
                    if r['result'] != want and len(fails) < 5:
                        fails.append({'formula': '%s(%r%s)' % (name, x, '' if name == 'INT' else ',0'), 'detail': 'expected %r got %r' % (want, r)})
    for x in nums:
        for d in range(-6, 7):
            unit = F(10) ** (-d)
            for name in ('ROUND', 'ROUNDUP', 'ROUNDDOWN'):
                cases += 1
                r = call(name, x, d)
                if r['error'] is not None:
                    fails.append({'formula': '%s(%r,%d)' % (name, x, d), 'detail': 'got %r' % (r,)}) if len(fails) < 5 else None
                    continue
                v = F(r['result'])
                near = abs(v / unit - round(v / unit)) < Fraction(1, 10**9) * max(1, abs(v / unit))     # a multiple of 10^-digits (up to float noise)
                fx = F(x)
                if name == 'ROUND':
                    ok = near and abs(v - fx) <= unit / 2 + abs(fx) * Fraction(1, 10**12)
                elif name == 'ROUNDUP':
                    ok = near and abs(v) >= abs(fx) - abs(fx) * Fraction(1, 10**12) and abs(v) - abs(fx) < unit
                else:
                    ok = near and abs(v) <= abs(fx) + abs(fx) * Fraction(1, 10**12) and abs(fx) - abs(v) < unit
                if not ok and len(fails) < 5:
                    fails.append({'formula': '%s(%r,%d)' % (name, x, d), 'detail': 'got %r' % (r,)})
        for s in (1, 2, 0.5, 0.25, 5, -1, -2, -0.5, 10, 3):
            ceil_floor(x, s)
        cases += 4
        r = call('INT', x)
        if r['result'] != math.floor(x) and len(fails) < 5:
            fails.append({'formula': 'INT(%r)' % x, 'detail': 'got %r' % (r,)})
        r = call('SIGN', x)
        if r['result'] != (0 if x == 0 else (1 if x > 0 else -1)) and len(fails) < 5:
            fails.append({'formula': 'SIGN(%r)' % x, 'detail': 'got %r' % (r,)})
        for name, par in (('EVEN', 0), ('ODD', 1)):
            r = call(name, x)
            v = r['result']
            want = None
            k = math.ceil(abs(x))
            while k % 2 != par:
                k += 1
            want = k if x >= 0 else -k
            if v != want and len(fails) < 5:
                fails.append({'formula': '%s(%r)' % (name, x), 'detail': 'expected %r got %r' % (want, r)})
        for y in (1, 2, 3, -3, 0.5, -0.5, 7, 0):
            cases += 2
            r = call('QUOTIENT', x, y)
            if y == 0:
                ok = r['error'] == '#DIV/0!'
            else:
                ok = r['result'] == int(F(x) / F(y))
            if not ok and len(fails) < 5:
                fails.append({'formula': 'QUOTIENT(%r,%r)' % (x, y), 'detail': 'got %r' % (r,)})
            r = call('MOD', x, y)
            if y == 0:
                ok = r['error'] == '#DIV/0!'
            else:
                mv = F(r['result']) if r['error'] is None else None
                q = (F(x) - mv) / F(y) if mv is not None else None
                ok = mv is not None and abs(q - round(q)) < Fraction(1, 10**9) and (mv == 0 or (mv > 0) == (y > 0)) and abs(mv) < abs(F(y)) + Fraction(1, 10**9)
            if not ok and len(fails) < 5:
                fails.append({'formula': 'MOD(%r,%r)' % (x, y), 'detail': 'got %r' % (r,)})
    # known finding: QUOTIENT goes through float division
    big = 10**17 + 1
    r = call('QUOTIENT', big, 1)
    known_e2e(report, 'C17-quotient-float', r['result'] != big, 'QUOTIENT(10^17+1,1)',
              'QUOTIENT divides in floating point: QUOTIENT(10^17+1, 1) = %r' % (r['result'],))
    for n in range(0, 25):
        cases += 2
        r = call('FACT', n)
        if r['result'] != math.factorial(n) and len(fails) < 5:
            fails.append({'formula': 'FACT(%d)' % n, 'detail': 'got %r' % (r,)})
    for n in (-1, -5, -0.5):
        cases += 2
        for name in ('FACT', 'FACTDOUBLE'):
            r = call(name, n)
            if r['error'] != '#NUM!' and len(fails) < 5:
                fails.append({'formula': '%s(%r)' % (name, n), 'detail': 'negative argument must be #NUM!, got %r' % (r,)})
    # radix round trips
    for _ in range(600 if env['tier'] == 'quick' else 8000):
        n = rng.choice([rng.randrange(0, 2**39), rng.randrange(0, 5000), 2**39 - 1, 0, 1])
        radix = rng.randint(2, 36)
        cases += 1
        p.set_variable('va', n)
        p.set_variable('vb', radix)
        r = p.parse('DECIMAL(BASE(va,vb),vb)')
        if r['result'] != n and len(fails) < 5:
            fails.append({'formula': 'DECIMAL(BASE(%d,%d),%d)' % (n, radix, radix), 'detail': 'got %r' % (r,)})
        m = rng.choice([rng.randrange(-2**39, 2**39), -2**39, 2**39 - 1, -1, 0])
        p.set_variable('va', m)
        cases += 1
        r = p.parse('HEX2DEC(DEC2HEX(va))')
        if r['result'] != m and len(fails) < 5:
            fails.append({'formula': 'HEX2DEC(DEC2HEX(%d))' % m, 'detail': 'got %r' % (r,)})
    for radix in (-1, 0, 1, 37, 40, 100):
        cases += 1
        r = call('BASE', 10, radix)
        if r['error'] is None and len(fails) < 5:
            fails.append({'formula': 'BASE(10,%d)' % radix, 'detail': 'radix outside 2..36 must be an error, got %r' % (r,)})
    for v in (-1, -255):
        cases += 1
        r = call('BASE', v, 2)
        if r['error'] is None and len(fails) < 5:
            fails.append({'formula': 'BASE(%d,2)' % v, 'detail': 'negative number must be an error, got %r' % (r,)})
    for v in (2**39, -2**39 - 1, 2**40, 10**15):
        cases += 1
        r = call('DEC2HEX', v)
        if r['error'] is None and len(fails) < 5:
            fails.append({'formula': 'DEC2HEX(%d)' % v, 'detail': 'outside the 40-bit range must be an error, got %r' % (r,)})
    # ROMAN / ARABIC: exhaustive (finite domain)
    vals = {'I': 1, 'V': 5, 'X': 10, 'L': 50, 'C': 100, 'D': 500, 'M': 1000}
    ROMAN = native.real_function('hotxlfp.formulas.mathtrig:ROMAN')
    ARABIC = native.real_function('hotxlfp.formulas.mathtrig:ARABIC')
    for n in range(1, 4000):
        for form in range(0, 5):
            cases += 1
            s = ROMAN(n, form)
            total = 0
            for i in range(len(s)):
                v = vals[s[i]]
                total += -v if (i + 1 < len(s) and vals[s[i + 1]] > v) else v
            if total != n and len(fails) < 5:
                fails.append({'formula': 'ROMAN(%d,%d)' % (n, form), 'detail': '%r denotes %d' % (s, total)})
        if ARABIC(ROMAN(n)) != n and len(fails) < 5:
            fails.append({'formula': 'ARABIC(ROMAN(%d))' % n, 'detail': 'got %r' % (ARABIC(ROMAN(n)),)})
    for re_, im in ((3, 4), (-7, 2), (0, 0), (12, -9)):
        cases += 1
        p.set_variable('va', re_)
        p.set_variable('vb', im)
        r1, r2 = p.parse('IMREAL(COMPLEX(va,vb))'), p.parse('IMAGINARY(COMPLEX(va,vb))')
        if (r1['result'], r2['result']) != (re_, im) and len(fails) < 5:
            fails.append({'formula': 'IMREAL/IMAGINARY(COMPLEX(%d,%d))' % (re_, im), 'detail': 'got %r %r' % (r1, r2)})
    bounded(report, 'C17.grid', 'termination sweep: 22 functions x 22 odd arguments x 7 second arguments under a line budget; ROUND* exactly at digits 0 / -1 on 11 near-half numbers; 32 numbers x digits -6..6 x 3 rounding functions, x 10 significances x CEILING/FLOOR, numbers 2^-34 and 2^-20 significances beside a multiple (8 significances x 8 multiples; also ROUNDUP/ROUNDDOWN/INT), INT/SIGN/EVEN/ODD, x 8 divisors '
            'QUOTIENT/MOD (exact Fraction reference), FACT 0..24, seeded radix round trips over the 40-bit range x radix 2..36, out-of-range '
            'arguments, ROMAN/ARABIC exhaustively (3999 x 5 forms), COMPLEX', cases, fails)


def replay(rp):
    print(rp)
    return 1
